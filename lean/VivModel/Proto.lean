/-!
# The process command protocol (`Process.send_command` / `get_command_result`,
`ParallelProcess`, `_handle_parallel_process`)

A parent-side handle and a worker connected by a FIFO pipe in each direction.  The serial `Process`
is the special case in which the "worker" answers at once; the engine uses the same two calls
(`send_command`, `get_command_result`) for both, so everything proved here holds for both.
-/
namespace Viv.Proto

inductive Cmd where
  | run (name : String)      -- any METHOD / ATTRIBUTE command, e.g. next_update
  | stop                     -- 'end'
  deriving Repr, DecidableEq

inductive Err where
  | pendingOnSend            -- RuntimeError: a command is still pending
  | nothingPending           -- RuntimeError: no command is pending
  | workerGone               -- send/recv on a worker that has exited (EOFError / BrokenPipe)
  deriving Repr, DecidableEq

structure S where
  /-- `_pending_command` -/
  pending : Option Cmd
  /-- `_ended` -/
  ended : Bool
  /-- the worker loop is still running -/
  alive : Bool
  /-- commands sent and not yet received by the worker -/
  toWorker : List Cmd
  /-- results produced and not yet collected -/
  toParent : List String
  /-- the OS process has been joined -/
  joined : Bool
  /-- `_result_at_end`: the result `end()` collected from a command that was still in flight -/
  kept : Option String
  deriving Repr, DecidableEq

def fresh : S :=
  { pending := none, ended := false, alive := true, toWorker := [], toParent := [], joined := false,
    kept := none }

/-- `send_command` (with the pre-check) -/
def send (s : S) (c : Cmd) : Except Err S :=
  match s.pending with
  | some _ => .error .pendingOnSend
  | none =>
    if s.alive then .ok { s with pending := some c, toWorker := s.toWorker ++ [c] }
    else .error .workerGone

/-- the worker processes everything it has received: `recv`; `end` → leave the loop; otherwise run
the command and `send` the result -/
def workerDrain (s : S) : S :=
  s.toWorker.foldl (fun (st : S) c =>
      if st.alive then
        match c with
        | .stop => { st with alive := false }
        | .run name => { st with toParent := st.toParent ++ [name] }
      else st)
    { s with toWorker := [] }

/-- `get_command_result` (blocks until the worker has answered); once the worker is gone it
hands out the result `end()` kept -/
def get (s : S) : Except Err (S × String) :=
  match s.pending with
  | none => .error .nothingPending
  | some _ =>
    if s.ended then
      match s.kept with
      | some r => .ok ({ s with pending := none, kept := none }, r)
      | none => .error .workerGone
    else
    let s' := workerDrain s
    match s'.toParent with
    | r :: rest => .ok ({ s' with pending := none, toParent := rest }, r)
    | [] => .error .workerGone

/-- `ParallelProcess.end()` (as repaired: a pending result is collected first) -/
def stop (s : S) : Except Err S :=
  if s.ended then .ok s
  else
    -- a pending result is collected and kept for a caller that is about to ask for it
    let collected : Except Err S :=
      match s.pending with
      | some _ => (get s).map (fun sr => { sr.1 with kept := some sr.2 })
      | none => .ok s
    match collected with
    | .error e => .error e
    | .ok s1 =>
      match send s1 .stop with
      | .error e => .error e
      | .ok s2 =>
        let s3 := workerDrain s2
        -- `self.multiprocess.join()`: returns once the worker loop has exited
        if s3.alive then .error .workerGone
        else .ok { s3 with ended := true, joined := true, pending := s3.pending }

/-- the engine's use of a process: a list of requests -/
inductive Req where
  | send (name : String)
  | get
  | stop
  deriving Repr, DecidableEq

def step (s : S) : Req → Except Err S
  | .send name => send s (.run name)
  | .get => (get s).map (·.1)
  | .stop => stop s

def run (s : S) : List Req → Except Err S
  | [] => .ok s
  | r :: rest =>
    match step s r with
    | .ok s' => run s' rest
    | .error e => .error e

end Viv.Proto
