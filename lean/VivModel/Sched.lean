/-!
# The scheduler: `Engine.run_for` / `update` / `run_steps` / emission

Transcribed from `vivarium/core/engine.py` (`Engine.__init__` tail, `run_for`, `update`,
`_send_updates`, `run_steps`, `_emit_store_data`, `_check_complete`, `empty_front`).

* Time is `Int` ticks.
* A process is not code here: it is an oracle (`Beh`) answering the three callbacks
  `calculate_timestep`, `update_condition`, `next_update`, each as a function of the number of
  earlier calls of that callback, of the arguments the engine passes, and of the state it is shown.
  Theorems quantify over all oracles whose timesteps are positive.
* The state is a map from variable names to integers combined by the `accumulate` updater; an
  update is a list of `(variable, delta)`.  (The hierarchy/topology side is modelled elsewhere.)
* `front[path]` is `Front`: `time`, the pending update (`update`), the remembered timestep of a
  deferred interval (`timestep`), plus the three call counters (ghost state naming the oracle's
  next answers).
* The event log `log` is ghost state: it records what the engine did, in order, and is what the
  theorems (C01–C05, C12) talk about and what the correspondence check compares with a trace of
  the real engine.
-/
namespace Viv.Sched

abbrev Pid := List String
abbrev Sid := List String
abbrev Store := List (String × Int)
abbrev Upd := List (String × Int)

/-- `accumulate` one delta into the state (a variable not yet present starts from 0) -/
def accum (v : String) (d : Int) : Store → Store
  | [] => [(v, d)]
  | (v', x) :: rest => if v' = v then (v', x + d) :: rest else (v', x) :: accum v d rest

/-- apply one update: every `(variable, delta)` in order -/
def applyUpd (s : Store) (u : Upd) : Store := u.foldl (fun s vd => accum vd.1 vd.2 s) s

def readVar (s : Store) (v : String) : Int :=
  match s with
  | [] => 0
  | (v', x) :: rest => if v' = v then x else readVar rest v

/-- process oracle -/
structure Beh where
  /-- `calculate_timestep(states)`: pid, number of earlier calls, state shown -/
  ts : Pid → Nat → Store → Nat
  /-- `update_condition(timestep, states)` -/
  cond : Pid → Nat → Int → Store → Bool
  /-- `next_update(timestep, states)` -/
  upd : Pid → Nat → Int → Store → Upd

/-- step oracle (steps are invoked with timestep 0) -/
structure StepBeh where
  cond : Sid → Nat → Store → Bool
  upd : Sid → Nat → Store → Upd

structure Front where
  time : Int
  pending : Option Upd
  sticky : Option Nat
  nTs : Nat
  nCond : Nat
  nInv : Nat
  deriving Repr

inductive Ev where
  /-- `calculate_timestep` call number `k` of `p` at global time `gt` -/
  | askTs (p : Pid) (k : Nat) (gt : Int)
  /-- `update_condition(ts, ·)` call number `k` of `p` at `gt`, with its answer -/
  | askCond (p : Pid) (k : Nat) (ts : Int) (gt : Int) (ans : Bool)
  /-- `next_update(ts, view)` call number `n` of `p` issued at global time `gt`, for the interval
      `[start, due]`; `u` is the update it returns -/
  | invoke (p : Pid) (n : Nat) (gt : Int) (start : Int) (ts : Int) (due : Int) (view : Store) (u : Upd)
  /-- a quiet process carried from `a` to `b` without being invoked -/
  | skip (p : Pid) (a b : Int)
  /-- the pending update of `p` (due at `due`) applied at global time `t` -/
  | apply (p : Pid) (t : Int) (due : Int) (u : Upd)
  /-- step `s` polled (call `k`) in a step phase at time `t`, shown `view`; `ran` = condition held;
      `layer` is its execution layer in that phase -/
  | stepRun (s : Sid) (k : Nat) (t : Int) (layer : Nat) (view : Store) (ran : Bool) (u : Upd)
  /-- a step phase begins / ends -/
  | phaseBegin (t : Int)
  | phaseEnd (t : Int)
  | config
  | emit (t : Int) (row : Store)
  deriving Repr

structure Outcome where
  front : Front
  contrib : Option Int
  quiet : Bool
  evs : List Ev

def emptyFront (t : Int) (f : Front) : Front :=
  { f with time := t, pending := none, sticky := none }

/-- the part of one poll after the timestep `ts` is known (`nTs'`, `evTs`: the
`calculate_timestep` bookkeeping) -/
def pollWith (beh : Beh) (gt endT : Int) (force : Bool) (view : Store) (p : Pid) (f : Front)
    (ts : Nat) (nTs' : Nat) (evTs : List Ev) : Outcome :=
  let fut0 : Int := f.time + ts
  let trunc : Bool := force && decide (fut0 > endT)
  -- `if force_complete and future > end_time: future = end_time; process_timestep = end_time - process_time`
  let fut : Int := if trunc then endT else fut0
  let tsPassed : Int := if trunc then endT - f.time else ts
  if fut ≤ endT then
    if beh.cond p f.nCond tsPassed view then
      let u := beh.upd p f.nInv tsPassed view
      { front := { time := fut, pending := some u, sticky := none, nTs := nTs',
                   nCond := f.nCond + 1, nInv := f.nInv + 1 },
        contrib := some (fut - gt), quiet := false,
        evs := evTs ++ [Ev.askCond p f.nCond tsPassed gt true,
                        Ev.invoke p f.nInv gt f.time tsPassed fut view u] }
    else
      { front := { f with sticky := none, nTs := nTs', nCond := f.nCond + 1 },
        contrib := none, quiet := true,
        evs := evTs ++ [Ev.askCond p f.nCond tsPassed gt false] }
  else
    { front := { f with sticky := some ts, nTs := nTs' },
      contrib := some (fut - gt), quiet := false, evs := evTs }

/-- one process, one pass of the polling loop of `run_for` -/
def poll (beh : Beh) (gt endT : Int) (force : Bool) (view : Store) (p : Pid) (f : Front) :
    Outcome :=
  if f.time ≤ gt then
    if force && decide (endT ≤ f.time) then
      -- `if force_complete and process_time >= end_time: continue` (already complete)
      { front := f, contrib := none, quiet := false, evs := [] }
    else
    -- `self.front[path].pop('timestep', None)` else `calculate_timestep(states)`
    match f.sticky with
    | some n => pollWith beh gt endT force view p f n f.nTs []
    | none => pollWith beh gt endT force view p f (beh.ts p f.nTs view) (f.nTs + 1) [Ev.askTs p f.nTs gt]
  else
    { front := f, contrib := some (f.time - gt), quiet := false, evs := [] }

def minOpt : Option Int → Option Int → Option Int
  | none, b => b
  | a, none => a
  | some a, some b => some (min a b)

def fullStep (os : List (Pid × Outcome)) : Option Int :=
  os.foldl (fun m o => minOpt m o.2.contrib) none

/-- a quiet process is carried along to the new global time -/
def settle (gt' : Int) (o : Outcome) : Front :=
  if o.quiet then emptyFront gt' o.front else o.front

def settleEv (gt' : Int) (po : Pid × Outcome) : List Ev :=
  if po.2.quiet then [Ev.skip po.1 po.2.front.time gt'] else []

def clearDue (gt' : Int) (f : Front) : Front :=
  match f.pending with
  | some _ => if f.time ≤ gt' then { f with pending := none } else f
  | none => f

def dueUpd (gt' : Int) (pf : Pid × Front) : Option (Pid × Int × Upd) :=
  match pf.2.pending with
  | some u => if pf.2.time ≤ gt' then some (pf.1, pf.2.time, u) else none
  | none => none

/-- the "no processes ran" jump target: the earliest front strictly ahead, at most `endT` -/
def nextEvent (gt endT : Int) (fs : List (Pid × Front)) : Int :=
  fs.foldl (fun ne pf => if gt < pf.2.time ∧ pf.2.time < ne then pf.2.time else ne) endT

structure St where
  gt : Int
  fronts : List (Pid × Front)
  store : Store
  /-- execution layers of the steps (fixed here; the dynamic step graph is `StepGraph.lean`) -/
  layers : List (List Sid)
  stepCalls : List (Sid × Nat)
  emitTime : Int
  log : List Ev

def stepCount (sc : List (Sid × Nat)) (s : Sid) : Nat :=
  match sc with
  | [] => 0
  | (s', k) :: rest => if s' = s then k else stepCount rest s

def bumpStep (sc : List (Sid × Nat)) (s : Sid) : List (Sid × Nat) :=
  match sc with
  | [] => [(s, 1)]
  | (s', k) :: rest => if s' = s then (s', k + 1) :: rest else (s', k) :: bumpStep rest s

/-- one execution layer: every step of the layer is shown the same state, then their updates
are applied in order -/
def runLayer (sb : StepBeh) (t : Int) (li : Nat) (layer : List Sid)
    (st : Store × List (Sid × Nat) × List Ev) : Store × List (Sid × Nat) × List Ev :=
  let view := st.1
  let results := layer.map (fun s =>
    let k := stepCount st.2.1 s
    let ran := sb.cond s k view
    let u := if ran then sb.upd s k view else []
    (s, k, ran, u))
  let store' := results.foldl (fun acc r => applyUpd acc r.2.2.2) st.1
  let calls' := layer.foldl bumpStep st.2.1
  let evs := results.map (fun r => Ev.stepRun r.1 r.2.1 t li view r.2.2.1 r.2.2.2)
  (store', calls', st.2.2 ++ evs)

def runLayers (sb : StepBeh) (t : Int) : Nat → List (List Sid) →
    Store × List (Sid × Nat) × List Ev → Store × List (Sid × Nat) × List Ev
  | _, [], st => st
  | li, layer :: rest, st => runLayers sb t (li + 1) rest (runLayer sb t li layer st)

/-- `run_steps()` -/
def runSteps (sb : StepBeh) (s : St) : St :=
  let r := runLayers sb s.gt 0 s.layers (s.store, s.stepCalls, s.log ++ [Ev.phaseBegin s.gt])
  { s with store := r.1, stepCalls := r.2.1, log := r.2.2 ++ [Ev.phaseEnd s.gt] }

/-- `Store.emit_data()`: the variables flagged `_emit`, in hierarchy order -/
def emitRow (flagged : List String) (s : Store) : Store := s.filter (fun kv => flagged.contains kv.1)

/-- the emission part of one applied batch -/
def emitAfter (emitEvery : Bool) (emitStep : Nat) (flagged : List String) (s : St) : St :=
  if emitEvery then
    { s with log := s.log ++ [Ev.emit s.gt (emitRow flagged s.store)] }
  else if s.emitTime ≤ s.gt then
    -- emit once, then advance `emit_time` past the global time
    let k : Int := (s.gt - s.emitTime) / (emitStep : Int) + 1
    { s with log := s.log ++ [Ev.emit s.gt (emitRow flagged s.store)],
             emitTime := s.emitTime + k * emitStep }
  else s

structure Cfg where
  beh : Beh
  sb : StepBeh
  emitEvery : Bool
  emitStep : Nat
  /-- names of the variables flagged `_emit` -/
  flagged : List String

/-- advance the clock to `gt'`, carry the quiet processes along, collect the updates that are
due (`advance['time'] <= self.global_time and advance['update']`), clear them from the front and
apply them in front order (`_send_updates` before `run_steps`) -/
def applyBatch (s : St) (os : List (Pid × Outcome)) (gt' : Int) : St :=
  let fs := os.map (fun po => (po.1, settle gt' po.2))
  let due := fs.filterMap (dueUpd gt')
  { s with gt := gt', fronts := fs.map (fun pf => (pf.1, clearDue gt' pf.2)),
           store := due.foldl (fun acc pdu => applyUpd acc pdu.2.2) s.store,
           log := s.log ++ (os.map (fun po => po.2.evs)).flatten ++ (os.map (settleEv gt')).flatten ++
                  due.map (fun pdu => Ev.apply pdu.1 gt' pdu.2.1 pdu.2.2) }

/-- one pass of the `while` loop of `run_for` -/
def iter (c : Cfg) (endT : Int) (force : Bool) (s : St) : St :=
  let os := s.fronts.map (fun pf => (pf.1, poll c.beh s.gt endT force s.store pf.1 pf.2))
  let pollEvs := (os.map (fun po => po.2.evs)).flatten
  match fullStep os with
  | none =>
      let gt' := nextEvent s.gt endT (os.map (fun po => (po.1, po.2.front)))
      { s with gt := gt', fronts := os.map (fun po => (po.1, settle gt' po.2)),
               log := s.log ++ pollEvs ++ (os.map (settleEv gt')).flatten }
  | some d =>
      if s.gt + d ≤ endT then
        emitAfter c.emitEvery c.emitStep c.flagged (runSteps c.sb (applyBatch s os (s.gt + d)))
      else
        { s with gt := endT, fronts := os.map (fun po => (po.1, settle endT po.2)),
                 log := s.log ++ pollEvs ++ (os.map (settleEv endT)).flatten }

/-- the `while self.global_time < end_time or force_complete` loop, with fuel -/
def loop (c : Cfg) (endT : Int) : Nat → Bool → St → Option St
  | 0, _, _ => none
  | fuel + 1, force, s =>
      if s.gt < endT || force then
        let s' := iter c endT force s
        let force' := if force && decide (s'.gt = endT) then false else force
        loop c endT fuel force' s'
      else some s

/-- `run_for(interval, force_complete)`; fuel `interval + 2` always suffices (theorem) -/
def runFor (c : Cfg) (interval : Nat) (force : Bool) (s : St) : Option St :=
  loop c (s.gt + interval) (interval + 2) force
    { s with emitTime := s.gt + c.emitStep }

/-- `_check_complete()` after `update()` -/
def checkComplete (s : St) : Bool :=
  s.fronts.all (fun pf => pf.2.time == s.gt && pf.2.pending.isNone)

/-- a sequence of `run_for(interval, force)` calls -/
def runCalls (c : Cfg) : List (Nat × Bool) → St → Option St
  | [], s => some s
  | (iv, force) :: rest, s =>
    match runFor c iv force s with
    | some s' => runCalls c rest s'
    | none => none

def newFront (t : Int) : Front :=
  { time := t, pending := none, sticky := none, nTs := 0, nCond := 0, nInv := 0 }

/-- the engine state before the initial step phase -/
def init0 (t0 : Int) (pids : List Pid) (layers : List (List Sid)) (store : Store) : St :=
  { gt := t0, fronts := pids.map (fun p => (p, newFront t0)), store := store,
    layers := layers, stepCalls := [], emitTime := t0, log := [] }

/-- `Engine.__init__`: fronts at the initial time, the initial step phase, the configuration
record, the first history row -/
def init (c : Cfg) (t0 : Int) (pids : List Pid) (layers : List (List Sid)) (store : Store) : St :=
  let s1 := runSteps c.sb (init0 t0 pids layers store)
  { s1 with log := s1.log ++ [Ev.config, Ev.emit s1.gt (emitRow c.flagged s1.store)] }

end Viv.Sched
