/-!
# Values

JSON-like Python values.  Dictionaries are insertion-ordered association lists
(`d[k] = v` on an existing key keeps the key's position, as in CPython).
Model files import nothing outside core.
-/
namespace Viv

inductive Val where
  | none
  | bool (b : Bool)
  | int (i : Int)
  | str (s : String)
  | list (xs : List Val)
  | dict (kvs : List (String × Val))
  deriving Repr, Inhabited

abbrev KVs := List (String × Val)
abbrev Path := List String

/-- Errors of modelled Python code, as a small enum. -/
inductive Err where
  | typeError     -- `x in 3`, `3[k] = v`, wrong collection type …
  | keyError
  | valueError
  | exception     -- plain `Exception(...)`
  | assertion
  | attributeError -- `3 .setdefault(...)`, `None.get(...)`
  deriving Repr, DecidableEq, Inhabited

namespace KV

/-- `d.get(k)` / `d[k]` -/
def lookup (k : String) : KVs → Option Val
  | [] => Option.none
  | (k', v) :: rest => if k' = k then some v else lookup k rest

def has (k : String) (kvs : KVs) : Bool := (lookup k kvs).isSome

/-- `d[k] = v`: replaces in place or appends. -/
def set (k : String) (v : Val) : KVs → KVs
  | [] => [(k, v)]
  | (k', v') :: rest => if k' = k then (k', v) :: rest else (k', v') :: set k v rest

/-- `del d[k]` when present (no-op otherwise).  Removes every entry with that key; on the
key-unique lists that represent Python dicts this is the single entry. -/
def erase (k : String) (kvs : KVs) : KVs := kvs.filter (fun kv => kv.1 != k)

def keys (kvs : KVs) : List String := kvs.map (·.1)

/-- Key-uniqueness: the representation invariant of a Python dict. -/
def Nodup (kvs : KVs) : Prop := (keys kvs).Nodup

@[simp] theorem lookup_nil (k : String) : lookup k [] = Option.none := rfl

@[simp] theorem lookup_set_same (k : String) (v : Val) (kvs : KVs) :
    lookup k (set k v kvs) = some v := by
  induction kvs with
  | nil => simp [set, lookup]
  | cons hd tl ih =>
    obtain ⟨k', v'⟩ := hd
    by_cases h : k' = k <;> simp [set, lookup, h, ih]

theorem lookup_set_other {k k' : String} (h : k' ≠ k) (v : Val) (kvs : KVs) :
    lookup k' (set k v kvs) = lookup k' kvs := by
  induction kvs with
  | nil => simp [set, lookup]; intro h'; exact absurd h'.symm h
  | cons hd tl ih =>
    obtain ⟨k0, v0⟩ := hd
    by_cases h0 : k0 = k
    · subst h0; simp only [set, if_true, lookup]
      have : ¬ (k0 = k') := fun e => h e.symm
      simp [this]
    · simp only [set, h0, if_false, lookup]
      by_cases h1 : k0 = k' <;> simp [h1, ih]

@[simp] theorem lookup_erase_same (k : String) (kvs : KVs) :
    lookup k (erase k kvs) = Option.none := by
  induction kvs with
  | nil => simp [erase]
  | cons hd tl ih =>
    obtain ⟨k0, v0⟩ := hd
    by_cases h0 : k0 = k
    · simp [erase, h0] at ih ⊢; exact ih
    · simp [erase, h0, lookup] at ih ⊢; exact ih

theorem lookup_erase_other {k k' : String} (h : k' ≠ k) (kvs : KVs) :
    lookup k' (erase k kvs) = lookup k' kvs := by
  induction kvs with
  | nil => simp [erase]
  | cons hd tl ih =>
    obtain ⟨k0, v0⟩ := hd
    by_cases h0 : k0 = k
    · subst h0
      have : ¬ (k0 = k') := fun e => h e.symm
      simp [erase, lookup, this] at ih ⊢; exact ih
    · by_cases h1 : k0 = k'
      · subst h1; simp [erase, h0, lookup]
      · simp [erase, h0, lookup, h1] at ih ⊢; exact ih

theorem keys_set_of_mem {k : String} (v : Val) {kvs : KVs} (h : (lookup k kvs).isSome) :
    keys (set k v kvs) = keys kvs := by
  induction kvs with
  | nil => simp [lookup] at h
  | cons hd tl ih =>
    obtain ⟨k0, v0⟩ := hd
    by_cases h0 : k0 = k
    · simp [set, h0, keys]
    · simp only [lookup, h0, if_false] at h
      simp only [set, h0, if_false, keys, List.map_cons]
      have := ih h; unfold keys at this; rw [this]

theorem keys_set_of_not_mem {k : String} (v : Val) {kvs : KVs} (h : lookup k kvs = Option.none) :
    keys (set k v kvs) = keys kvs ++ [k] := by
  induction kvs with
  | nil => simp [set, keys]
  | cons hd tl ih =>
    obtain ⟨k0, v0⟩ := hd
    by_cases h0 : k0 = k
    · simp [lookup, h0] at h
    · simp only [lookup, h0, if_false] at h
      simp only [set, h0, if_false, keys, List.map_cons, List.cons_append]
      have := ih h; unfold keys at this; rw [this]

theorem lookup_none_iff_not_mem_keys (k : String) (kvs : KVs) :
    lookup k kvs = Option.none ↔ k ∉ keys kvs := by
  induction kvs with
  | nil => simp [keys]
  | cons hd tl ih =>
    obtain ⟨k0, v0⟩ := hd
    by_cases h0 : k0 = k
    · simp [lookup, h0, keys]
    · simp only [lookup, h0, if_false, keys, List.map_cons, List.mem_cons, not_or]
      constructor
      · intro h; exact ⟨fun e => h0 e.symm, by have := ih.mp h; unfold keys at this; exact this⟩
      · intro h; apply ih.mpr; unfold keys; exact h.2

theorem nodup_set (k : String) (v : Val) (kvs : KVs) (hn : Nodup kvs) : Nodup (set k v kvs) := by
  unfold Nodup
  cases h : lookup k kvs with
  | none =>
    rw [keys_set_of_not_mem v h]
    have hnm := (lookup_none_iff_not_mem_keys k kvs).mp h
    unfold Nodup at hn
    rw [List.nodup_append]
    refine ⟨hn, by simp, ?_⟩
    intro a ha b hb; simp at hb; subst hb; intro e; subst e; exact hnm ha
  | some x =>
    rw [keys_set_of_mem v (by simp [h])]; exact hn

theorem nodup_erase (k : String) (kvs : KVs) (hn : Nodup kvs) : Nodup (erase k kvs) := by
  unfold Nodup keys erase at *
  exact (List.filter_sublist.map _).nodup hn

end KV

/-- `k in v` raises `TypeError` (int, bool, None); lists and strings answer `False` for the keys
the generators use (lists hold no strings, leaf strings contain no key as a substring). -/
def Val.inRaises : Val → Bool
  | .none | .bool _ | .int _ => true
  | _ => false

/-- `isinstance(v, dict)` -/
def Val.isDict : Val → Bool
  | .dict _ => true
  | _ => false

end Viv
