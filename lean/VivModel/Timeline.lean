import VivModel.Path
import VivModel.ValEq
/-!
# The timeline process and the tick loop that drives it

Transcribed from `vivarium/processes/timeline.py` (`nested_set`,
`TimelineProcess.initialize_timeline`, `ports_schema`, `next_update`),
`vivarium/library/dict_utils.py` (`deep_merge_combine_lists`, used for `timeline_ports`) and — for one timeline process
driven by `Engine.update(interval)` — the part of `Engine.run_for` that schedules it
(`vivarium/core/engine.py`) and the leaf branch of `Store.apply_update`
(`vivarium/core/store.py`) that applies `{'_value': v, '_updater': 'set'}`.

An event is `(time, {path tuple: value})`.  The change dictionary is an insertion-ordered
association list keyed by paths; times are integers (the harness only uses integer times and
timesteps, where the float arithmetic of `run_for` is exact).
-/
namespace Viv

/-- a `{path tuple: value}` dictionary -/
abbrev Changes := List (Path × Val)

namespace PD

/-- `d.get(p)` -/
def lookup (p : Path) : Changes → Option Val
  | [] => Option.none
  | (q, v) :: rest => if q = p then some v else lookup p rest

/-- `d[p] = v`: replaces in place or appends -/
def set (p : Path) (v : Val) : Changes → Changes
  | [] => [(p, v)]
  | (q, w) :: rest => if q = p then (q, v) :: rest else (q, w) :: set p v rest

/-- `a.update(b)` (returns the mutated `a`) -/
def update (a b : Changes) : Changes := b.foldl (fun acc kv => set kv.1 kv.2 acc) a

end PD

structure Event where
  time : Int
  changes : Changes
  deriving Repr, Inhabited

/-- One pass of the inner `for … else` loop of `initialize_timeline`: merge into the event
with the same time, or insert before the first later event, or append. The first clause is
also the `if not timeline: timeline.append(new_event)` case. -/
def insertEvent (new : Event) : List Event → List Event
  | [] => [new]
  | e :: rest =>
    if new.time = e.time then { e with changes := PD.update e.changes new.changes } :: rest
    else if new.time < e.time then new :: e :: rest
    else e :: insertEvent new rest

/-- `initialize_timeline`: `self.timeline` from `self.parameters['timeline']`. -/
def initializeTimeline (es : List Event) : List Event :=
  es.foldl (fun tl e => insertEvent e tl) []

/-- `deep_merge_combine_lists(dct, merge_dct)` (returns the mutated `dct`): dictionaries are
merged recursively, two lists are combined without repeating values, anything else is
overwritten.  `initialize_timeline` uses it to collect `timeline_ports`. -/
def combineLists (a : List Val) : List Val → List Val
  | [] => a
  | i :: rest => combineLists (if i.pyIn a then a else a ++ [i]) rest

def dmcl (dct : KVs) : KVs → KVs
  | [] => dct
  | (k, v) :: rest =>
    let merged :=
      match KV.lookup k dct, v with
      | some (.dict a), .dict b => Val.dict (dmcl a b)
      | some (.list a), .list b => Val.list (combineLists a b)
      | _, _ => v
    dmcl (KV.set k merged dct) rest

/-- `self.timeline_ports`: starting from `{'global': ['time']}`, every driven variable `state`
adds `{state[0]: [state[1:]]}` with `deep_merge_combine_lists` (a tuple `state[1:]` is written as
the list of its strings).  An empty path raises (`state[0]` on an empty tuple: IndexError). -/
def timelinePorts : KVs → List Path → Except Err KVs
  | ports, [] => .ok ports
  | _, [] :: _ => .error .exception
  | ports, (k :: sub) :: rest =>
    timelinePorts (dmcl ports [(k, .list [.list (sub.map Val.str)])]) rest

/-- Port names in the dictionary returned by `ports_schema`: the keys of `timeline_ports`
other than `global`, then `global` (added by `schema.update`). -/
def schemaPorts (tl : List Event) : Except Err (List String) :=
  match timelinePorts [("global", .list [.str "time"])]
      (tl.flatMap fun e => e.changes.map (·.1)) with
  | .error e => .error e
  | .ok ports => .ok ((KV.keys ports).filter (fun k => k != "global") ++ ["global"])

/-! ## `next_update` -/

/-- `{'_value': value, '_updater': 'set'}` -/
def leafSet (v : Val) : Val := .dict [("_value", v), ("_updater", .str "set")]

/-- `nested_set(dic, keys, value)` (returns the mutated `dic`): `setdefault(key, {})` along
`keys[:-1]`, then `dic[keys[-1]] = value`.  An empty `keys` raises IndexError (`keys[-1]`); a
non-dictionary met on the way raises AttributeError (`.setdefault`) or, at the last key,
TypeError (item assignment). -/
def nestedSet : KVs → Path → Val → Except Err KVs
  | _, [], _ => .error .exception
  | d, [k], v => .ok (KV.set k v d)
  | d, k :: k2 :: rest, v =>
    match KV.lookup k d with
    | Option.none =>
      match nestedSet [] (k2 :: rest) v with
      | .ok sub => .ok (KV.set k (.dict sub) d)
      | .error e => .error e
    | some (.dict sub) =>
      match nestedSet sub (k2 :: rest) v with
      | .ok sub' => .ok (KV.set k (.dict sub') d)
      | .error e => .error e
    | some _ => if rest.isEmpty then .error .typeError else .error .attributeError

/-- the `for path_to_variable, value in change_dict.items()` loop: each variable's entry is set
directly in the accumulated update, so a later write replaces an earlier one -/
def applyChanges (upd : KVs) : Changes → Except Err KVs
  | [] => .ok upd
  | (p, v) :: rest =>
    match nestedSet upd p (leafSet v) with
    | .ok u => applyChanges u rest
    | .error e => .error e

/-- the `while self.timeline and time >= self.timeline[0][0]` loop: returns the update and
the remaining timeline -/
def popDue (clock : Int) (upd : KVs) : List Event → Except Err (KVs × List Event)
  | [] => .ok (upd, [])
  | e :: rest =>
    if clock ≥ e.time then
      match applyChanges upd e.changes with
      | .ok u => popDue clock u rest
      | .error err => .error err
    else .ok (upd, e :: rest)

/-- `next_update(timestep, states)` with `states['global']['time'] = clock`. -/
def nextUpdate (clock dt : Int) (tl : List Event) : Except Err (KVs × List Event) :=
  popDue clock [("global", .dict [("time", .int dt)])] tl

/-! ## Applying the update, one tick, the `Engine.update` loop -/

/-- reading a nested update dictionary along a path (nothing below a non-dictionary):
`resolve` of `VivModel/Path.lean` -/
def look (upd : KVs) (p : Path) : Option Val := resolve (.dict upd) p

/-- the variables the timeline drives: leaf stores (declared by another process), by path -/
abbrev VarState := List (Path × Val)

/-- Leaf branch of `Store.apply_update` for the update found at the leaf's path: a dictionary
with `_updater: 'set'` and `_value` sets the value.  Anything else the timeline never produces;
it is an error of this model (not a claim about the store). -/
def applyLeaf (old : Val) : Option Val → Except Err Val
  | Option.none => .ok old
  | some (.dict kv) =>
    match KV.lookup "_updater" kv, KV.lookup "_value" kv with
    | some (.str "set"), some v => .ok v
    | _, _ => .error .exception
  | some _ => .error .exception

def applyVars (upd : KVs) : VarState → Except Err VarState
  | [] => .ok []
  | (p, old) :: rest =>
    match applyLeaf old (look upd p), applyVars upd rest with
    | .ok v, .ok rest' => .ok ((p, v) :: rest')
    | .error e, _ => .error e
    | _, .error e => .error e

/-- `global.time` has the `accumulate` updater -/
def applyClock (clock : Int) (upd : KVs) : Except Err Int :=
  match look upd ["global", "time"] with
  | some (.int d) => .ok (clock + d)
  | _ => .error .exception

structure Sim where
  /-- `Engine.global_time` -/
  gtime : Int
  /-- the store variable `('global', 'time')` the timeline reads -/
  clock : Int
  vars : VarState
  /-- `TimelineProcess.timeline`: events not yet fired -/
  timeline : List Event
  deriving Repr, Inhabited

/-- One invocation of the timeline process for `dt`, and the application of its update at the
end of the interval. -/
def tick (dt : Int) (s : Sim) : Except Err Sim :=
  match nextUpdate s.clock dt s.timeline with
  | .error e => .error e
  | .ok (upd, tl') =>
    match applyClock s.clock upd, applyVars upd s.vars with
    | .ok c, .ok vs => .ok { gtime := s.gtime + dt, clock := c, vars := vs, timeline := tl' }
    | .error e, _ => .error e
    | _, .error e => .error e

/-- ticks of given lengths, one after the other; returns the states after each tick -/
def runTicks : List Int → Sim → Except Err (List Sim)
  | [], _ => .ok []
  | dt :: rest, s =>
    match tick dt s with
    | .error e => .error e
    | .ok s' =>
      match runTicks rest s' with
      | .ok rows => .ok (s' :: rows)
      | .error e => .error e

/-- `Engine.update(interval)` = `run_for(interval, force_complete=True)` with the timeline as
the only process that has a timestep `ts`: while `global_time < end_time` the process runs for
`ts`, or for what is left of the interval.  `fuel` bounds the `while` loop (the loop does not
terminate for `ts ≤ 0`; running out of fuel is reported as an error). Returns the tick
lengths. -/
def schedule : Nat → Int → Int → Int → Except Err (List Int)
  | 0, _, gtime, endT => if gtime < endT then .error .exception else .ok []
  | fuel + 1, ts, gtime, endT =>
    if gtime < endT then
      let dt := if gtime + ts > endT then endT - gtime else ts
      match schedule fuel ts (gtime + dt) endT with
      | .ok rest => .ok (dt :: rest)
      | .error e => .error e
    else .ok []

/-- several `Engine.update(interval)` calls in a row: all the tick lengths -/
def scheduleRuns (ts : Int) : Int → List Int → Except Err (List Int)
  | _, [] => .ok []
  | gtime, interval :: rest =>
    match schedule interval.toNat ts gtime (gtime + interval), scheduleRuns ts (gtime + interval) rest with
    | .ok a, .ok b => .ok (a ++ b)
    | .error e, _ => .error e
    | _, .error e => .error e

/-- The whole experiment: build the timeline from the listed events, then run the intervals.
Returns the state after every tick (the rows the engine emits after the initial one). -/
def simulate (es : List Event) (ts : Int) (runs : List Int) (gtime0 clock0 : Int)
    (vars0 : VarState) : Except Err (List Sim) :=
  match scheduleRuns ts gtime0 runs with
  | .error e => .error e
  | .ok dts =>
    runTicks dts { gtime := gtime0, clock := clock0, vars := vars0,
                   timeline := initializeTimeline es }

end Viv
