import VivModel.Path
import VivModel.ValEq
/-!
# The RAM emitter and its views

Transcribed from `vivarium/core/emitter.py` (`RAMEmitter.emit`, `RAMEmitter.get_data`,
`timeseries_from_data`, `path_timeseries_from_embedded_timeseries`, `path_timeseries_from_data`)
and `vivarium/library/dict_utils.py` (`deep_merge_check`, `value_in_embedded_dict`,
`get_path_list_from_dict`, `get_value_from_path`, `make_path_dict`); `get_in`, `assoc_path`,
`paths_to_dict` are those of `VivModel/Path.lean`.

`saved_data` is an insertion-ordered map from (integer) times to rows.  Serialisation
(`serialize_value` / `deserialize_value`: an orjson round trip, the identity on the plain values of
`Val`) and `Quantity` values are outside the model.
-/
namespace Viv

/-- `RAMEmitter.saved_data` -/
abbrev History := List (Int × Val)

namespace Hist
def lookup (t : Int) : History → Option Val
  | [] => Option.none
  | (t', r) :: rest => if t' = t then some r else lookup t rest

def set (t : Int) (r : Val) : History → History
  | [] => [(t, r)]
  | (t', r') :: rest => if t' = t then (t', r) :: rest else (t', r') :: set t r rest
end Hist

/-- `deep_merge_check(dct, merge_dct, check_equality=True)` (returns the mutated `dct`):
dictionaries are merged recursively; a key present on both sides with values that are not both
dictionaries must hold `==` values, else `ValueError`. -/
def deepMergeCheck (dct : KVs) : KVs → Except Err KVs
  | [] => .ok dct
  | (k, v) :: rest =>
    match KV.lookup k dct, v with
    | some (.dict a), .dict b =>
      match deepMergeCheck a b with
      | .ok m => deepMergeCheck (KV.set k (.dict m) dct) rest
      | .error e => .error e
    | some w, _ => if w.pyEq v then deepMergeCheck (KV.set k v dct) rest else .error .valueError
    | Option.none, _ => deepMergeCheck (KV.set k v dct) rest

/-- `RAMEmitter.emit({'table': 'history', 'data': {**row, 'time': t}})` with the emitter's
`embed_path`. -/
def emit (embed : Path) (h : History) (t : Int) (row : KVs) : Except Err History :=
  match assocPath (.dict []) embed (.dict row) with
  | .error e => .error e
  | .ok (.dict dataAtTime) =>
    let saved := match Hist.lookup t h with
      | some (.dict s) => s
      | _ => []
    match deepMergeCheck saved dataAtTime with
    | .ok m => .ok (Hist.set t (.dict m) h)
    | .error e => .error e
  | .ok _ => .error .typeError

def emitAll (embed : Path) : History → List (Int × KVs) → Except Err History
  | h, [] => .ok h
  | h, (t, row) :: rest =>
    match emit embed h t row with
    | .ok h' => emitAll embed h' rest
    | .error e => .error e

/-- one time point of `get_data(query)`: the queried paths whose value `is not None`, rebuilt
into a dictionary by `paths_to_dict` -/
def queryRow (row : Val) (query : List Path) : Except Err Val :=
  match query.mapM (fun p => (getIn row p).map (fun o => (p, o))) with
  | .error e => .error e
  | .ok found =>
    pathsToDict (found.filterMap fun (po : Path × Option Val) =>
      match po.2 with
      | some Val.none => Option.none
      | some v => some (po.1, v)
      | Option.none => Option.none)

/-- `RAMEmitter.get_data(query)`; an empty (or absent) query returns `saved_data` itself -/
def getData (h : History) (query : List Path) : Except Err History :=
  if query.isEmpty then .ok h
  else h.mapM fun (tr : Int × Val) => (queryRow tr.2 query).map (fun r => (tr.1, r))

/-- `value_in_embedded_dict(data, timeseries)` (no `time_index`, no quantities): append every
leaf of `data` to the list at the same path of `timeseries`, creating lists/dictionaries as
needed. A leaf where the timeseries has a dictionary raises AttributeError (`dict.append`), a
non-empty dictionary where the timeseries has a list raises TypeError (`lst[key] = …`). -/
def vied (ts : KVs) : KVs → Except Err KVs
  | [] => .ok ts
  | (k, v) :: rest =>
    match v with
    | .dict sub =>
      match KV.lookup k ts with
      | Option.none =>
        match vied [] sub with
        | .ok r => vied (KV.set k (.dict r) ts) rest
        | .error e => .error e
      | some (.dict tsub) =>
        match vied tsub sub with
        | .ok r => vied (KV.set k (.dict r) ts) rest
        | .error e => .error e
      | some (.list l) =>
        -- `timeseries = timeseries or {}` then the loop over `sub`
        if l.isEmpty then
          match vied [] sub with
          | .ok r => vied (KV.set k (.dict r) ts) rest
          | .error e => .error e
        else if sub.isEmpty then vied ts rest
        else .error .typeError
      | some _ => .error .exception  -- unreachable: a timeseries holds dictionaries and lists only
    | leaf =>
      match KV.lookup k ts with
      | Option.none => vied (KV.set k (.list [leaf]) ts) rest
      | some (.list l) => vied (KV.set k (.list (l ++ [leaf])) ts) rest
      | some _ => .error .attributeError

/-- `timeseries_from_data(data)`: the embedded timeseries -/
def timeseriesFromData (h : History) : Except Err KVs :=
  let rec go (ts : KVs) : History → Except Err KVs
    | [] => .ok ts
    | (_, .dict row) :: rest =>
      match vied ts row with
      | .ok ts' => go ts' rest
      | .error e => .error e
    | (_, _) :: rest => go ts rest
  match go [] h with
  | .ok ts => .ok (KV.set "time" (.list (h.map fun tr => Val.int tr.1)) ts)
  | .error e => .error e

/-- `make_path_dict(embedded_dict)`: every leaf (non-dictionary) with its path;
`get_path_list_from_dict` followed by `get_value_from_path` -/
def makePathDict (d : KVs) : List (Path × Val) := dictToPaths.goList [] d

/-- `path_timeseries_from_embedded_timeseries`: the path → list map (without the `time` entry)
and the time vector (`embedded_timeseries['time']`, KeyError if absent) -/
def pathTimeseries (emb : KVs) : Except Err (List (Path × Val) × Val) :=
  match KV.lookup "time" emb with
  | Option.none => .error .keyError
  | some times => .ok (makePathDict (KV.erase "time" emb), times)

/-- `path_timeseries_from_data` -/
def pathTimeseriesFromData (h : History) : Except Err (List (Path × Val) × Val) :=
  match timeseriesFromData h with
  | .ok emb => pathTimeseries emb
  | .error e => .error e

end Viv
