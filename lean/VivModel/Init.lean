import VivModel.Path
import VivModel.Generated
/-!
# Building the hierarchy: declarations, initial state, defaults  (C15)

Transcribed from `vivarium/core/store.py` (`generate_state`, `Store.generate`, `_generate_paths`,
`_topology_ports`, `outer_path`, `_establish_path`, `get_path`, `_apply_config`, `_check_default`,
`_check_schema`, `_check_schema_support_defaults`, `_apply_subschema(s)`, `set_emit_value`,
`set_value`, `apply_defaults`), `vivarium/core/process.py` (`Process.default_state`),
`vivarium/core/composer.py` (`_get_composite_state(_recur)`, `Composite.initial_state`,
`default_state`), `vivarium/library/topology.py` (`inverse_topology`, `multi_updates=False`)
and `vivarium/core/engine.py` (`Engine._make_store`: which initial state counts).

Representation.  The hierarchy is a *flat* insertion-ordered map from absolute paths to node
records (`Tree`); the `inner` dictionary of the node at `p` is the sub-list of entries whose
path is `p ++ [k]`, in order of creation — which is the insertion order of the Python dict.
Mutation becomes a function returning the new tree; a `raise` is `Except.error`.
Schemas, configs, topologies and states are `Val`s; a topology *path* (Python tuple) is a
`Val.list` of strings, a topology *dict* is a `Val.dict`.  A process object stored in a node
is the marker `procMarker` with `isProcess = true`.

Outside the model (the generators stay away, see notes/C15.md): paths leading *through* a
process node (`topology_path` redirection in `_establish_path`/`get_path`), pint quantities as
defaults/values, numpy arrays, `_flow`, `self.sources`.
Recursion that is not structural in the Python (a sub-schema applied to children, inverse
topologies that grow while they are walked) carries a fuel argument; running out of fuel is
`Err.assertion`, which none of the transcribed code raises.
-/
namespace Viv

/-! ## Python truthiness and `==` on plain values -/

def Val.truthy : Val → Bool
  | .none => false
  | .bool b => b
  | .int i => i != 0
  | .str s => s != ""
  | .list xs => !xs.isEmpty
  | .dict kvs => !kvs.isEmpty

def Val.isNone : Val → Bool
  | .none => true
  | _ => false

/-- Python `a == b` on JSON-like values: `True == 1`, dictionaries compare without order. -/
def Val.pyEq : Val → Val → Bool
  | .none, .none => true
  | .bool a, .bool b => a == b
  | .bool a, .int i => (if a then (1 : Int) else 0) == i
  | .int i, .bool b => i == (if b then (1 : Int) else 0)
  | .int a, .int b => a == b
  | .str a, .str b => a == b
  | .list xs, .list ys => eqList xs ys
  | .dict a, .dict b => a.length == b.length && eqKVs a b
  | _, _ => false
where
  eqList : List Val → List Val → Bool
    | [], [] => true
    | x :: xs, y :: ys => Val.pyEq x y && eqList xs ys
    | _, _ => false
  /-- every entry of the first dictionary is matched in the second -/
  eqKVs : List (String × Val) → List (String × Val) → Bool
    | [], _ => true
    | (k, v) :: rest, b =>
      (match KV.lookup k b with
       | some w => Val.pyEq v w
       | Option.none => false) && eqKVs rest b

/-! ## Node records and the flat tree -/

structure NodeRec where
  leaf : Bool := false
  default : Val := .none
  value : Val := .none
  updater : Val := .none
  divider : Val := .none
  emit : Val := .bool false
  units : Val := .none
  serializer : Val := .none
  properties : KVs := []
  subschema : KVs := []
  subtopology : KVs := []
  topology : Val := .dict []
  isProcess : Bool := false
  deriving Inhabited

abbrev Tree := List (Path × NodeRec)

def procMarker : Val := .str "<process>"

namespace Tree

def get : Tree → Path → Option NodeRec
  | [], _ => Option.none
  | (q, n) :: rest, p => if q = p then some n else get rest p

def has (t : Tree) (p : Path) : Bool := (t.get p).isSome

/-- replace in place or append (dict insertion order) -/
def set : Tree → Path → NodeRec → Tree
  | [], p, n => [(p, n)]
  | (q, m) :: rest, p, n => if q = p then (q, n) :: rest else (q, m) :: set rest p n

/-- `q` is a child position of `p` -/
def isChild (p q : Path) : Bool := q != [] && q.dropLast == p

/-- `bool(self.inner)` of the node at `p` -/
def hasInner (t : Tree) (p : Path) : Bool := t.any (fun e => isChild p e.1)

/-- `list(self.inner)` of the node at `p` -/
def children (t : Tree) (p : Path) : List String :=
  t.filterMap (fun e => if isChild p e.1 then e.1.getLast? else Option.none)

/-- create an empty node at `p` unless there is one (`Store({}, outer=self)`) -/
def ensure (t : Tree) (p : Path) : Tree := if t.has p then t else t.set p {}

/-- `p` is a proper prefix of `q` -/
def below (p q : Path) : Bool := p.isPrefixOf q && q.length != p.length

end Tree

/-- the three registries, as the names they know (`Registry.access` returns `None` otherwise) -/
structure Reg where
  updaters : List String
  dividers : List String
  serializers : List String
  /-- `str(QuantitySerializer.python_type)` -/
  quantityKey : String

def accessName (names : List String) (s : String) : Val :=
  if names.contains s then .str s else .none

/-- `deep_merge(dct, merge_dct)` where `dct` is a dictionary attribute of the store -/
def mergeInto (a : KVs) : Val → Except Err KVs
  | .dict b => .ok (deepMergeKVs a b)
  | .none => .ok a
  | _ => .error .attributeError

/-- `_check_schema`: a second, different value for `units`/`serializer`/`value` is an error -/
def checkSchema (cur new : Val) : Except Err Val :=
  if cur.isNone then .ok new
  else if cur.pyEq new then .ok new else .error .valueError

/-- `_check_schema_support_defaults`: registry lookup; disagreement only warns -/
def supportDefaults (names : List String) (key : String) (new : Val) : Except Err Val :=
  match new with
  | .str s => .ok (accessName names s)
  | .dict kvs =>
    match KV.lookup key kvs with
    | some (.str s) => .ok (.dict (KV.set key (accessName names s) kvs))
    | some _ => .ok new
    | Option.none => .error .keyError
  | _ => .ok new

/-! ## The leaf section of `_apply_config`, one schema key at a time -/

def stepUnits (reg : Reg) (n : NodeRec) (c : KVs) : Except Err NodeRec :=
  match KV.lookup "_units" c with
  | some u =>
    match checkSchema n.units u with
    | .ok u' => .ok { n with units := u', serializer := accessName reg.serializers reg.quantityKey }
    | .error e => .error e
  | Option.none => .ok n

/-- a serializer given by name is looked up in the registry -/
def resolveSerializer (reg : Reg) : Val → Val
  | .str nm => accessName reg.serializers nm
  | v => v

def stepSerializer (reg : Reg) (n : NodeRec) (c : KVs) : Except Err NodeRec :=
  match KV.lookup "_serializer" c with
  | some s =>
    match checkSchema n.serializer (resolveSerializer reg s) with
    | .ok s'' => .ok { n with serializer := s'' }
    | .error e => .error e
  | Option.none => .ok n

/-- `_check_default` returns the new default whatever the old one was (its comparison
statement `defaults_conflict != (…)` has no effect) -/
def stepDefault (n : NodeRec) (c : KVs) : NodeRec :=
  match KV.lookup "_default" c with
  | some d => { n with default := d }
  | Option.none => n

def stepValue (n : NodeRec) (c : KVs) : Except Err NodeRec :=
  match KV.lookup "_value" c with
  | some v =>
    match checkSchema n.value v with
    | .ok v' => .ok { n with value := v' }
    | .error e => .error e
  | Option.none => .ok n

def stepUpdater (reg : Reg) (n : NodeRec) (c : KVs) : Except Err NodeRec :=
  match KV.lookup "_updater" c with
  | some u =>
    match supportDefaults reg.updaters "updater" u with
    | .ok u' => .ok { n with updater := u' }
    | .error e => .error e
  | Option.none => .ok n

def stepFill (n : NodeRec) : NodeRec :=
  { n with updater := if n.updater.truthy then n.updater else .str "_default",
           divider := if n.divider.truthy then n.divider else .str "_default" }

def stepProperties (n : NodeRec) (c : KVs) : Except Err NodeRec :=
  match mergeInto n.properties ((KV.lookup "_properties" c).getD (.dict [])) with
  | .ok p => .ok { n with properties := p }
  | .error e => .error e

def stepEmit (n : NodeRec) (c : KVs) : NodeRec :=
  { n with emit := (KV.lookup "_emit" c).getD n.emit }

/-- the leaf section (`if self.schema_keys & set(config.keys())`), on the node's record -/
def applyLeaf (reg : Reg) (n : NodeRec) (c : KVs) : Except Err NodeRec := do
  let n1 ← stepUnits reg { n with leaf := true } c
  let n2 ← stepSerializer reg n1 c
  let n3 ← stepValue (stepDefault n2 c) c
  let n4 ← stepUpdater reg n3 c
  let n5 ← stepProperties (stepFill n4) c
  pure (stepEmit n5 c)

def hasSchemaKey (c : KVs) : Bool := c.any (fun kv => Generated.schemaKeys.contains kv.1)

/-- keys `_apply_config` pops before it looks at the rest -/
def poppedKeys : List String :=
  ["_output", "*", "_subschema", "_subtopology", "_topology", "_flow", "_divider"]

/-- `set_emit_value(emit=e)` from a branch node: every node below without children -/
def setEmitBelow (t : Tree) (pos : Path) (e : Val) : Tree :=
  t.map fun en =>
    if Tree.below pos en.1 && !t.hasInner en.1 then (en.1, { en.2 with emit := e }) else en

/-- the part of `_apply_config` before the leaf/branch decision: `*`, `_subschema`,
`_subtopology`, `_topology`, `_divider` -/
def applySpecial (reg : Reg) (n : NodeRec) (c : KVs) : Except Err NodeRec := do
  let n1 ← match KV.lookup "*" c with
    | some s => (mergeInto n.subschema s).map fun m => { n with subschema := m }
    | Option.none => pure n
  let n2 ← match KV.lookup "_subschema" c with
    | some s => (mergeInto n1.subschema s).map fun m => { n1 with subschema := m }
    | Option.none => pure n1
  let n3 ← match KV.lookup "_subtopology" c with
    | some s => (mergeInto n2.subtopology s).map fun m => { n2 with subtopology := m }
    | Option.none => pure n2
  let n4 := match KV.lookup "_topology" c with
    | some tp => { n3 with topology := tp }
    | Option.none => n3
  match KV.lookup "_divider" c with
  | some d => (supportDefaults reg.dividers "divider" d).map fun d' => { n4 with divider := d' }
  | Option.none => pure n4

/-- `Store._apply_config(config)` on the node at `pos` (which exists). -/
def applyConfig (reg : Reg) (t : Tree) (pos : Path) : Val → Except Err Tree
  | .dict c0 =>
    let c := KV.erase "_output" c0
    match t.get pos with
    | Option.none => .error .exception
    | some n =>
      match applySpecial reg n c with
      | .error e => .error e
      | .ok n1 =>
        let t1 := t.set pos n1
        -- `_emit` on a branch node: set the whole branch, and forget the key
        let branchEmit := KV.has "_emit" c && t1.hasInner pos
        let t2 := if branchEmit then setEmitBelow t1 pos ((KV.lookup "_emit" c).getD .none) else t1
        let skip := if branchEmit then "_emit" :: poppedKeys else poppedKeys
        let rest := c.filter (fun kv => !skip.contains kv.1)
        let done : Except Err Tree :=
          if hasSchemaKey rest then
            if t2.hasInner pos then .error .exception
            else
              match applyLeaf reg n1 rest with
              | .ok n2 => .ok (t2.set pos n2)
              | .error e => .error e
          else
            if n1.leaf && !rest.isEmpty && n1.value.truthy then .error .exception
            else
              let n2 := if n1.leaf && !rest.isEmpty then { n1 with leaf := false } else n1
              kids (t2.set pos n2) skip c0
        match done with
        | .error e => .error e
        | .ok t3 =>
          match t3.get pos with
          | some nf => if nf.topology.truthy && !nf.isProcess then .error .valueError else .ok t3
          | Option.none => .ok t3
  | .str s =>
    if s = "**" then
      -- `config = {}`: nothing to do
      match t.get pos with
      | Option.none => .error .exception
      | some _ => .ok t
    else .error .attributeError
  | _ => .error .attributeError
where
  /-- the loop over the remaining (child) keys of the branch section -/
  kids (t : Tree) (skip : List String) : List (String × Val) → Except Err Tree
    | [] => .ok t
    | (k, child) :: more =>
      if skip.contains k then kids t skip more
      else
        match applyConfig reg (t.ensure (pos ++ [k])) (pos ++ [k]) child with
        | .ok t' => kids t' skip more
        | .error e => .error e

/-- `Store._establish_path(path, config)` started at the node `pos`; returns the new tree and
the position reached. -/
def establishPath (reg : Reg) (t : Tree) : (pos rel : Path) → (cfg : Val) → Except Err (Tree × Path)
  | pos, [], cfg =>
    match applyConfig reg t pos cfg with
    | .ok t' => .ok (t', pos)
    | .error e => .error e
  | pos, step :: rest, cfg =>
    if step = ".." then
      if pos = [] then .error .exception
      else establishPath reg t pos.dropLast rest cfg
    else
      match t.get pos with
      | Option.none => .error .exception
      | some n =>
        if n.isProcess then .error .exception   -- topology redirection: outside the model
        else establishPath reg (t.ensure (pos ++ [step])) (pos ++ [step]) rest cfg

/-- `Store.get_path(path)` from `pos` -/
def getPath (t : Tree) : (pos rel : Path) → Except Err Path
  | pos, [] => .ok pos
  | pos, step :: rest =>
    if step = ".." then
      if pos = [] then .error .exception else getPath t pos.dropLast rest
    else if t.has (pos ++ [step]) then getPath t (pos ++ [step]) rest
    else .error .exception

/-- a topology path (Python tuple of strings) -/
def topoPath? : Val → Option Path
  | .list xs => xs.mapM (fun v => match v with
    | .str s => some s
    | _ => Option.none)
  | _ => Option.none

/-- `apply_defaults()` from the node `pos`: every node at or below it without children whose
value is `None` gets its default -/
def applyDefaults (t : Tree) (pos : Path) : Tree :=
  t.map fun en =>
    if pos.isPrefixOf en.1 && !t.hasInner en.1 && en.2.value.isNone
    then (en.1, { en.2 with value := en.2.default }) else en

/-- `Store.outer_path(path)`: establish `_path` when there is one -/
def outerPath (reg : Reg) (t : Tree) (pos : Path) (topo : KVs) : Except Err (Tree × Path × KVs) :=
  match KV.lookup "_path" topo with
  | some p =>
    match topoPath? p with
    | some rel =>
      match establishPath reg t pos rel (.dict []) with
      | .ok (t', node) => .ok (t', node, KV.erase "_path" topo)
      | .error e => .error e
    | Option.none => .error .typeError
  | Option.none => .ok (t, pos, topo)

/-- `_apply_subschema()`: the node's sub-schema goes to every child, through its sub-topology;
`recur` is `_topology_ports` -/
def applySubschema (recur : Tree → Path → Val → Val → Except Err Tree) (t : Tree) (node : Path) :
    Except Err Tree :=
  match t.get node with
  | Option.none => .error .exception
  | some n =>
    (t.children node).foldlM
      (fun t' k => recur t' (node ++ [k]) (.dict n.subschema) (.dict n.subtopology)) t

/-- one port of `_topology_ports`'s loop -/
def portStep (reg : Reg) (recur : Tree → Path → Val → Val → Except Err Tree) (pos : Path)
    (tkvs : KVs) (t : Tree) (port : String) (sub : Val) : Except Err Tree :=
  let path := (KV.lookup port tkvs).getD (.list [.str port])
  if port = "*" then
    let cfgS := Val.dict [("_subschema", sub)]
    let placed : Except Err (Tree × Path) :=
      match path with
      | .dict pk =>
        match outerPath reg t pos pk with
        | .error e => .error e
        | .ok (t1, node, subpath) =>
          match t1.get node with
          | Option.none => .error .exception
          | some n =>
            let t2 := t1.set node { n with subtopology := deepMergeKVs n.subtopology subpath }
            match applyConfig reg t2 node cfgS with
            | .ok t3 => .ok (t3, node)
            | .error e => .error e
      | _ =>
        match topoPath? path with
        | some rel => establishPath reg t pos rel cfgS
        | Option.none => .error .typeError
    match placed with
    | .error e => .error e
    | .ok (t1, node) =>
      match applySubschema recur t1 node with
      | .ok t2 => .ok (applyDefaults t2 node)
      | .error e => .error e
  else
    match path with
    | .dict pk =>
      match outerPath reg t pos pk with
      | .error e => .error e
      | .ok (t1, node, subpath) => recur t1 node sub (.dict subpath)
    | _ =>
      match topoPath? path with
      | some rel =>
        match establishPath reg t pos rel sub with
        | .ok (t1, _) => .ok t1
        | .error e => .error e
      | Option.none => .error .typeError

/-- `Store._topology_ports(schema, topology)` on the node `pos` -/
def topologyPorts (reg : Reg) : Nat → Tree → Path → Val → Val → Except Err Tree
  | 0, _, _, _, _ => .error .assertion
  | fuel + 1, t, pos, schema, topo =>
    match schema with
    | .dict skvs =>
      if hasSchemaKey skvs then
        -- `self.get_path(topology)._apply_config(schema)`
        match topo with
        | .dict [] => applyConfig reg t pos schema
        | .dict _ => .error .keyError
        | v =>
          match topoPath? v with
          | some rel =>
            match getPath t pos rel with
            | .ok tgt => applyConfig reg t tgt schema
            | .error e => .error e
          | Option.none => .error .typeError
      else
        match topo with
        | .dict tkvs =>
          if tkvs.any (fun kv => !KV.has kv.1 skvs) then .error .exception
          else skvs.foldlM (fun t' kv => portStep reg (topologyPorts reg fuel) pos tkvs t' kv.1 kv.2) t
        | _ => .error .attributeError
    | _ => .error .attributeError

/-- `_apply_subschemas()` from `pos`: this node's sub-schema, then the children's -/
def applySubschemasAt (reg : Reg) : Nat → Tree → Path → Except Err Tree
  | 0, _, _ => .error .assertion
  | fuel + 1, t, pos =>
    match t.get pos with
    | Option.none => .error .exception
    | some n =>
      let own := if n.subschema.isEmpty then .ok t
                 else applySubschema (topologyPorts reg fuel) t pos
      match own with
      | .error e => .error e
      | .ok t1 => (t1.children pos).foldlM (fun t' k => applySubschemasAt reg fuel t' (pos ++ [k])) t1

/-- `Store.set_value(value)` on the node at `pos` -/
def setValue (reg : Reg) (t : Tree) (pos : Path) : Val → Except Err Tree
  | .dict kvs =>
    match t.get pos with
    | Option.none => .error .exception
    | some n =>
      if t.hasInner pos || !n.subschema.isEmpty then kids t kvs
      else .ok (t.set pos { n with value := .dict kvs, isProcess := false })
  | v =>
    match t.get pos with
    | Option.none => .error .exception
    | some n =>
      if t.hasInner pos || !n.subschema.isEmpty then .error .exception
      else .ok (t.set pos { n with value := v, isProcess := false })
where
  kids (t : Tree) : List (String × Val) → Except Err Tree
    | [] => .ok t
    | (k, iv) :: more =>
      -- a child named in the state of a glob node is created with the sub-schema
      let made : Except Err Tree :=
        if t.has (pos ++ [k]) then .ok t
        else
          match t.get pos with
          | some n =>
            if !n.subschema.isEmpty
            then applyConfig reg (t.set (pos ++ [k]) {}) (pos ++ [k]) (.dict n.subschema)
            else .ok t
          | Option.none => .ok t
      match made with
      | .error e => .error e
      | .ok t1 =>
        if t1.has (pos ++ [k]) then
          match setValue reg t1 (pos ++ [k]) iv with
          | .ok t2 => kids t2 more
          | .error e => .error e
        else kids t1 more

/-! ## Processes, `_generate_paths`, `generate` -/

/-- the `processes` / `steps` dictionaries: a process (its `get_schema()`, its
`initial_state()`) or a nested dictionary -/
inductive Procs where
  | proc (schema : Val) (init : Val)
  | group (kids : List (String × Procs))
  deriving Inhabited

/-- `self.inner[key] = process_state`: the process node replaces whatever was there -/
def placeProcess (reg : Reg) (t : Tree) (p : Path) (topology : Val) : Except Err Tree :=
  match applyLeaf reg {} [("_value", procMarker), ("_updater", .str "set"),
      ("_serializer", .str "process")] with
  | .error e => .error e
  | .ok n =>
    let t1 : Tree := t.filter (fun en => !Tree.below p en.1)
    .ok (t1.set p { n with isProcess := true, topology := topology })

/-- `topology[key]` -/
def topoIndex (topology : Val) (key : String) : Except Err Val :=
  match topology with
  | .dict kvs =>
    match KV.lookup key kvs with
    | some v => .ok v
    | Option.none => .error .keyError
  | _ => .error .typeError

def generatePaths (reg : Reg) (fuel : Nat) (t : Tree) (pos : Path) :
    List (String × Procs) → Val → Except Err Tree
  | [], _ => .ok t
  | (key, sub) :: more, topology =>
    match topoIndex topology key with
    | .error e => .error e
    | .ok subtopology =>
      let here : Except Err Tree :=
        match sub with
        | .proc schema _ =>
          match placeProcess reg t (pos ++ [key]) subtopology with
          | .ok t1 => topologyPorts reg fuel t1 pos schema subtopology
          | .error e => .error e
        | .group kids => generatePaths reg fuel (t.ensure (pos ++ [key])) (pos ++ [key]) kids subtopology
      match here with
      | .ok t' => generatePaths reg fuel t' pos more topology
      | .error e => .error e

/-- `generate_state(processes, topology, initial_state, steps)` -/
def generate (reg : Reg) (fuel : Nat) (procs steps : List (String × Procs)) (topology init : Val) :
    Except Err Tree := do
  let t0 : Tree := [([], {})]
  let t1 ← generatePaths reg fuel t0 [] procs topology
  let t2 ← generatePaths reg fuel t1 [] steps topology
  let t3 ← applySubschemasAt reg fuel t2 []
  let t4 ← setValue reg t3 [] init
  pure (applyDefaults t4 [])

/-- `Engine._make_store`: `composite['state'] or self.initial_state`, with
`self.initial_state = initial_state or {}` (finding F21: the argument is ignored when the
composite carries a non-empty state) -/
def engineInitial (compositeState initArg : Val) : Val :=
  if compositeState.truthy then compositeState
  else if initArg.truthy then initArg else .dict []

/-! ## `Composite.initial_state()` / `default_state()` -/

/-- `Process.default_state`'s `get_defaults` (`none` is Python's `None`) -/
def getDefaults : Val → Option Val
  | .dict kvs =>
    match go kvs with
    | [] => Option.none
    | ds => some (.dict ds)
  | _ => Option.none
where
  /-- `defaults[k] = def_val` in iteration order (keys of a dict are unique) -/
  go : List (String × Val) → KVs
    | [] => []
    | (k, v) :: rest =>
      let here : Option Val :=
        match v with
        | .dict vk =>
          match KV.lookup "_default" vk with
          | some d => if d.isNone then Option.none else some d
          | Option.none => getDefaults v
        | _ => Option.none
      match here with
      | some d => (k, d) :: go rest
      | Option.none => go rest

def defaultState (schema : Val) : Val := (getDefaults schema).getD (.dict [])

/-- `deep_merge(current, value)` as the function handed to `update_in` -/
def mergeFn (value : KVs) : Val → Except Err Val
  | .dict a => .ok (.dict (deepMergeKVs a value))
  | .none => .ok (.dict (deepMergeKVs [] value))
  | _ => .error .typeError

/-- place `value` at `inner` in `inverse` (the two last branches of `inverse_topology` with
`multi_updates=False`) -/
def placeAt (inverse : Val) (inner : Path) (value : Val) : Except Err Val :=
  match value with
  | .dict vk => updateIn (mergeFn vk) inverse inner
  | _ => assocPath inverse inner value

/-- `inverse_topology(outer, update, topology, inverse, multi_updates=False)` -/
def inverseTopology : Nat → Path → Val → KVs → Val → Except Err Val
  | 0, _, _, _, _ => .error .assertion
  | fuel + 1, outer, update, topology, inverse =>
    topology.foldlM (fun inv kv =>
      let key := kv.1
      let path := kv.2
      if key = "*" then
        match update with
        | .dict ukvs =>
          match path with
          | .dict pk =>
            let innerE : Except Err (Path × KVs) :=
              match KV.lookup "_path" pk with
              | some p =>
                match topoPath? p with
                | some rel => .ok (normalize (outer ++ rel), KV.erase "_path" pk)
                | Option.none => .error .typeError
              | Option.none => .ok (outer, pk)
            match innerE with
            | .error e => .error e
            | .ok (inner, pk') =>
              ukvs.foldlM (fun inv' ckv =>
                inverseTopology fuel (inner ++ [ckv.1]) ckv.2 pk' inv') inv
          | _ =>
            match topoPath? path with
            | some rel =>
              ukvs.foldlM (fun inv' ckv =>
                placeAt inv' (normalize (outer ++ rel ++ [ckv.1])) ckv.2) inv
            | Option.none => .error .typeError
        | _ => .error .attributeError
      else
        match update with
        | .dict ukvs =>
          match KV.lookup key ukvs with
          | Option.none => .ok inv
          | some value =>
            match path with
            | .dict pk =>
              match KV.lookup "_path" pk with
              | some p =>
                match topoPath? p, value with
                | some rel, .dict vk =>
                  let pk0 := KV.erase "_path" pk
                  let pk' := vk.foldl (fun acc ukv =>
                    if !KV.has ukv.1 acc && !KV.has "*" acc
                    then KV.set ukv.1 (.list [.str ukv.1]) acc else acc) pk0
                  inverseTopology fuel (normalize (outer ++ rel)) value pk' inv
                | some _, _ => .error .attributeError
                | Option.none, _ => .error .typeError
              | Option.none => inverseTopology fuel outer value pk inv
            | _ =>
              match topoPath? path with
              | some rel => placeAt inv (normalize (outer ++ rel)) value
              | Option.none => .error .typeError
        | .list _ | .str _ => .ok inv     -- `key in update` is False
        | _ => .error .typeError) inverse

/-- processes and steps of a composite, each dictionary level listed in the order in which
`_get_composite_state_recur` walks it (declaration order, processes first — fix c6db333; before
that, the iteration order of a `set` of the names) -/
def compositeStateRecur (fuel : Nat) (useInit : Bool) (path : Path) :
    List (String × Procs) → Val → Except Err KVs
  | kids, topology => go kids topology []
where
  go : List (String × Procs) → Val → KVs → Except Err KVs
    | [], _, state => .ok state
    | (key, sub) :: more, topology, state =>
      -- `topology = topology or {}` ; `topology.get(key)`
      let subTopo : Except Err Val :=
        match topology with
        | .dict tk => .ok ((KV.lookup key tk).getD .none)
        | v => if v.truthy then .error .attributeError else .ok .none
      match subTopo with
      | .error e => .error e
      | .ok st =>
        let subState : Except Err Val :=
          match sub with
          | .group kids => (compositeStateRecur fuel useInit (path ++ [key]) kids st).map Val.dict
          | .proc schema init =>
            let ps := if useInit then init else defaultState schema
            match st with
            | .dict stk => inverseTopology fuel path ps stk (.dict [])
            | _ => .error .attributeError
        match subState with
        | .error e => .error e
        | .ok ss =>
          match mergeInto state ss with
          | .ok state' => go more topology state'
          | .error e => .error e

/-- `_get_composite_state(..., initial_state)` -/
def compositeState (fuel : Nat) (useInit : Bool) (kids : List (String × Procs)) (topology : Val)
    (initial : Val) : Except Err Val :=
  match compositeStateRecur fuel useInit [] kids topology with
  | .error e => .error e
  | .ok st => (mergeInto st initial).map Val.dict

/-- `Composite.initial_state(config)`: the composite's own `state`, then
`config['initial_state']`, merged over the processes' initial states -/
def compositeInitialState (fuel : Nat) (kids : List (String × Procs)) (topology : Val)
    (ownState cfgInitial : Val) : Except Err Val :=
  match ownState with
  | .dict own =>
    match mergeInto own cfgInitial with
    | .ok merged => compositeState fuel true kids topology (.dict merged)
    | .error e => .error e
  | _ => .error .attributeError

/-- `Composite.default_state()` -/
def compositeDefaultState (fuel : Nat) (kids : List (String × Procs)) (topology : Val) :
    Except Err Val :=
  compositeState fuel false kids topology .none

/-- `Composite.generate_store(config)`: the store is generated from `initial_state(config)` -/
def generateStore (reg : Reg) (fuel : Nat) (kids procs steps : List (String × Procs))
    (topology ownState cfgInitial : Val) : Except Err Tree :=
  match compositeInitialState fuel kids topology ownState cfgInitial with
  | .ok init => generate reg fuel procs steps topology init
  | .error e => .error e

end Viv
