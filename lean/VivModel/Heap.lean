import VivModel.Val
/-!
# Dictionary objects on a heap (object identity for `Composite.merge`)

The value-level model (`Composite.lean`) cannot say "the merged-in composite is left unchanged,
then and later": that is a statement about *which dict objects* a composite holds.  Here a
dictionary is an object at an address; a value is an opaque atom (process object, tuple,
number — printed form) or a reference.

Transcribed from `vivarium/library/dict_utils.py` (`deep_merge`: an entry of `merge_dct` that
does not meet a dictionary on the other side is stored **by reference**; `deep_copy_internal`:
new dictionaries, same leaves), `vivarium/core/process.py` (`assoc_in`: new dictionaries along
the path, `value` itself at the end) and `vivarium/core/composer.py` (`Composite.merge`, in the
order the statements run; loose parts are copied too since fix 54c1ca0).  Recursion over the object graph is fuel-bounded (a cyclic dictionary
makes the Python recurse without end); `none` = out of fuel or a Python exception.
-/
namespace Viv

/-- addresses are natural numbers (a notation rather than a definition, so that arithmetic
decision procedures see `Nat`) -/
notation "Addr" => Nat

inductive HVal where
  | atom (s : String)
  | ref (a : Addr)
  deriving DecidableEq, Repr, Inhabited

/-- a dict object: insertion-ordered entries -/
abbrev Obj := List (String × HVal)

def objLookup (k : String) : Obj → Option HVal
  | [] => none
  | (k', v) :: rest => if k' = k then some v else objLookup k rest

/-- `o[k] = v` -/
def objSet (k : String) (v : HVal) : Obj → Obj
  | [] => [(k, v)]
  | (k', v') :: rest => if k' = k then (k', v) :: rest else (k', v') :: objSet k v rest

/-- `o.update(src)` -/
def objUpdate (o : Obj) (src : Obj) : Obj := src.foldl (fun acc kv => objSet kv.1 kv.2 acc) o

/-- The heap: bindings address ↦ object (a later binding shadows an earlier one) and the next
free address. -/
structure Heap where
  objs : List (Addr × Obj) := []
  next : Addr := 0
  deriving Repr, Inhabited

namespace Heap

def get (h : Heap) (a : Addr) : Option Obj :=
  match h.objs.find? (fun b => b.1 == a) with
  | some b => some b.2
  | none => none

/-- mutate the object at `a` -/
def put (h : Heap) (a : Addr) (o : Obj) : Heap := { h with objs := (a, o) :: h.objs }

/-- a new dict object -/
def alloc (h : Heap) (o : Obj) : Addr × Heap :=
  (h.next, { objs := (h.next, o) :: h.objs, next := h.next + 1 })

end Heap

/-! ## `deep_merge` -/

/-- the loop `for k, v in merge_dct.items()` of `deep_merge(dct, merge_dct)`, `dct` at address `d`;
`rec` is the recursive call. -/
def mergeItems (rec : Heap → Addr → Addr → Option Heap) (d : Addr) : Heap → Obj → Option Heap
  | h, [] => some h
  | h, (k, v) :: rest =>
    match h.get d with
    | none => none
    | some dobj =>
      match objLookup k dobj, v with
      | some (.ref dk), .ref mk =>
        match rec h dk mk with
        | some h1 => mergeItems rec d h1 rest
        | none => none
      | _, _ => mergeItems rec d (h.put d (objSet k v dobj)) rest   -- `dct[k] = merge_dct[k]`

/-- `deep_merge(dct, merge_dct)` on two dict objects -/
def mergeH : Nat → Heap → Addr → Addr → Option Heap
  | 0, _, _, _ => none
  | f + 1, h, d, m =>
    match h.get m with
    | none => none
    | some items => mergeItems (mergeH f) d h items

/-! ## `deep_copy_internal` -/

def copyItems (rec : Heap → HVal → Option (HVal × Heap)) : Heap → Obj → Option (Obj × Heap)
  | h, [] => some ([], h)
  | h, (k, v) :: rest =>
    match rec h v with
    | none => none
    | some (v', h1) =>
      match copyItems rec h1 rest with
      | none => none
      | some (r, h2) => some ((k, v') :: r, h2)

/-- `deep_copy_internal(v)` -/
def copyH : Nat → Heap → HVal → Option (HVal × Heap)
  | _, h, .atom s => some (.atom s, h)
  | 0, _, .ref _ => none
  | f + 1, h, .ref a =>
    match h.get a with
    | none => none
    | some obj =>
      match copyItems (copyH f) h obj with
      | none => none
      | some (obj', h1) =>
        let r := h1.alloc obj'
        some (.ref r.1, r.2)

/-! ## `assoc_in` -/

/-- `assoc_in(d, path, value)`: `dict(d, **{k: assoc_in(d.get(k, {}), rest, value)})`; the
default `{}` is built whether or not it is used. -/
def assocInH : Heap → HVal → List String → HVal → Option (HVal × Heap)
  | h, _, [], v => some (v, h)
  | h, .ref d, k :: rest, v =>
    match h.get d with
    | none => none
    | some dobj =>
      let e := h.alloc []
      let child := (objLookup k dobj).getD (.ref e.1)
      match assocInH e.2 child rest v with
      | none => none
      | some (inner, h1) =>
        let r := h1.alloc (objSet k inner dobj)
        some (.ref r.1, r.2)
  | _, .atom _, _ :: _, _ => none

/-! ## `Composite.merge`

A composite is the list of the addresses of its part dictionaries, in the order the code treats
them (processes, topology, steps, flow, state). -/

abbrev HComp := List Addr

/-- `merge_x = {}` for every part -/
def allocEmpties : Heap → Nat → List Addr × Heap
  | h, 0 => ([], h)
  | h, n + 1 =>
    let r := h.alloc []
    let rs := allocEmpties r.2 n
    (r.1 :: rs.1, rs.2)

/-- `merge_x.update(deep_copy_internal(composite[x]))` for every part -/
def copyPhase (fuel : Nat) : Heap → List Addr → List Addr → Option Heap
  | h, mx :: mxs, ox :: oxs =>
    match copyH fuel h (.ref ox) with
    | some (.ref c, h1) =>
      match h1.get c, h1.get mx with
      | some items, some mobj => copyPhase fuel (h1.put mx (objUpdate mobj items)) mxs oxs
      | _, _ => none
    | _ => none
  | h, _, _ => some h

/-- `deep_merge(target_x, source_x)` for every part -/
def mergePhase (fuel : Nat) : Heap → List Addr → List Addr → Option Heap
  | h, t :: ts, s :: ss =>
    match mergeH fuel h t s with
    | some h1 => mergePhase fuel h1 ts ss
    | none => none
  | h, _, _ => some h

/-- `merge_x = assoc_in({}, path, merge_x)` for every part -/
def nestPhase (path : List String) : Heap → List Addr → Option (List Addr × Heap)
  | h, [] => some ([], h)
  | h, mx :: mxs =>
    let e := h.alloc []
    match assocInH e.2 (.ref e.1) path (.ref mx) with
    | some (.ref s, h1) =>
      match nestPhase path h1 mxs with
      | some (ss, h2) => some (s :: ss, h2)
      | none => none
    | _ => none

/-- `x or {}` for the loose parts: `none` (not given, or given empty) allocates a new `{}` -/
def looseOrEmpty : Heap → List (Option Addr) → List Addr × Heap
  | h, [] => ([], h)
  | h, some a :: rest =>
    let rs := looseOrEmpty h rest
    (a :: rs.1, rs.2)
  | h, none :: rest =>
    let r := h.alloc []
    let rs := looseOrEmpty r.2 rest
    (r.1 :: rs.1, rs.2)

/-- `deep_merge(merge_x, deep_copy_internal(x))` for every part: each loose part is copied
right before it is merged in (fix 54c1ca0), so `merge_x` never holds a dict object of the caller -/
def copyMergePhase (fuel : Nat) : Heap → List Addr → List Addr → Option Heap
  | h, mx :: mxs, l :: ls =>
    match copyH fuel h (.ref l) with
    | some (.ref c, h1) =>
      match mergeH fuel h1 mx c with
      | some h2 => copyMergePhase fuel h2 mxs ls
      | none => none
    | _ => none
  | h, _, _ => some h

/-- `merge` once the merged-in composite's part dictionaries `ol` are known -/
def mergeCompCore (fuel : Nat) (h : Heap) (self : HComp) (ol : List Addr)
    (loose : List (Option Addr)) (path : List String) : Option Heap :=
  let l := looseOrEmpty h loose
  let mx := allocEmpties l.2 self.length
  match copyPhase fuel mx.2 mx.1 ol with
  | none => none
  | some h1 =>
    match copyMergePhase fuel h1 mx.1 l.1 with
    | none => none
    | some h2 =>
      match nestPhase path h2 mx.1 with
      | none => none
      | some (ss, h3) => mergePhase fuel h3 self ss

/-- `self.merge(composite=other, <loose parts>, path=path)`: `self`'s dict objects are mutated in
place (their addresses stay), the result is the new heap.  `other = none`:
`composite or Composite({})` makes a composite of new empty dictionaries. -/
def mergeCompH (fuel : Nat) (h : Heap) (self : HComp) (other : Option HComp)
    (loose : List (Option Addr)) (path : List String) : Option Heap :=
  match other with
  | some o => mergeCompCore fuel h self o loose path
  | none =>
    let e := allocEmpties h self.length
    mergeCompCore fuel e.2 self e.1 loose path

/-! ## Values ↔ heap (used to set up scenarios and to read composites back) -/

/-- allocate a dictionary tree; a non-dictionary becomes an atom via `leaf` -/
def reifyH (leaf : Val → String) : Heap → Val → HVal × Heap
  | h, .dict kvs =>
    let r := go h kvs
    let a := r.2.alloc r.1
    (.ref a.1, a.2)
  | h, v => (.atom (leaf v), h)
where
  go : Heap → List (String × Val) → Obj × Heap
    | h, [] => ([], h)
    | h, (k, v) :: rest =>
      let r := reifyH leaf h v
      let rs := go r.2 rest
      ((k, r.1) :: rs.1, rs.2)

def reflectItems (rec : HVal → Option Val) : Obj → Option (List (String × Val))
  | [] => some []
  | (k, v) :: rest =>
    match rec v, reflectItems rec rest with
    | some x, some r => some ((k, x) :: r)
    | _, _ => none

/-- read a value back (`unleaf` decodes atoms); fuel-bounded -/
def reflectH (unleaf : String → Val) : Nat → Heap → HVal → Option Val
  | _, _, .atom s => some (unleaf s)
  | 0, _, .ref _ => none
  | f + 1, h, .ref a =>
    match h.get a with
    | none => none
    | some obj =>
      match reflectItems (reflectH unleaf f h) obj with
      | some kvs => some (.dict kvs)
      | none => none

/-- every dict object reachable from `v`, as `(path, address)` in depth-first dictionary order
(the aliasing structure the harness compares with `id()` of the real dict objects) -/
def dictAddrs : Nat → Heap → List String → HVal → List (List String × Addr)
  | _, _, _, .atom _ => []
  | 0, _, _, .ref _ => []
  | f + 1, h, path, .ref a =>
    match h.get a with
    | none => [(path, a)]
    | some obj => (path, a) :: obj.flatMap (fun kv => dictAddrs f h (path ++ [kv.1]) kv.2)

/-! ## Merge sequences over a pool of composites -/

/-- where a loose part of a merge comes from -/
inductive LooseSrc where
  | absent                              -- not given (or given empty)
  | fresh (v : Val)                      -- a new dictionary tree built for the call
  | part (comp : Nat) (idx : Nat)        -- `pool[comp]`'s own part dictionary, passed as is

/-- `pool[target].merge(pool[other], <loose parts>, path)` -/
structure MergeOp where
  target : Nat
  other : Option Nat
  loose : List LooseSrc
  path : List String

/-- resolve the loose parts: new trees are allocated, parts of pool composites are looked up;
`none` (outer) when a named composite/part does not exist -/
def resolveLoose (leaf : Val → String) (pool : List HComp) :
    Heap → List LooseSrc → Option (List (Option Addr) × Heap)
  | h, [] => some ([], h)
  | h, .absent :: rest =>
    match resolveLoose leaf pool h rest with
    | some (rs, h') => some (none :: rs, h')
    | none => none
  | h, .fresh v :: rest =>
    let r := reifyH leaf h v
    match resolveLoose leaf pool r.2 rest with
    | some (rs, h') =>
      some ((match r.1 with
        | .ref a => some a
        | .atom _ => none) :: rs, h')
    | none => none
  | h, .part ci pi :: rest =>
    match pool[ci]? with
    | none => none
    | some c =>
      match c[pi]? with
      | none => none
      | some a =>
        match resolveLoose leaf pool h rest with
        | some (rs, h') => some (some a :: rs, h')
        | none => none

def runOp (leaf : Val → String) (fuel : Nat) (pool : List HComp) (h : Heap) (op : MergeOp) :
    Option Heap :=
  match pool[op.target]? with
  | none => none
  | some self =>
    match resolveLoose leaf pool h op.loose with
    | none => none
    | some l =>
      match op.other with
      | none => mergeCompH fuel l.2 self none l.1 op.path
      | some j =>
        match pool[j]? with
        | none => none
        | some o => mergeCompH fuel l.2 self (some o) l.1 op.path

def runOps (leaf : Val → String) (fuel : Nat) (pool : List HComp) : Heap → List MergeOp → Option Heap
  | h, [] => some h
  | h, op :: rest =>
    match runOp leaf fuel pool h op with
    | none => none
    | some h1 => runOps leaf fuel pool h1 rest

end Viv
