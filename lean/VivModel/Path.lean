import VivModel.Val
/-!
# Path helpers

Transcribed from `vivarium/library/topology.py` (`normalize_path`, `get_in`, `delete_in`,
`assoc_path`, `update_in`, `paths_to_dict`, `dict_to_paths`), `vivarium/library/dict_utils.py`
(`deep_merge`), `vivarium/core/store.py` (`hierarchy_depth`), `vivarium/core/process.py`
(`assoc_in`) and `vivarium/core/engine.py` (`starts_with`).

Mutation becomes a function returning the new value.  A Python `TypeError` raised when a
non-dictionary is indexed on the way is `Except.error .typeError`.
-/
namespace Viv

/-- one step of `normalize_path`'s loop; `progress` is kept reversed -/
def normStep (rev : List String) (step : String) : List String :=
  if step = ".." then
    match rev with
    | [] => [step]
    | _ :: rest => rest
  else step :: rev

/-- `normalize_path`: resolve `..` elements lexically; a `..` with nothing to cancel is kept. -/
def normalizeRev (rev : List String) (p : Path) : List String := p.foldl normStep rev
def normalize (p : Path) : Path := (normalizeRev [] p).reverse

/-- `get_in(d, path)`; `none` is Python's `default=None`. -/
def getIn : Val → Path → Except Err (Option Val)
  | v, [] => .ok (some v)
  | .dict kvs, k :: rest =>
    match KV.lookup k kvs with
    | some child => getIn child rest
    | Option.none => .ok Option.none
  | v, _ :: _ => if v.inRaises then .error .typeError else .ok Option.none

/-- `delete_in(d, path)` (returns the mutated `d`). -/
def deleteIn : Val → Path → Except Err Val
  | v, [] => .ok v
  | .dict kvs, [k] => .ok (.dict (KV.erase k kvs))
  | .dict kvs, k :: k2 :: rest =>
    match KV.lookup k kvs with
    | some child => do
      let c ← deleteIn child (k2 :: rest)
      .ok (.dict (KV.set k c kvs))
    | Option.none => .ok (.dict kvs)
  | v, _ :: _ => if v.inRaises then .error .typeError else .ok v

/-- `deep_merge(dct, merge_dct)` on dictionaries (fuel-free: structural on the merged-in list,
nested through `mergeVal`). -/

def deepMergeKVs (dct : KVs) : KVs → KVs
  | [] => dct
  | (k, v) :: rest =>
    let merged :=
      match KV.lookup k dct, v with
      | some (.dict a), .dict b => Val.dict (deepMergeKVs a b)
      | _, _ => v
    deepMergeKVs (KV.set k merged dct) rest


/-- `assoc_path(d, path, value)` (returns the mutated `d`). -/
def assocPath : Val → Path → Val → Except Err Val
  | .dict kvs, [], .dict vkvs => .ok (.dict (deepMergeKVs kvs vkvs))
  | d, [], _ => .ok d
  | .dict kvs, [k], v => .ok (.dict (KV.set k v kvs))
  | .dict kvs, k :: k2 :: rest, v =>
    let child := (KV.lookup k kvs).getD (.dict [])
    -- `if head not in d: d[head] = {}` then recurse into `d[head]`
    match assocPath child (k2 :: rest) v with
    | .ok c => .ok (.dict (KV.set k c kvs))
    | .error e => .error e
  | _, _ :: _, _ => .error .typeError

/-- `update_in(d, path, f)`: the returned dictionary. -/
def updateIn (f : Val → Except Err Val) : Val → Path → Except Err Val
  | d, [] => f d
  | .dict kvs, k :: rest =>
    let child := (KV.lookup k kvs).getD (.dict [])
    match updateIn f child rest with
    | .ok c => .ok (.dict (KV.set k c kvs))
    | .error e => .error e
  | _, _ :: _ => .error .attributeError

/-- `paths_to_dict(path_list)` with the identity `f`. -/
def pathsToDict (pl : List (Path × Val)) : Except Err Val :=
  pl.foldlM (fun d (pv : Path × Val) => assocPath d pv.1 pv.2) (Val.dict [])

/-- `dict_to_paths(root, d)`. -/
def dictToPaths (root : Path) : Val → List (Path × Val)
  | .dict kvs => goList root kvs
  | v => [(root, v)]
where
  goList (root : Path) : List (String × Val) → List (Path × Val)
    | [] => []
    | (k, v) :: rest => dictToPaths (root ++ [k]) v ++ goList root rest

/-- `hierarchy_depth(hierarchy, path)`: a dict keyed by path; later duplicates overwrite
(cannot happen for unique keys). -/
def hierarchyDepth (root : Path) (kvs : KVs) : List (Path × Val) :=
  dictToPaths.goList root kvs

/-- `starts_with(a_list, sub)` -/
def startsWith : Path → Path → Bool
  | _, [] => true
  | [], _ :: _ => false
  | a :: as, s :: ss => a == s && startsWith as ss

/-- `assoc_in(d, path, value)` from `process.py`: persistent insert. On an empty path returns
`value` itself. -/
def assocIn : Val → Path → Val → Except Err Val
  | _, [], v => .ok v
  | .dict kvs, k :: rest, v =>
    let child := (KV.lookup k kvs).getD (.dict [])
    match assocIn child rest v with
    | .ok c => .ok (.dict (KV.set k c kvs))
    | .error e => .error e
  | _, _ :: _, _ => .error .attributeError

/-! ## The hierarchy as a tree of nodes, and `Store` navigation

Only the shape matters for navigation, so a hierarchy is a `Val` whose dictionaries are the
stores' `inner` maps.  A position is the absolute path of a node (`Store.path_for`). -/

/-- node at an absolute, `..`-free path (`root.get_path(p)` for such `p`) -/
def resolve (t : Val) : Path → Option Val
  | [] => some t
  | k :: rest =>
    match t with
    | .dict kvs => (KV.lookup k kvs).bind (fun c => resolve c rest)
    | _ => Option.none

/-- `Store.get_path(path)` started at the node whose absolute path is `pos`
(which must exist).  `..` moves to `outer` (error at the root, like the implementation,
which raises when `self.outer` is `None`); a key moves to the child or raises. -/
def walk (t : Val) : (pos : Path) → (rel : Path) → Option Path
  | pos, [] => some pos
  | pos, step :: rest =>
    if step = ".." then
      match pos.reverse with
      | [] => Option.none
      | _ :: up => walk t up.reverse rest
    else
      match resolve t (pos ++ [step]) with
      | some _ => walk t (pos ++ [step]) rest
      | Option.none => Option.none

/-- `a.path_to(b)` from the two absolute paths. -/
def pathTo : Path → Path → Path
  | x :: xs, y :: ys => if x = y then pathTo xs ys else ((x :: xs).map fun _ => "..") ++ (y :: ys)
  | xs, ys => (xs.map fun _ => "..") ++ ys

/-- `_establish_path` on a hierarchy without process nodes: create missing nodes (empty dicts)
along `rel` from `pos`; returns the new tree and the absolute path reached. -/
def establish (t : Val) : (pos : Path) → (rel : Path) → Except Err (Val × Path)
  | pos, [] => .ok (t, pos)
  | pos, step :: rest =>
    if step = ".." then
      match pos.reverse with
      | [] => .error .exception
      | _ :: up => establish t up.reverse rest
    else
      match resolve t (pos ++ [step]) with
      | some _ => establish t (pos ++ [step]) rest
      | Option.none =>
        match assocIn t (pos ++ [step]) (.dict []) with
        | .ok t' => establish t' (pos ++ [step]) rest
        | .error e => .error e

end Viv
