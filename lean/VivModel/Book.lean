import VivModel.StepGraph
import VivModel.Path
/-!
# The engine's bookkeeping under structural updates (`Engine.apply_update`, `_add_process_path`,
`_add_step_path`, `_delete_path`, `_remove_deleted_processes`)

The hierarchy is abstracted to what the engine cares about: which paths hold a process, which a
step (and with which flow entry).  `Store.apply_update` reports structural changes as lists of
`(path, thing)` plus deleted path prefixes (`Report`); the engine maintains `process_paths`,
`_step_paths`, the step graph and the published `processes/steps/flow/topology` from those reports.
The report each structural operation produces is modelled in `StoreOps.lean` (C09); here the
reports are inputs (`VivProps.C10.bookkeeping_step` holds for whatever the report contains).
-/
namespace Viv.Book
open Viv.StepGraph

abbrev P := List String

inductive Kind where
  | proc
  /-- a step; `none` = no flow entry (legacy deriver), `some deps` = absolute dependency paths -/
  | step (deps : Option (List P))
  deriving Repr, DecidableEq

/-- the process/step nodes of the hierarchy, in hierarchy order -/
abbrev Hier := List (P × Kind)

/-- what `Store.apply_update` reports to the engine (order as in the tuple) -/
structure Report where
  /-- `process_updates`: `(path, is_step)`; a step listed here was given in a `processes`
  dictionary (the legacy placement) -/
  procs : List (P × Bool)
  /-- what the engine's flow holds for the steps listed in `procs` (`get_in(self.flow, path)`, the
  flow updates of the same report included: `_add_process_path(process, path, self.flow)` since
  fix F53); no entry = legacy deriver -/
  procFlow : List (P × List P) := []
  /-- `step_updates` with the dependencies found for them in `flow_updates` -/
  steps : List (P × Option (List P))
  deletions : List P
  deriving Repr, DecidableEq

def prefixOf (pre p : P) : Bool := Viv.startsWith p pre

/-- `get_in(flow, path)` on the flow entries that matter here -/
def flowOf (fl : List (P × List P)) (path : P) : Option (List P) :=
  match fl with
  | [] => none
  | (q, ds) :: rest => if q = path then some ds else flowOf rest path

/-- the hierarchy after a structural update that reports `r`: additions first, deletions last -/
def applyHier (h : Hier) (r : Report) : Hier :=
  let added : Hier := r.procs.map (fun pb => (pb.1, if pb.2 then Kind.step (flowOf r.procFlow pb.1) else Kind.proc)) ++
    r.steps.map (fun sd => (sd.1, Kind.step sd.2))
  (h ++ added).filter (fun pk => !(r.deletions.any (fun d => prefixOf d pk.1)))

structure Engine where
  /-- `process_paths` (insertion order) -/
  procPaths : List P
  /-- `_step_paths` -/
  stepPaths : List P
  graph : G
  deriving Repr

def addKey (l : List P) (p : P) : List P := if l.contains p then l else l ++ [p]

/-- `_add_step_path(step, path, deps)`; `none` = `ValueError` from the step graph -/
def addStepPath (e : Engine) (path : P) (deps : Option (List P)) : Option Engine :=
  let e1 := { e with stepPaths := addKey e.stepPaths path }
  match deps with
  | none => (addSequential e1.graph path).map (fun g => { e1 with graph := g })
  | some ds => (add e1.graph path ds).map (fun g => { e1 with graph := g })

/-- `_add_process_path(process, path, self.flow)` -/
def addProcessPath (fl : List (P × List P)) (e : Engine) (path : P) (isStep : Bool) : Option Engine :=
  if isStep then addStepPath e path (flowOf fl path)
  else some { e with procPaths := addKey e.procPaths path }

/-- `_delete_path(deletion)` (bookkeeping part) -/
def deletePath (e : Engine) (d : P) : Engine :=
  let doomed := e.stepPaths.filter (fun s => prefixOf d s)
  let g := doomed.foldl (fun g s => (remove g s).getD g) e.graph
  { procPaths := e.procPaths.filter (fun p => !prefixOf d p),
    stepPaths := e.stepPaths.filter (fun s => !prefixOf d s),
    graph := g }

/-- `Engine.apply_update` after `Store.apply_update` returned `r` -/
def applyReport (e : Engine) (r : Report) : Option Engine := do
  let e1 ← r.procs.foldlM (fun e pb => addProcessPath r.procFlow e pb.1 pb.2) e
  let e2 ← r.steps.foldlM (fun e sd => addStepPath e sd.1 sd.2) e1
  pure (r.deletions.foldl deletePath e2)

/-- `Engine.__init__`: `_find_process_paths` then `_find_step_paths` -/
def initEngine (h : Hier) : Option Engine :=
  applyReport { procPaths := [], stepPaths := [], graph := empty }
    { procs := h.filterMap (fun pk => match pk.2 with | .proc => some (pk.1, false) | _ => none),
      steps := h.filterMap (fun pk => match pk.2 with | .step d => some (pk.1, d) | _ => none),
      deletions := [] }

/-- `_remove_deleted_processes` + the lazy creation of fronts at the loop head: the front table
for the next pass, given the old one (path, time) and the current global time -/
def normaliseFront (procPaths : List P) (gt : Int) (front : List (P × Int)) : List (P × Int) :=
  let kept := front.filter (fun pt => procPaths.contains pt.1)
  kept ++ (procPaths.filter (fun p => !(kept.map (·.1)).contains p)).map (fun p => (p, gt))

end Viv.Book
