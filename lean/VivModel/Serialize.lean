import VivModel.Val
import VivModel.Generated
/-!
# Serialization (`vivarium/core/serialize.py`) — model for C14

`serialize_value(value)` is `orjson.loads(orjson.dumps(value, OPT_SERIALIZE_NUMPY, default))`
where `default` is the fallback hook made by `make_fallback_serializer_function` over the
serializers registered in `vivarium/__init__.py`.  Every `TypeError` of that pipeline (orjson's
own, or one raised by the hook) is re-raised as a `TypeError`.

* `PVal` — the Python values that may be handed to `serialize_value`.
* `JVal` — what `orjson.loads` can return: plain JSON data.  (By typing there is no quantity /
  process / set / tuple node in a `JVal`.)
* Numbers are *tokens*: Python `int`s are `Int`, floats are their `repr` string (`"1.5"`,
  `"1e+22"`, `"nan"`, `"inf"`, `"-inf"`).  Number formatting itself (orjson's float encoding,
  pint's `str`) is not modelled; see `Pint` below.
* Strings are Lean `String`s; the regex of `UnitsSerializer` is modelled on `List Char`.

Not modelled: orjson's recursion limits (254 nested `default` calls / container depth), other
natively supported types (dataclass, datetime, enum, uuid).
-/
namespace Viv.Ser

/-- plain JSON data as returned by `orjson.loads` -/
inductive JVal where
  | null
  | bool (b : Bool)
  | int (i : Int)
  | float (tok : String)
  | str (s : String)
  | arr (xs : List JVal)
  | obj (kvs : List (String × JVal))
  deriving Repr, Inhabited

/-- dictionary keys -/
inductive Key where
  | str (s : String)      -- exactly `str`
  | npStr (s : String)    -- `np.str_` (a `str` subclass; orjson refuses it as a key)
  | strSub (s : String)   -- another `str` subclass (orjson refuses it; not reported in the message)
  | other (repr : String) -- int, float, tuple, None, bytes …, by `repr`
  deriving Repr, Inhabited, DecidableEq

def Key.isStr : Key → Bool
  | .str _ => true
  | _ => false

/-- Python values handed to `serialize_value` -/
inductive PVal where
  | none
  | bool (b : Bool)
  | int (i : Int)
  | float (tok : String)
  | str (s : String)
  | npStr (s : String)          -- `np.str_` as a *value*: orjson emits str subclasses as strings
  | npInt (i : Int)             -- `np.int8 … np.uint64`
  | npFloat (tok : String)      -- `np.float16/32/64`, token as orjson prints that width
  | npBool (b : Bool)
  | list (xs : List PVal)
  | tuple (xs : List PVal)
  | set (xs : List PVal)        -- in iteration order
  | ndarray (xs : List PVal)    -- the `tolist()` view (native path and `NumpyFallbackSerializer`)
  | dict (kvs : List (Key × PVal))
  | quantity (mag unit : String)               -- scalar magnitude token, `str(q.units)`
  | quantityArr (mags : List String) (unit : String)   -- 1-d array magnitude
  | unit (u : String)
  | process (repr : String)     -- `str(dict(p.parameters, _name=p.name))`
  | function (repr : String)    -- `str(f)`
  | unsupported (ty : String)   -- any other object (no serializer): bytes, frozenset, complex, …
  deriving Repr, Inhabited

/-! ## strings -/

/-- `!units[` + m + `]` (f-string of `UnitsSerializer.serialize` / `QuantitySerializer.serialize`) -/
def tagUnits (m : String) : String := Generated.unitsTagPrefix ++ m ++ Generated.unitsTagSuffix
def tagProcess (m : String) : String := Generated.processTagPrefix ++ m ++ Generated.processTagSuffix
def tagFunction (m : String) : String := Generated.functionTagPrefix ++ m ++ Generated.functionTagSuffix

/-- the literal `1 / ` with which pint prints a unit that has no numerator -/
def recipPrefix : List Char := ['1', ' ', '/', ' ']

def stripPrefix? : List Char → List Char → Option (List Char)
  | [], cs => some cs
  | _ :: _, [] => Option.none
  | p :: ps, c :: cs => if p = c then stripPrefix? ps cs else Option.none

/-- pint's default `str(magnitude * unit)`: `format(magnitude) + " " + format(unit)`; for a
unit without numerator (`1 / second`) pint folds the magnitude in: `5 / second`. -/
def showQ (m u : String) : String :=
  match stripPrefix? recipPrefix u.toList with
  | some rest => m ++ " / " ++ String.ofList rest
  | Option.none => m ++ " " ++ u

/-- the literal prefix of the regex `!units\[(.*)\]` -/
def unitsPrefix : List Char := ['!', 'u', 'n', 'i', 't', 's', '[']

/-- `re.compile('!units\\[(.*)\\]').fullmatch(s)` → `group(1)`: the string is the literal prefix,
then any characters except newline (`.` without DOTALL), then `]` as the LAST character. -/
def matchTag (cs : List Char) : Option (List Char) :=
  match stripPrefix? unitsPrefix cs with
  | Option.none => Option.none
  | some rest =>
    match rest.reverse with
    | ']' :: midRev => if midRev.all (fun c => c != '\n') then some midRev.reverse else Option.none
    | _ => Option.none

def tagContent (s : String) : Option String := (matchTag s.toList).map String.ofList

/-- `str.isspace()` characters (all of them up to U+3000) -/
def isPyWs (c : Char) : Bool :=
  let n := c.toNat
  (9 ≤ n && n ≤ 13) || (28 ≤ n && n ≤ 32) || n == 0x85 || n == 0xa0 || n == 0x1680 ||
  (0x2000 ≤ n && n ≤ 0x200a) || n == 0x2028 || n == 0x2029 || n == 0x202f || n == 0x205f ||
  n == 0x3000

/-- `str.strip()` -/
def pyStripL (cs : List Char) : List Char :=
  ((cs.dropWhile isPyWs).reverse.dropWhile isPyWs).reverse

/-- `s.startswith('nan')` (a magnitude token that starts like this is `nan`) -/
def startsWithNan (cs : List Char) : Bool := (stripPrefix? ['n', 'a', 'n'] cs).isSome

/-- `data == 'nan' or data.startswith('nan ')`: the magnitude is the separate token `nan`
(not a unit whose name merely starts with `nan`: nanometer, nanomolar) -/
def isNanMagnitude (cs : List Char) : Bool :=
  cs == ['n', 'a', 'n'] || (stripPrefix? ['n', 'a', 'n', ' '] cs).isSome

/-- `if unit_str.startswith('/'): unit_str = '1 ' + unit_str` (pint writes `nan / second`) -/
def fixRecip (cs : List Char) : List Char :=
  match cs with
  | '/' :: _ => '1' :: ' ' :: cs
  | _ => cs

/-! ## serialize -/

/-- orjson's integer range: signed or unsigned 64 bit -/
def int64ok (i : Int) : Bool := decide (-9223372036854775808 ≤ i) && decide (i ≤ 18446744073709551615)

/-- orjson writes `null` for nan / ±inf -/
def nonFinite (tok : String) : Bool := tok == "nan" || tok == "inf" || tok == "-inf"

def floatJ (tok : String) : JVal := if nonFinite tok then .null else .float tok

/-- `QuantitySerializer.serialize` on a scalar: `f"!units[{str(data)}]"` -/
def quantityStr (m u : String) : String :=
  Generated.quantityTagPrefix ++ showQ m u ++ Generated.quantityTagSuffix

mutual
/-- `serialize_value` -/
def serialize : PVal → Except Err JVal
  | .none => .ok .null
  | .bool b => .ok (.bool b)
  | .int i => if int64ok i then .ok (.int i) else .error .typeError
  | .float t => .ok (floatJ t)
  | .str s => .ok (.str s)
  | .npStr s => .ok (.str s)
  | .npInt i => if int64ok i then .ok (.int i) else .error .typeError
  | .npFloat t => .ok (floatJ t)
  | .npBool b => .ok (.bool b)
  | .list xs => (serializeList xs).map .arr
  | .tuple xs => (serializeList xs).map .arr
  | .set xs => (serializeList xs).map .arr          -- SetSerializer: `list(data)`, re-serialized
  | .ndarray xs => (serializeList xs).map .arr      -- native, or NumpyFallbackSerializer: `tolist()`
  | .dict kvs => (serializeKVs kvs).map .obj
  | .quantity m u => .ok (.str (quantityStr m u))
  | .quantityArr ms u => .ok (.arr (ms.map fun m => .str (quantityStr m u)))
  | .unit u => .ok (.str (tagUnits u))
  | .process r => .ok (.str (tagProcess r))
  | .function r => .ok (.str (tagFunction r))
  | .unsupported _ => .error .typeError

def serializeList : List PVal → Except Err (List JVal)
  | [] => .ok []
  | x :: xs =>
    match serialize x with
    | .error e => .error e
    | .ok j =>
      match serializeList xs with
      | .error e => .error e
      | .ok js => .ok (j :: js)

def serializeKVs : List (Key × PVal) → Except Err (List (String × JVal))
  | [] => .ok []
  | (k, v) :: rest =>
    match k with
    | .str s =>
      match serialize v with
      | .error e => .error e
      | .ok j =>
        match serializeKVs rest with
        | .error e => .error e
        | .ok js => .ok ((s, j) :: js)
    | _ => .error .typeError     -- "Dict key must be str"
end

/-- The fallback hook (`make_fallback_serializer_function().default`) on the objects orjson
does not handle natively: the Python object it returns, which orjson serializes again.
(Lookup by `str(type(obj))`, then the `isinstance` search for subclasses; both end at the same
serializer for the kinds below.  No serializer ⇒ `TypeError`.) -/
def defaultHook : PVal → Except Err PVal
  | .set xs => .ok (.list xs)
  | .ndarray xs => .ok (.list xs)
  | .quantity m u => .ok (.str (quantityStr m u))
  | .quantityArr ms u => .ok (.list (ms.map fun m => .str (quantityStr m u)))
  | .unit u => .ok (.str (tagUnits u))
  | .process r => .ok (.str (tagProcess r))
  | .function r => .ok (.str (tagFunction r))
  | .unsupported _ => .error .typeError
  | v => .ok v

/-- `find_numpy_and_non_strings(d, curr_path)`: the paths named in the error message -/
def findBadKeys (curr : List Key) : PVal → List (List Key)
  | .dict kvs => go curr kvs
  | _ => []
where
  go (curr : List Key) : List (Key × PVal) → List (List Key)
    | [] => []
    | (k, v) :: rest =>
      (match k with
       | .str _ => []
       | .strSub _ => []
       | _ => [curr ++ [k]]) ++ findBadKeys (curr ++ [k]) v ++ go curr rest

/-! ## deserialize -/

/-- The part of pint that `UnitsSerializer.deserialize` relies on: `units(s)`
(`UnitRegistry.parse_expression`), returning a quantity, a bare number, or raising; and
`norm m u`, the token of the magnitude that `units(str(m * u))` carries: numerically equal to
`m`, but an `int` comes back as a `float` when evaluating the unit expression divides
(`units("3 count / femtoliter")` is `3.0 count / femtoliter`).  `norm "1" u` is the magnitude
of `units(u)` for a bare unit expression. -/
structure Pint where
  parse : String → Except Err PVal
  norm : String → String → String

def Pint.one (P : Pint) (u : String) : String := P.norm "1" u

/-- `math.nan * x` -/
def nanTimes : PVal → PVal
  | .quantity _ u => .quantity "nan" u
  | _ => .float "nan"

/-- `UnitsSerializer.deserialize` on the regex group -/
def deserUnits (P : Pint) (m : String) : Except Err PVal :=
  if isNanMagnitude m.toList then
    match P.parse (String.ofList (fixRecip (pyStripL (m.toList.drop 3)))) with
    | .ok r => .ok (nanTimes r)
    | .error e => .error e
  else P.parse m

mutual
/-- `deserialize_value`: strings matching the units regex → `UnitsSerializer`; lists →
`SequenceDeserializer`; dicts → `DictDeserializer`; anything else is returned as is. -/
def deserialize (P : Pint) : JVal → Except Err PVal
  | .null => .ok .none
  | .bool b => .ok (.bool b)
  | .int i => .ok (.int i)
  | .float t => .ok (.float t)
  | .str s =>
    match tagContent s with
    | some m => deserUnits P m
    | Option.none => .ok (.str s)
  | .arr xs => (deserializeList P xs).map .list
  | .obj kvs => (deserializeKVs P kvs).map .dict

def deserializeList (P : Pint) : List JVal → Except Err (List PVal)
  | [] => .ok []
  | x :: xs =>
    match deserialize P x with
    | .error e => .error e
    | .ok v =>
      match deserializeList P xs with
      | .error e => .error e
      | .ok vs => .ok (v :: vs)

def deserializeKVs (P : Pint) : List (String × JVal) → Except Err (List (Key × PVal))
  | [] => .ok []
  | (k, x) :: rest =>
    match deserialize P x with
    | .error e => .error e
    | .ok v =>
      match deserializeKVs P rest with
      | .error e => .error e
      | .ok vs => .ok ((Key.str k, v) :: vs)
end

/-- names of the registered serializers whose `can_deserialize(data)` is truthy, in
registration order (`Generated.serializerOrder`); the base class answers `None`. -/
def canDeserialize (name : String) (j : JVal) : Bool :=
  match name, j with
  | "UnitsSerializer", .str s => (tagContent s).isSome
  | "SequenceDeserializer", .arr _ => true
  | "DictDeserializer", .obj _ => true
  | _, _ => false

def compatible (j : JVal) : List String :=
  Generated.serializerOrder.filter (fun n => canDeserialize n j)

/-! ## views -/

mutual
/-- plain JSON data as the Python value `orjson.loads` returns -/
def embed : JVal → PVal
  | .null => .none
  | .bool b => .bool b
  | .int i => .int i
  | .float t => .float t
  | .str s => .str s
  | .arr xs => .list (embedList xs)
  | .obj kvs => .dict (embedKVs kvs)
def embedList : List JVal → List PVal
  | [] => []
  | x :: xs => embed x :: embedList xs
def embedKVs : List (String × JVal) → List (Key × PVal)
  | [] => []
  | (k, x) :: rest => (Key.str k, embed x) :: embedKVs rest
end

def floatView (tok : String) : PVal := if nonFinite tok then .none else .float tok

mutual
/-- What a value is restored to: containers keep their shape with tuples / sets / arrays as
lists, numpy scalars as Python scalars, quantities as themselves, a unit `u` as `1 * u`, a magnitude as pint re-reads it (`norm`),
non-finite plain floats as `None` (JSON has no nan/inf), processes and functions as their
tagged strings (no deserializer exists). -/
def view (norm : String → String → String) : PVal → PVal
  | .none => .none
  | .bool b => .bool b
  | .int i => .int i
  | .float t => floatView t
  | .str s => .str s
  | .npStr s => .str s
  | .npInt i => .int i
  | .npFloat t => floatView t
  | .npBool b => .bool b
  | .list xs => .list (viewList norm xs)
  | .tuple xs => .list (viewList norm xs)
  | .set xs => .list (viewList norm xs)
  | .ndarray xs => .list (viewList norm xs)
  | .dict kvs => .dict (viewKVs norm kvs)
  | .quantity m u => .quantity (norm m u) u
  | .quantityArr ms u => .list (ms.map fun m => .quantity (norm m u) u)
  | .unit u => .quantity (norm "1" u) u
  | .process r => .str (tagProcess r)
  | .function r => .str (tagFunction r)
  | .unsupported t => .unsupported t
def viewList (norm : String → String → String) : List PVal → List PVal
  | [] => []
  | x :: xs => view norm x :: viewList norm xs
def viewKVs (norm : String → String → String) : List (Key × PVal) → List (Key × PVal)
  | [] => []
  | (k, v) :: rest => (k, view norm v) :: viewKVs norm rest
end

/-! ## a concrete token-level stand-in for pint (used by the driver and the non-vacuity examples) -/

def isDigit (c : Char) : Bool := '0' ≤ c && c ≤ '9'

/-- `5`, `-7`, `1.5`, `1e+22`, `5e-324`, `inf`, `-inf`, `nan` -/
def isNumTok (cs : List Char) : Bool :=
  match cs with
  | [] => false
  | '-' :: rest => isUnsigned rest
  | _ => isUnsigned cs
where
  isUnsigned (cs : List Char) : Bool :=
    cs == ['i', 'n', 'f'] || cs == ['n', 'a', 'n'] ||
    (match cs with
     | c :: _ => isDigit c && cs.all (fun c => isDigit c || c == '.' || c == 'e' || c == '+' || c == '-')
     | [] => false)

def isIntTok (cs : List Char) : Bool :=
  match cs with
  | '-' :: rest => !rest.isEmpty && rest.all isDigit
  | _ => !cs.isEmpty && cs.all isDigit

def natOfDigits (cs : List Char) : Nat := cs.foldl (fun n c => 10 * n + (c.toNat - '0'.toNat)) 0

def intOfTok (cs : List Char) : Int :=
  match cs with
  | '-' :: rest => - (natOfDigits rest : Int)
  | _ => (natOfDigits cs : Int)

/-- an int magnitude becomes a float when the unit expression divides or has a float exponent
(pint evaluates `m * a / b`, `x ** 0.5` with true division / float power) -/
def tokenNorm (m u : String) : String :=
  if isIntTok m.toList && u.toList.any (fun c => c == '/' || c == '.') then m ++ ".0" else m

/-- `<number> <unit expression>` | `<number>` | `<unit expression>` -/
def tokenParse (s : String) : Except Err PVal :=
  let cs := s.toList
  if cs.isEmpty then .ok (.quantity "1" "dimensionless")
  else if cs.all isPyWs then .error .assertion
  else
    let cs := pyStripL cs
    let head := cs.takeWhile (fun c => c != ' ')
    let rest := pyStripL (cs.dropWhile (fun c => c != ' '))
    if isNumTok head then
      if rest.isEmpty then
        (if isIntTok head then .ok (.int (intOfTok head)) else .ok (.float (String.ofList head)))
      else
        let unit := match rest with
          | '/' :: ' ' :: _ => recipPrefix.take 2 ++ rest     -- `5 / second` is `5 * (1 / second)`
          | _ => rest
        .ok (.quantity (tokenNorm (String.ofList head) (String.ofList unit)) (String.ofList unit))
    else .ok (.quantity (tokenNorm "1" (String.ofList cs)) (String.ofList cs))

def Pint.token : Pint := { parse := tokenParse, norm := tokenNorm }

end Viv.Ser
