import VivModel.StoreTree
/-!
# Structural updates of the hierarchy

Transcribed from `vivarium/core/store.py`: `Store._apply_config`, `_establish_path`, `get_path`,
`_topology_ports`, `_apply_subschema(s)`, `_apply_subschema_path`, `_generate_paths`, `generate`,
`set_value`, `apply_defaults`, `get_value`, `divide_value`, `get_processes`, `get_topology`,
`get_flow`, `depth`, `add`, `delete`, `_delete_path`, `move`, `add_node`, `insert`, `divide` and the
branch/leaf parts of `apply_update`, whose processing order is folded over
`Generated.structuralOrder` (regenerated from the source on every run).

A method of the `Store` at absolute path `pos` is a function of `pos` in the monad `FM`
(root tree, `Except Err`, log of written paths).  Pure, downward-only methods are functions on
subtrees.  Recursion that follows the (changing) tree takes fuel; running out of fuel is an
`Err.exception` and never happens in the correspondence runs (fuel 64, depth ≤ 8).

Out of the modelled input class (the model raises, the generators never go there): dictionary
valued topologies (`_path`), navigation through process nodes, `_unique_id`, `_emit`/`_units`/
`_serializer`/`_properties` in port schemas, updaters other than accumulate/set/null, random
dividers, `_updater`/`_reduce` in leaf updates.
-/
namespace Viv
open FM

/-! ## pure helpers on configs and subtrees -/

def hasSchemaKey (cfg : KVs) : Bool := cfg.any (fun kv => Generated.schemaKeys.contains kv.1)

/-- keys `_apply_config` pops before looking at children -/
def configSpecial : List String :=
  ["_output", "*", "_subschema", "_subtopology", "_topology", "_flow", "_divider"]

/-- `self.subschema = deep_merge(self.subschema, x)` -/
def mergeSub (cur : KVs) : Option Val → Except Err KVs
  | none => .ok cur
  | some (.dict s) => .ok (deepMergeKVs cur s)
  | some .none => .ok cur
  | some _ => .error .attributeError

/-- the two checks at the end of `_apply_config` -/
def finalChecks (n : Tree) : Except Err Tree :=
  if n.attrs.topology.truthy && !n.attrs.value.isProc then .error .valueError
  else if n.attrs.flow.truthy && !n.attrs.value.isProc then .error .attributeError
  else if n.attrs.flow.truthy && !n.attrs.value.procIsStep then .error .valueError
  else .ok n

/-- leaf part of `_apply_config` (the config holds a schema key) -/
def applyLeafConfig (a : Attrs) (cfg : KVs) : Except Err Attrs := do
  let a := { a with leaf := true }
  let a := match KV.lookup "_default" cfg with
    | some d => { a with default := d }
    | none => a
  let a ← match KV.lookup "_value" cfg with
    | some v =>
      if !a.value.isNone && !(a.value.beq v) then .error .valueError
      else pure { a with value := v }
    | none => pure a
  let a := match KV.lookup "_updater" cfg with
    | some u => { a with updater := registryName Generated.updaterTable u }
    | none => a
  let a := if a.updater.truthy then a else { a with updater := .str "_default" }
  let a := if a.divider.truthy then a else { a with divider := .str "_default" }
  pure a

/-- the attribute part of `_apply_config` that precedes the leaf/branch split -/
def applyConfigAttrs (a : Attrs) (cfg : KVs) : Except Err Attrs := do
  let sub1 ← mergeSub a.subschema (KV.lookup "*" cfg)
  let sub2 ← mergeSub sub1 (KV.lookup "_subschema" cfg)
  let a := { a with subschema := sub2 }
  let a := match KV.lookup "_topology" cfg with
    | some tp => { a with topology := tp }
    | none => a
  let a := match KV.lookup "_flow" cfg with
    | some (.dict []) => a
    | some fl => { a with flow := fl }
    | none => a
  let a := match KV.lookup "_divider" cfg with
    | some d => { a with divider := registryName Generated.dividerTable d }
    | none => a
  pure a

mutual
/-- `Store._apply_config(config)` on a subtree -/
def applyConfig (n : Tree) : Val → Except Err Tree
  | .dict cfg => do
    let a ← applyConfigAttrs n.attrs cfg
    if hasSchemaKey cfg then
      if !n.inner.isEmpty then .error .exception
      else do
        let a ← applyLeafConfig a cfg
        finalChecks (.node a n.inner)
    else
      let remaining := cfg.any (fun kv => !configSpecial.contains kv.1)
      if a.leaf && remaining && a.value.truthy then .error .exception
      else do
        let a := if a.leaf && remaining then { a with leaf := false } else a
        let inner' ← applyConfigKids n.inner cfg
        finalChecks (.node a inner')
  | .str s => if s = "**" then finalChecks n else .error .attributeError
  | _ => .error .attributeError
/-- `for key, child in config.items(): …` (popped keys skipped) -/
def applyConfigKids (inner : List (String × Tree)) : List (String × Val) → Except Err (List (String × Tree))
  | [] => .ok inner
  | (k, c) :: rest =>
    if configSpecial.contains k then applyConfigKids inner rest
    else do
      let child' ← applyConfig ((AL.lookup k inner).getD Tree.empty) c
      applyConfigKids (AL.set k child' inner) rest
end

mutual
/-- `Store.apply_defaults()` -/
def applyDefaults : Tree → Tree
  | .node a inner =>
    if inner.isEmpty then
      if a.value.isNone then .node { a with value := a.default } inner else .node a inner
    else .node a (applyDefaultsKids inner)
def applyDefaultsKids : List (String × Tree) → List (String × Tree)
  | [] => []
  | (k, c) :: rest => (k, applyDefaults c) :: applyDefaultsKids rest
end

mutual
/-- `Store.set_value(value)` -/
def setValue (n : Tree) : Val → Except Err Tree
  | .dict kvs =>
    if !n.inner.isEmpty || !n.attrs.subschema.isEmpty then do
      let inner' ← setValueKids n.attrs.subschema n.inner kvs
      pure (.node n.attrs inner')
    else .ok (n.withAttrs fun a => { a with value := .dict kvs })
  | v =>
    if !n.inner.isEmpty || !n.attrs.subschema.isEmpty then .error .exception
    else .ok (n.withAttrs fun a => { a with value := v })
def setValueKids (sub : KVs) (inner : List (String × Tree)) :
    List (String × Val) → Except Err (List (String × Tree))
  | [] => .ok inner
  | (k, v) :: rest => do
    let inner1 ←
      if AL.has k inner then pure inner
      else if !sub.isEmpty then do
        let c ← applyConfig Tree.empty (.dict sub)
        pure (AL.set k c inner)
      else pure inner
    match AL.lookup k inner1 with
    | some c => do
      let c' ← setValue c v
      setValueKids sub (AL.set k c' inner1) rest
    | none => setValueKids sub inner1 rest
end

mutual
/-- `Store.get_value()`; a process node reads as the tuple `(process, topology)` -/
def getValue : Tree → Val
  | .node a inner =>
    if !inner.isEmpty then .dict (getValueKids inner)
    else if !a.subschema.isEmpty then .dict []
    else if a.topology.truthy then .list [a.value, a.topology]
    else a.value
def getValueKids : List (String × Tree) → KVs
  | [] => []
  | (k, c) :: rest => (k, getValue c) :: getValueKids rest
end

/-- a registered divider applied to a value; `none` is Python's `None` -/
def applyDivider (name : String) (v : Val) : Except Err (Option (Val × Val)) :=
  if name = "set" then .ok (some (v, v))
  else if name = "zero" then .ok (some (.int 0, .int 0))
  else if name = "null" then .ok none
  else if name = "split_dict" then
    -- the second half of the items to the first daughter, the first half to the second
    match v with
    | .dict kvs => .ok (some (.dict (kvs.drop (kvs.length / 2)), .dict (kvs.take (kvs.length / 2))))
    | .none => .ok (some (.dict [], .dict []))
    | _ => .error .attributeError
  else if name = "no_divide" then .error .assertion
  else if name = "set_value" then .error .typeError
  else .error .exception

mutual
/-- `Store.divide_value()` -/
def divideValue : Tree → Except Err (Option (Val × Val))
  | .node a inner =>
    let divider : Val :=
      match a.divider with
      | .str "_default" => if a.topology.truthy then .str "null" else .str "set"
      | d => d
    let viaDivider : Option String :=
      match divider with
      | .str name => if name ≠ "" then some name else none
      | _ => none
    match viaDivider with
    | some name => applyDivider name (getValue (.node a inner))
    | none =>
      if inner.isEmpty then .ok none
      else do
        let (d1, d2) ← divideKids inner
        pure (some (.dict d1, .dict d2))
def divideKids : List (String × Tree) → Except Err (KVs × KVs)
  | [] => .ok ([], [])
  | (k, c) :: rest => do
    let r ← divideValue c
    let (d1, d2) ← divideKids rest
    match r with
    | some (x, y) => pure ((k, x) :: d1, (k, y) :: d2)
    | none => pure (d1, d2)
end

mutual
/-- `Store.get_processes()` -/
def getProcesses : Tree → Option Val
  | .node a inner =>
    if !inner.isEmpty then
      let ps := getProcessesKids inner
      if ps.isEmpty then none else some (.dict ps)
    else if a.value.isProc then some a.value else none
def getProcessesKids : List (String × Tree) → KVs
  | [] => []
  | (k, c) :: rest =>
    (if !c.inner.isEmpty then
      (match getProcesses c with
        | some v => [(k, v)]
        | none => [])
     else if c.attrs.value.isProc && !c.attrs.value.procIsStep then [(k, c.attrs.value)] else [])
    ++ getProcessesKids rest
end

mutual
/-- `Store.get_steps()` -/
def getSteps : Tree → Option Val
  | .node a inner =>
    if !inner.isEmpty then
      let ps := getStepsKids inner
      if ps.isEmpty then none else some (.dict ps)
    else if a.value.isProc then some a.value else none
def getStepsKids : List (String × Tree) → KVs
  | [] => []
  | (k, c) :: rest =>
    (if !c.inner.isEmpty then
      (match getSteps c with
        | some v => [(k, v)]
        | none => [])
     else if c.attrs.value.isProc && c.attrs.value.procIsStep then [(k, c.attrs.value)] else [])
    ++ getStepsKids rest
end

mutual
/-- `Store.get_topology()` -/
def getTopology : Tree → Option Val
  | .node a inner =>
    if !inner.isEmpty then
      let ps := getTopologyKids inner
      if ps.isEmpty then none else some (.dict ps)
    else if a.topology.truthy then some a.topology else none
def getTopologyKids : List (String × Tree) → KVs
  | [] => []
  | (k, c) :: rest =>
    (match getTopology c with
      | some v => if v.truthy then [(k, v)] else []
      | none => []) ++ getTopologyKids rest
end

mutual
/-- `Store.get_flow()` -/
def getFlow : Tree → Option Val
  | .node a inner =>
    if !inner.isEmpty then
      let ps := getFlowKids inner
      if ps.isEmpty then none else some (.dict ps)
    else if !a.flow.isNone then some a.flow else none
def getFlowKids : List (String × Tree) → KVs
  | [] => []
  | (k, c) :: rest =>
    (match getFlow c with
      | some v => [(k, v)]
      | none => []) ++ getFlowKids rest
end

mutual
/-- `Store.depth(path, filter_function=lambda x: isinstance(x.value, Process))` -/
def depthProcs (path : Path) : Tree → List (Path × Attrs)
  | .node a inner => (if a.value.isProc then [(path, a)] else []) ++ depthProcsKids path inner
def depthProcsKids (path : Path) : List (String × Tree) → List (Path × Attrs)
  | [] => []
  | (k, c) :: rest => depthProcs (path ++ [k]) c ++ depthProcsKids path rest
end

mutual
/-- `dict_to_paths(root, d)` where process objects are leaves -/
def procPaths (root : Path) : Val → List (Val × Val)
  | .dict kvs =>
    if KV.has "__proc__" kvs then [(pathVal root, .dict kvs)] else procPathsKids root kvs
  | v => [(pathVal root, v)]
def procPathsKids (root : Path) : List (String × Val) → List (Val × Val)
  | [] => []
  | (k, v) :: rest => procPaths (root ++ [k]) v ++ procPathsKids root rest
end

/-- `deep_merge_check(dct, merge_dct)` (identity check: any clash of non-dictionaries raises) -/
def deepMergeCheck (dct : KVs) : KVs → Except Err KVs
  | [] => .ok dct
  | (k, v) :: rest =>
    match KV.lookup k dct, v with
    | some (.dict a), .dict b =>
      if KV.has "__proc__" a || KV.has "__proc__" b then .error .valueError
      else
        match deepMergeCheck a b with
        | .ok m => deepMergeCheck (KV.set k (.dict m) dct) rest
        | .error e => .error e
    | some _, _ => .error .valueError
    | Option.none, _ => deepMergeCheck (KV.set k v dct) rest

/-! ## navigation in the monad -/

/-- what a process node does with a path step that is not one of its children
(`topology_path`): a step naming one of its ports redirects through the topology (outside the
modelled class: raises here), any other step finds nothing -/
def procRedirects (a : Attrs) (step : String) : Except Err Bool :=
  match a.topology with
  | .dict tp => if KV.has step tp then .error .exception else .ok false
  | _ => .error .typeError

/-- `Store.get_path(rel)` from the node at `pos`: the absolute path reached.  A missing step
raises, except at a process node, where `get_path` returns the process node itself. -/
def walkT (t : Tree) : Path → Path → Except Err Path
  | pos, [] => .ok pos
  | pos, step :: rest =>
    if step = ".." then
      match pos.reverse with
      | [] => .error .exception
      | _ :: up => walkT t up.reverse rest
    else
      match t.get (pos ++ [step]) with
      | some _ => walkT t (pos ++ [step]) rest
      | none =>
        match t.get pos with
        | some n =>
          if n.attrs.value.isProc then
            match procRedirects n.attrs step with
            | .ok _ => .ok pos
            | .error e => .error e
          else .error .exception
        | none => .error .exception

def getPath (pos rel : Path) : FM Path := do
  let t ← root
  lift (walkT t pos rel)

/-- `_establish_path(rel, {})` from `pos` without the final `_apply_config`: creates the
missing nodes (`Store({})`) and returns the absolute path reached; `none` is Python's `None`
(a step below a process node that is not one of its ports) -/
def establishPath : Path → Path → FM (Option Path)
  | pos, [] => pure (some pos)
  | pos, step :: rest =>
    if step = ".." then
      match pos.reverse with
      | [] => throw .exception
      | _ :: up => establishPath up.reverse rest
    else do
      let n ← node pos
      if n.attrs.value.isProc then do
        let _ ← lift (procRedirects n.attrs step)
        pure none
      else
        match AL.lookup step n.inner with
        | some _ => establishPath (pos ++ [step]) rest
        | none => do
          setAt (pos ++ [step]) Tree.empty
          establishPath (pos ++ [step]) rest

/-- `_establish_path(rel, config)`, result possibly `None` -/
def establishCfgOpt (pos rel : Path) (cfg : Val) : FM (Option Path) := do
  match ← establishPath pos rel with
  | some p => do
    modify p (fun n => applyConfig n cfg)
    pure (some p)
  | none => pure none

/-- `_establish_path(rel, config)` where the caller goes on to use the node
(`None.attribute` raises) -/
def establishCfg (pos rel : Path) (cfg : Val) : FM Path := do
  match ← establishCfgOpt pos rel cfg with
  | some p => pure p
  | none => throw .attributeError

/-! ## distributing schemas (`_topology_ports`, `_apply_subschema*`) -/

mutual
/-- `Store._topology_ports(schema, topology)` at `pos` -/
def topologyPorts : Nat → Path → Val → Val → FM Unit
  | 0, _, _, _ => throw .exception
  | fuel + 1, pos, .dict schema, topology =>
    if hasSchemaKey schema then do
      let target ← match topology with
        | .dict [] => pure pos
        | tp =>
          match valPath? tp with
          | some rel => getPath pos rel
          | none => throw .exception
      modify target (fun n => applyConfig n (.dict schema))
    else
      match topology with
      | .dict topo =>
        if topo.any (fun kv => !KV.has kv.1 schema) then throw .exception
        else
          forEach (fun (ps : String × Val) => do
            let pathV := (KV.lookup ps.1 topo).getD (pathVal [ps.1])
            match valPath? pathV with
            | none => throw .exception
            | some rel =>
              if ps.1 = "*" then do
                let p ← establishCfg pos rel (.dict [("_subschema", ps.2)])
                applySubschema fuel p
                modify p (fun n => .ok (applyDefaults n))
              else do
                let _ ← establishCfgOpt pos rel ps.2
                pure ()) schema
      | _ => throw .attributeError
  | _ + 1, _, _, _ => throw .attributeError
/-- `Store._apply_subschema()` at `pos` -/
def applySubschema : Nat → Path → FM Unit
  | 0, _ => throw .exception
  | fuel + 1, pos => do
    let n ← node pos
    forEach (fun k => topologyPorts fuel (pos ++ [k]) (.dict n.attrs.subschema) (.dict []))
      (AL.keys n.inner)
end

/-- `Store._apply_subschemas()` at `pos` -/
def applySubschemas : Nat → Path → FM Unit
  | 0, _ => throw .exception
  | fuel + 1, pos => do
    let n ← node pos
    if !n.attrs.subschema.isEmpty then applySubschema fuel pos else pure ()
    let n ← node pos
    forEach (fun k => applySubschemas fuel (pos ++ [k])) (AL.keys n.inner)

/-- `Store._apply_subschema_path(path)` at `pos` -/
def applySubschemaPath (fuel : Nat) : Path → Path → FM Unit
  | _, [] => pure ()
  | pos, k :: rest => do
    let n ← node pos
    if !AL.has k n.inner then throw .keyError
    else do
      if !n.attrs.subschema.isEmpty then
        topologyPorts fuel (pos ++ [k]) (.dict n.attrs.subschema) (.dict [])
      else pure ()
      applySubschemaPath fuel (pos ++ [k]) rest

/-- `Store._generate_paths(processes, flow, topology)` at `pos` -/
def generatePaths : Nat → Path → Val → Val → Val → FM Unit
  | 0, _, _, _, _ => throw .exception
  | fuel + 1, pos, .dict procs, flow, topology =>
    forEach (fun (kv : String × Val) => do
      let subtopology ← match topology with
        | .dict tp => liftOpt .keyError (KV.lookup kv.1 tp)
        | _ => throw .typeError
      let subflow ←
        if flow.truthy then
          match flow with
          | .dict f => pure ((KV.lookup kv.1 f).getD .none)
          | _ => throw .attributeError
        else pure Val.none
      if kv.2.isProc then do
        let cfg : KVs := [("_value", kv.2), ("_updater", .str "set"), ("_topology", subtopology),
                          ("_serializer", .str "process")]
                         ++ (if subflow.isNone then [] else [("_flow", subflow)])
        let ps ← lift (applyConfig Tree.empty (.dict cfg))
        setAt (pos ++ [kv.1]) ps
        topologyPorts fuel pos kv.2.procSchema subtopology
      else do
        let n ← node pos
        if !AL.has kv.1 n.inner then setAt (pos ++ [kv.1]) Tree.empty else pure ()
        generatePaths fuel (pos ++ [kv.1]) kv.2 subflow subtopology) procs
  | _ + 1, _, _, _, _ => throw .attributeError

/-- `Store.generate(path, processes, steps, flow, topology, initial_state)` at `pos`;
returns the absolute path of the generated subtree -/
def generate (fuel : Nat) (pos rel : Path) (processes steps flow topology initialState : Val) :
    FM Path := do
  let target ← establishCfg pos rel (.dict [])
  generatePaths fuel target processes flow topology
  generatePaths fuel target steps flow topology
  applySubschemas fuel target
  modify target (fun n => setValue n initialState)
  modify target (fun n => .ok (applyDefaults n))
  pure target

/-! ## the report tuple -/

/-- `(topology_updates, process_updates, step_updates, flow_updates, deletions, view_expire)`;
paths are tuples (`Val.list`) because a deletion may carry a non-string element (F7) -/
structure Report where
  topology : List (Val × Val) := []
  processes : List (Val × Val) := []
  steps : List (Val × Val) := []
  flow : List (Val × Val) := []
  deletions : List Val := []
  viewExpire : Bool := false
  deriving Inhabited

def Report.isQuiet (r : Report) : Bool :=
  r.topology.isEmpty && r.processes.isEmpty && r.steps.isEmpty && r.flow.isEmpty
    && r.deletions.isEmpty && !r.viewExpire

/-- merging an inner report into the branch's (`if inner_x: x.extend(inner_x)`) -/
def Report.absorb (r : Report) : Option Report → Report
  | none => r
  | some i =>
    { topology := r.topology ++ i.topology, processes := r.processes ++ i.processes,
      steps := r.steps ++ i.steps, flow := r.flow ++ i.flow,
      deletions := r.deletions ++ i.deletions,
      viewExpire := if i.viewExpire then true else r.viewExpire }

def getKey (kvs : KVs) (k : String) : FM Val := liftOpt .keyError (KV.lookup k kvs)

/-! ## the structural operations -/

/-- `Store.add(added)` at `here` -/
def storeAdd (fuel : Nat) (here : Path) (added : Val) : FM Unit := do
  let kvs ← match added with
    | .dict kvs => pure kvs
    | _ => throw .typeError
  let key ← getKey kvs "key"
  let k ← match key with
    | .str s => pure s
    | _ => throw .exception
  let n ← node here
  if AL.has k n.inner then throw .exception
  else if k = "_unique_id" then throw .exception
  else do
    let state ← getKey kvs "state"
    let target ← establishCfg here [k] (.dict [])
    applySubschemaPath fuel here [k]
    modify target (fun n => .ok (applyDefaults n))
    modify target (fun n => setValue n state)

/-- `Store.delete(key, here)`: `_delete_path((key,))`, which only finds string keys (F7) -/
def storeDelete (here : Path) (key : Val) : FM Val := do
  match key with
  | .str s => eraseAt (here ++ [s])
  | _ => pure ()
  pure (.list (here.map Val.str ++ [key]))

/-- `path[-1] in target.get_value()` guarded by the truthiness of the value -/
def collides (tv : Val) (last : String) : Except Err Bool :=
  match tv with
  | .dict kvs => .ok (KV.has last kvs)
  | .int i => if i != 0 then .error .typeError else .ok false
  | .bool b => if b then .error .typeError else .ok false
  | _ => .ok false

/-- `Store.move(move, process_store)` at `here`; `rec` is `apply_update` -/
def storeMove (rec : Path → Val → Option Path → FM (Option Report))
    (here : Path) (mv : Val) (ps : Option Path) : FM Report := do
  let kvs ← match mv with
    | .dict kvs => pure kvs
    | _ => throw .typeError
  let source ← getKey kvs "source"
  let sourcePath ← match source with
    | .str s => pure [s]
    | v => liftOpt .exception (valPath? v)
  let srcAbs ← getPath here sourcePath
  match KV.lookup "update" kvs with
  | some u => do
    let r ← rec srcAbs u ps
    match r with
    | some r => if r.isQuiet then pure () else throw .assertion
    | none => throw .assertion
  | none => pure ()
  let target ← getKey kvs "target"
  let portExt : String × Path ← match target with
    | .str s => pure (s, [])
    | .list (.str s :: more) => do
      let e ← liftOpt .exception (valPath? (.list more))
      pure (s, e)
    | _ => throw .exception
  let psPath ← liftOpt .attributeError ps
  let psNode ← node psPath
  let portPath ← match psNode.attrs.topology with
    | .dict tp => liftOpt .keyError (KV.lookup portExt.1 tp)
    | _ => throw .typeError
  let rel ← liftOpt .typeError (valPath? portPath)
  if psPath.isEmpty then throw .attributeError
  else do
    let targetNode ← getPath psPath.dropLast (rel ++ portExt.2)
    let srcNode ← node srcAbs
    -- target_node.add_node(source_path, source_node)
    let tgt ← establishCfg targetNode sourcePath.dropLast (.dict [])
    let last ← liftOpt .exception sourcePath.getLast?
    let tnode ← node tgt
    let hit ← lift (collides (getValue tnode) last)
    if hit then do
      -- `target.apply_update({path[-1]: node.get_value()})`: the update goes to the parent in which the
      -- collision was found (fix F58; it used to be applied to the node `add_node` was called on)
      let _ ← rec tgt (.dict [(last, getValue srcNode)]) none
      pure ()
    else setAt (tgt ++ [last]) srcNode
    -- `target.path_for() + source_path[-1:]`: `tgt` is the parent under which the node was attached (fix F56)
    let targetPath := tgt ++ [last]
    let procs := depthProcs [] srcNode
    let topo := procs.map fun pa => (pathVal (targetPath ++ pa.1), pa.2.topology)
    let prs := (procs.filter fun pa => !pa.2.value.procIsStep).map
      fun pa => (pathVal (targetPath ++ pa.1), pa.2.value)
    let sts := (procs.filter fun pa => pa.2.value.procIsStep).map
      fun pa => (pathVal (targetPath ++ pa.1), pa.2.value)
    let fls := (procs.filter fun pa => pa.2.value.procIsStep).map
      fun pa => (pathVal (targetPath ++ pa.1), pa.2.flow)
    -- self._delete_path(source_path)
    let parent ← getPath here sourcePath.dropLast
    eraseAt (parent ++ [last])
    pure { topology := topo, processes := prs, steps := sts, flow := fls,
           deletions := [pathVal (here ++ sourcePath)], viewExpire := true }

/-- `[(root + (key,), x) for key, x in d.items()]` -/
def topLevelPaths (root : Path) : Val → Except Err (List (Val × Val))
  | .dict kvs => .ok (kvs.map fun kv => (pathVal (root ++ [kv.1]), kv.2))
  | _ => .error .attributeError

/-- `Store.insert(insertion)` at `here` (the `_generate` operation) -/
def storeInsert (fuel : Nat) (here : Path) (ins : Val) : FM Report := do
  let kvs ← match ins with
    | .dict kvs => pure kvs
    | _ => throw .attributeError
  let rel : Path := match KV.lookup "key" kvs with
    | some (.str s) => if s = "" then [] else [s]
    | _ => []
  let processes ← getKey kvs "processes"
  let steps := (KV.lookup "steps" kvs).getD (.dict [])
  let flow := (KV.lookup "flow" kvs).getD .none
  let topology ← getKey kvs "topology"
  let initialState ← getKey kvs "initial_state"
  let rootP ← generate fuel here rel processes steps flow topology initialState
  let prs := procPaths rootP processes
  let sts := procPaths rootP steps
  let tps ← lift (topLevelPaths rootP topology)
  -- `dict_to_paths(root, insertion.get('flow') or {})` (path by path, as `divide` does: fix 61e1f38)
  let fls := procPaths rootP (if flow.truthy then flow else .dict [])
  applySubschemaPath fuel here rel
  let tgt ← getPath here rel
  modify tgt (fun n => .ok (applyDefaults n))
  -- variables that only the sub-schema declares exist now: `target.set_value(insertion['initial_state'])`
  modify tgt (fun n => setValue n initialState)
  pure { topology := tps, processes := prs, steps := sts, flow := fls, viewExpire := true }

/-- `deep_merge(daughter_state, daughter.get('initial_state', {}))` -/
def mergeInitial (dstate init : Val) : Except Err Val :=
  match dstate, init with
  | .dict a, .dict b => .ok (.dict (deepMergeKVs a b))
  | .none, .dict b => .ok (.dict (deepMergeKVs [] b))
  | .dict a, .none => .ok (.dict a)
  | .none, .none => .ok (.dict [])
  | v, .dict [] => .ok v
  | _, _ => .error .typeError

structure DivAcc where
  pas : List (Val × Val) := []
  flow : List (Val × Val) := []
  topology : List (Val × Val) := []

/-- the flow a daughter of a division is generated with: her own when she gives a non-empty one; none
when she brings her own processes or steps (her steps are then legacy derivers, fix F57); the mother's
only when she names neither -/
def daughterFlow (dk : KVs) (m : Tree) : Val :=
  let inherited : Val :=
    if KV.has "processes" dk || KV.has "steps" dk then .dict [] else (getFlow m).getD (.dict [])
  match KV.lookup "flow" dk with
  | some fl => if fl.truthy then fl else inherited
  | none => inherited

/-- one daughter of `Store.divide` -/
def divideDaughter (fuel : Nat) (here : Path) (mother : String) (acc : DivAcc)
    (dd : Val × Val) : FM DivAcc := do
  let dk ← match dd.1 with
    | .dict kvs => pure kvs
    | _ => throw .attributeError
  let merged ← lift (mergeInitial dd.2 ((KV.lookup "initial_state" dk).getD (.dict [])))
  let key ← getKey dk "key"
  let k ← match key with
    | .str s => pure s
    | _ => throw .exception
  let m ← node (here ++ [mother])
  let processes ←
    if KV.has "processes" dk || KV.has "steps" dk then do
      -- `daughter.get('processes', {})`: a daughter may list steps only
      let p := (KV.lookup "processes" dk).getD (.dict [])
      match p, (KV.lookup "steps" dk).getD (.dict []) with
      | .dict a, .dict b => do
        let mm ← lift (deepMergeCheck a b)
        pure (Val.dict mm)
      | _, _ => throw .typeError
    else do
      -- the mother's processes and steps (her flow is inherited below)
      let p := (getProcesses m).getD (.dict [])
      let st := (getSteps m).getD (.dict [])
      match p, st with
      | .dict a, .dict b =>
        -- (`deep_merge_check(processes, {})` changes nothing)
        if b.isEmpty then pure (Val.dict a)
        else do
          let mm ← lift (deepMergeCheck a b)
          pure (Val.dict mm)
      | _, _ => throw .attributeError
  let topology := match KV.lookup "topology" dk with
    | some tp => tp
    | none => (getTopology m).getD (.dict [])
  let flow := daughterFlow dk m
  let rootP ← generate fuel here [k] processes (.dict []) flow topology merged
  let tps ← lift (topLevelPaths rootP topology)
  applySubschemaPath fuel here [k]
  let tgt ← getPath here [k]
  modify tgt (fun n => .ok (applyDefaults n))
  modify tgt (fun n => setValue n merged)
  pure { pas := acc.pas ++ procPaths rootP processes, flow := acc.flow ++ procPaths rootP flow,
         topology := acc.topology ++ tps }

def foldFM {β σ} (f : σ → β → FM σ) : σ → List β → FM σ
  | s, [] => pure s
  | s, x :: xs => do
    let s' ← f s x
    foldFM f s' xs

/-- `Store.divide` after its arguments are read: mother key `mk`, daughters `ds` -/
def storeDivideCore (fuel : Nat) (here : Path) (mk : String) (ds : List Val) : FM Report := do
  let n ← node here
  let m ← liftOpt .keyError (AL.lookup mk n.inner)
  let states ← lift (divideValue m)
  let pair ← liftOpt .typeError states
  let acc ← foldFM (divideDaughter fuel here mk) {} (ds.zip [pair.1, pair.2])
  eraseAt (here ++ [mk])
  pure { topology := acc.topology,
         processes := acc.pas.filter (fun pp => !pp.2.procIsStep),
         steps := acc.pas.filter (fun pp => pp.2.procIsStep),
         flow := acc.flow, deletions := [pathVal (here ++ [mk])], viewExpire := true }

/-- `Store.divide(divide)` at `here` -/
def storeDivide (fuel : Nat) (here : Path) (dv : Val) : FM Report := do
  let kvs ← match dv with
    | .dict kvs => pure kvs
    | _ => throw .typeError
  let mother ← getKey kvs "mother"
  let mk ← match mother with
    | .str s => pure s
    | _ => throw .keyError
  let daughters ← getKey kvs "daughters"
  let ds ← match daughters with
    | .list ds => pure ds
    | _ => throw .typeError
  storeDivideCore fuel here mk ds

/-- the structural keys `apply_update` pops from a branch update -/
def structuralKeys : List String := ["_add", "_move", "_generate", "_divide", "_delete"]

/-- the updater of a leaf applied to an update (`accumulate` on integers, `set`, `null`) -/
def leafUpdate (a : Attrs) (upd : Val) : Except Err Val :=
  let special : Bool := match upd with
    | .dict kvs => KV.has "_updater" kvs || KV.has "_reduce" kvs
    | _ => false
  if special then .error .exception
  else
    match a.updater with
    | .str u =>
      if u = "_default" || u = "accumulate" then
        match a.value, upd with
        | .int x, .int y => .ok (.int (x + y))
        | _, _ => .error .exception
      else if u = "set" then .ok upd
      else if u = "null" then .ok a.value
      else .error .exception
    | _ => .error .exception

/-- the entries of a popped structural key (`None`/absent: nothing to do) -/
def entriesOf (upd : KVs) (k : String) : Except Err (Option (List Val)) :=
  match KV.lookup k upd with
  | Option.none => .ok Option.none
  | some .none => .ok Option.none
  | some (.list es) => .ok (some es)
  | some _ => .error .typeError

/-- one part of a branch update; `part` ranges over `Generated.structuralOrder` -/
def applyPart (rec : Path → Val → Option Path → FM (Option Report)) (fuel : Nat)
    (here : Path) (upd : KVs) (ps : Option Path) (r : Report) (part : String) : FM Report :=
  if part = "_add" then do
    match ← lift (entriesOf upd "_add") with
    | some es => do
      forEach (storeAdd fuel here) es
      pure { r with viewExpire := true }
    | none => pure r
  else if part = "_move" then do
    match ← lift (entriesOf upd "_move") with
    | some es =>
      foldFM (fun (r : Report) mv => do
        let m ← storeMove rec here mv ps
        -- (process_updates, step_updates, flow_updates, topology_updates, deletions)
        pure { topology := r.topology ++ m.topology, processes := r.processes ++ m.processes,
               steps := r.steps ++ m.steps, flow := r.flow ++ m.flow,
               deletions := r.deletions ++ m.deletions, viewExpire := true }) r es
    | none => pure r
  else if part = "_generate" then do
    match ← lift (entriesOf upd "_generate") with
    | some es =>
      foldFM (fun (r : Report) g => do
        let m ← storeInsert fuel here g
        pure { topology := r.topology ++ m.topology, processes := r.processes ++ m.processes,
               steps := r.steps ++ m.steps, flow := r.flow ++ m.flow,
               deletions := r.deletions, viewExpire := true }) r es
    | none => pure r
  else if part = "_divide" then
    match KV.lookup "_divide" upd with
    | Option.none => pure r
    | some .none => pure r
    | some dv => do
      let m ← storeDivide fuel here dv
      pure { topology := r.topology ++ m.topology, processes := r.processes ++ m.processes,
             steps := r.steps ++ m.steps, flow := r.flow ++ m.flow,
             deletions := r.deletions ++ m.deletions, viewExpire := true }
  else if part = "inner" then
    foldFM (fun (r : Report) (kv : String × Val) =>
      if structuralKeys.contains kv.1 then pure r
      else do
        let n ← node here
        if AL.has kv.1 n.inner then do
          let i ← rec (here ++ [kv.1]) kv.2 ps
          pure (r.absorb i)
        else pure r) r upd
  else if part = "_delete" then do
    match ← lift (entriesOf upd "_delete") with
    | some es => do
      let ds ← foldFM (fun (acc : List Val) k => do
        let d ← storeDelete here k
        pure (acc ++ [d])) [] es
      pure { r with deletions := r.deletions ++ ds, viewExpire := true }
    | none => pure r
  else pure r

/-- `Store.apply_update(update, state)` at `here`; `ps` is the path of the process store
(`state`) the update comes from, `none` for `None`.  `none` as result is `_EMPTY_UPDATES`. -/
def applyUpdate : Nat → Path → Val → Option Path → FM (Option Report)
  | 0, _, _, _ => throw .exception
  | fuel + 1, here, upd, ps => do
    let multi : Option Val := match upd with
      | .dict kvs => KV.lookup Generated.multiUpdateKey kvs
      | _ => Option.none
    match multi with
    | some (.list us) => do
      forEach (fun u => do let _ ← applyUpdate fuel here u ps; pure ()) us
      pure Option.none
    | some _ => throw .assertion
    | Option.none => do
      let n ← node here
      if !n.inner.isEmpty || !n.attrs.subschema.isEmpty then do
        let kvs ← match upd with
          | .dict kvs => pure kvs
          | .list [] => pure []
          | .str s => if s = "" then pure [] else throw .valueError
          | _ => throw .typeError
        let r ← foldFM (applyPart (applyUpdate fuel) fuel here kvs ps) {} Generated.structuralOrder
        pure (some r)
      else do
        let v ← lift (leafUpdate n.attrs upd)
        modify here (fun n => .ok (n.withAttrs fun a => { a with value := v }))
        pure Option.none

/-- a history: updates applied one after the other, each to the result of the previous one -/
structure Step where
  here : Path
  upd : Val
  ps : Option Path

def applyHistory (fuel : Nat) : List Step → FM (List (Option Report))
  | [] => pure []
  | s :: rest => do
    let r ← applyUpdate fuel s.here s.upd s.ps
    let rs ← applyHistory fuel rest
    pure (r :: rs)

/-- `Store({}).generate((), processes, steps, flow, topology, initial_state)` -/
def initialTree (fuel : Nat) (processes steps flow topology initialState : Val) :
    Except Err Tree :=
  match (generate fuel [] [] processes steps flow topology initialState).run Tree.empty with
  | .ok (_, t, _) => .ok t
  | .error e => .error e

end Viv
