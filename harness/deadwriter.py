"""A process that is deleted while its update is in flight (scenario family of C09, also C10).

Compartment `agents/a` holds a slow process (timestep 2–4) that writes to a store *outside* its
compartment (`field`, through `..`).  A fast process deletes the compartment at a moment that is
not the end of an interval of the slow one.  `_delete` removes the compartment and everything
below it and all other nodes keep their values: the update that was in flight belongs to what was
deleted and must never arrive — `field` holds exactly the updates of the intervals that ended
before the deletion, and stays there."""
import itertools

_ids = itertools.count()


def gen_case(rng):
    ts = rng.choice([2, 3, 4])
    k = rng.choice([t for t in range(1, 8) if t % ts != 0])
    return {'kind': 'deadwriter', 'slow_ts': ts, 'delete_at': k, 'delta': rng.choice([1, 4, 10]),
            'ticks': k + rng.choice([ts, ts + 1, 2 * ts]), 'reaper_first': rng.random() < 0.5,
            'regen': rng.random() < 0.4, 'replace': rng.random() < 0.25, 'pre_run': rng.random() < 0.3}


def corpus():
    return [{'kind': 'deadwriter', 'slow_ts': 4, 'delete_at': 1, 'delta': 4, 'ticks': 6, 'reaper_first': False},
            {'kind': 'deadwriter', 'slow_ts': 3, 'delete_at': 4, 'delta': 10, 'ticks': 8, 'reaper_first': True},
            # F40: another update of the same batch generates a compartment with the same key
            {'kind': 'deadwriter', 'slow_ts': 4, 'delete_at': 1, 'delta': 1, 'ticks': 6, 'reaper_first': True,
             'regen': True},
            # F51: the compartment's process is replaced in place (a `_generate` with the same key, no deletion)
            {'kind': 'deadwriter', 'slow_ts': 4, 'delete_at': 1, 'delta': 1, 'ticks': 6, 'reaper_first': True,
             'regen': True, 'replace': True},
            # the replaced process lags behind after an unforced run_for() (nothing of it in flight, a deferred
            # timestep kept): the newcomer inherits neither its time nor that timestep
            {'kind': 'deadwriter', 'slow_ts': 3, 'delete_at': 2, 'delta': 1, 'ticks': 6, 'reaper_first': True,
             'regen': True, 'replace': True, 'pre_run': True}]


def run_impl(case):
    from vivarium.core.engine import Engine
    from vivarium.core.process import Process

    class Slow(Process):
        def ports_schema(self):
            return {'own': {'n': {'_default': 0, '_emit': True}}, 'field': {'total': {'_default': 0, '_emit': True}}}

        def calculate_timestep(self, states):
            return case['slow_ts']

        def next_update(self, timestep, states):
            return {'own': {'n': 1}, 'field': {'total': case['delta']}}

    class Reaper(Process):
        def __init__(self, parameters=None):
            super().__init__(parameters)
            self.n = 0

        def ports_schema(self):
            return {'agents': {'*': {}}}

        def next_update(self, timestep, states):
            self.n += 1
            if self.n == case['delete_at'] and 'a' in states['agents'] and not case.get('replace'):
                return {'agents': {'_delete': ['a']}}
            return {}

    class Fast(Process):
        """the process of the compartment generated anew: +1 on its own counter every time unit"""
        def ports_schema(self):
            return {'own': {'n': {'_default': 0, '_emit': True}, 'fresh': {'_default': 1, '_emit': True}}}

        def next_update(self, timestep, states):
            return {'own': {'n': timestep}}      # +1 per time unit (its timestep is 1)

    class Regen(Process):
        def __init__(self, parameters=None):
            super().__init__(parameters)
            self.n = 0

        def ports_schema(self):
            return {'agents': {'*': {}}}

        def next_update(self, timestep, states):
            self.n += 1
            if self.n == case['delete_at']:
                return {'agents': {'_generate': [{'key': 'a', 'processes': {'slow': Fast()},
                                                  'topology': {'slow': {'own': ('own',)}}, 'initial_state': {}}]}}
            return {}

    obs = {}
    try:
        agents = {'a': {'slow': Slow()}, 'b': {'slow': Slow()}}      # `b` keeps the glob store populated
        agents_topo = {k: {'slow': {'own': ('own',), 'field': ('..', '..', 'field' if k == 'a' else 'field_b')}}
                       for k in agents}
        parts = [('reaper', Reaper(), {'agents': ('agents',)}), ('agents', agents, agents_topo)]
        if not case['reaper_first']:
            parts.reverse()
        if case.get('regen') or case.get('replace'):
            # applied after the deletion, in the same batch
            parts.append(('regen', Regen(), {'agents': ('agents',)}))
        eng = Engine(processes={n: p for n, p, _ in parts}, topology={n: t for n, _, t in parts},
                     display_info=False, progress_bar=False)
        if case.get('pre_run') and case['delete_at'] < case['slow_ts']:
            # an unforced call that ends when the structural update is applied: the slow process's interval did not
            # fit, it lags behind with a deferred timestep and nothing in flight
            eng.run_for(case['delete_at'])
            eng.update(case['ticks'] - case['delete_at'])
        else:
            eng.update(case['ticks'])       # one call: the slow process really is in flight between its ticks
        vals = []
        for t, row in sorted(eng.emitter.get_data().items()):
            a = ((row.get('agents') or {}).get('a') or {}).get('own') or {}
            vals.append([int(round(t)), row['field']['total'], sorted((row.get('agents') or {}).keys()),
                         a.get('n') if 'fresh' in a else None])
        obs['values'] = vals
    except Exception as e:  # noqa
        obs['raised'] = f'{type(e).__name__}: {str(e)[:200]}'
    return obs


def oracle(case, impl):
    if 'harness_exception' in impl:
        return [f'probe-crashed: {impl["harness_exception"]}']
    if impl.get('timeout'):
        return []
    if impl.get('raised'):
        return [f'engine-raised: {impl["raised"]}']
    for t, total, agents, fresh_n in impl['values']:
        if case.get('replace') and t >= case['delete_at']:
            want = case['delete_at'] // case['slow_ts'] + (t - case['delete_at'])
            if fresh_n != want:
                return [f'fresh-start: the process of the compartment was replaced in place at t={case["delete_at"]} (a '
                        f'`_generate` with the same key); at t={t} the counter (old process: +1 per {case["slow_ts"]}, '
                        f'new one: +1 per time unit from its creation) reads {fresh_n}, expected {want}']
        elif case.get('regen') and t >= case['delete_at']:
            if fresh_n != t - case['delete_at']:
                return [f'fresh-start: a compartment with the same key was generated in the batch of the deletion '
                        f'(t={case["delete_at"]}); at t={t} its process (+1 per time unit) has counted {fresh_n}, '
                        f'expected {t - case["delete_at"]}']
        done = min(t, case['delete_at']) // case['slow_ts']
        if total != case['delta'] * done:
            return [f'frame: the compartment was deleted at t={case["delete_at"]} with an update of its process '
                    f'(timestep {case["slow_ts"]}) in flight; at t={t} the store outside it holds {total}, the '
                    f'intervals that ended before the deletion give {case["delta"] * done}']
        if t >= case['delete_at'] and 'a' in agents and not case.get('regen') and not case.get('replace'):
            return [f'delete: the compartment is still there at t={t}']
    return []
