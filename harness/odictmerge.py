"""Composites whose compartments are dictionary subclasses, merged at several places (scenario family of C16).

A composer collects its agents in `collections.OrderedDict` / `defaultdict` objects.  The composite it generates
is merged into another one at two paths, and further processes are then merged into each embedded copy.  The
merged-in composite is left unchanged, then and later, and the embedded copies share no dictionary with it or with
each other — whatever the type of the dictionaries.

Oracle: the template's five parts before = after; what was merged into one copy is not in the other."""
import itertools

_ids = itertools.count()


def gen_case(rng):
    return {'kind': 'odictmerge', 'agents': rng.choice([['1', '2'], ['1'], ['1', '2', '3']]),
            'types': rng.choice([['ordered', 'default'], ['ordered', 'ordered'], ['plain', 'default'], ['plain', 'plain']]),
            'paths': rng.choice([[['left'], ['right']], [['a', 'b'], ['c']]])}


def corpus():
    return [{'kind': 'odictmerge', 'agents': ['1', '2'], 'types': ['ordered', 'default'], 'paths': [['left'], ['right']]}]


def _plain(d):
    from vivarium.core.process import Process
    if isinstance(d, dict):
        return {k: _plain(v) for k, v in d.items()}
    if isinstance(d, Process):
        return type(d).__name__
    return repr(d) if not isinstance(d, (int, float, str, bool, tuple, list, type(None))) else d


def run_impl(case):
    import collections
    import warnings
    warnings.simplefilter('ignore')
    from vivarium.core.composer import Composer, Composite
    from vivarium.core.process import Process

    class Count(Process):
        defaults = {'rate': 1}

        def ports_schema(self):
            return {'port': {'n': {'_default': 0}}}

        def next_update(self, timestep, states):
            return {'port': {'n': self.parameters['rate']}}

    def mk(kind):
        return {'ordered': collections.OrderedDict, 'default': lambda: collections.defaultdict(dict), 'plain': dict}[kind]()

    class Colony(Composer):
        def generate_processes(self, config):
            agents = mk(case['types'][0])
            for a in case['agents']:
                inner = mk(case['types'][0])
                inner['count'] = Count()
                agents[a] = inner
            return {'agents': agents}

        def generate_topology(self, config):
            agents = mk(case['types'][1])
            for a in case['agents']:
                inner = mk(case['types'][1])
                inner['count'] = {'port': ('store',)}
                agents[a] = inner
            return {'agents': agents}
    obs = {}
    try:
        template = Colony().generate()
        snap = lambda c: {k: _plain(c[k]) for k in ('processes', 'steps', 'flow', 'topology', 'state')}  # noqa: E731
        before = snap(template)
        world = Composite({})
        p0, p1 = tuple(case['paths'][0]), tuple(case['paths'][1])
        world.merge(composite=template, path=p0)
        world.merge(composite=template, path=p1)
        obs['after_merge_same'] = snap(template) == before
        world.merge(processes={'agents': {'new': {'count': Count({'rate': 5})}}},
                    topology={'agents': {'new': {'count': {'port': ('store',)}}}}, path=p0)
        world.merge(processes={'agents': {case['agents'][0]: {'extra': Count({'rate': 7})}}},
                    topology={'agents': {case['agents'][0]: {'extra': {'port': ('store',)}}}}, path=p1)
        obs['later_same'] = snap(template) == before

        def at(d, path):
            for k in path:
                d = d[k]
            return d
        t0 = _plain(at(world.topology, p0))
        t1 = _plain(at(world.topology, p1))
        obs['copies_separate'] = 'new' not in t1['agents'] and 'extra' not in t0['agents'][case['agents'][0]]
        obs['copies_hold'] = 'new' in t0['agents'] and 'extra' in t1['agents'][case['agents'][0]]
    except Exception as e:  # noqa
        obs['raised'] = f'{type(e).__name__}: {str(e)[:200]}'
    return obs


def oracle(case, impl):
    if 'harness_exception' in impl:
        return [f'probe-crashed: {impl["harness_exception"]}']
    if impl.get('timeout'):
        return []
    if impl.get('raised'):
        return [f'merge-raised: {impl["raised"]}']
    what = f'compartments held in {case["types"]} dictionaries, merged at {case["paths"]}'
    if not impl['after_merge_same'] or not impl['later_same']:
        return [f'source-changed: {what}: the merged-in composite differs after the merges '
                f'(at once: {not impl["after_merge_same"]}, after later merges: {not impl["later_same"]})']
    if not impl['copies_separate'] or not impl['copies_hold']:
        return [f'copies-share: {what}: what was merged into one embedded copy shows in the other '
                f'(separate: {impl["copies_separate"]}, each holds its own: {impl["copies_hold"]})']
    return []
