"""Compatible declarations of one variable by several processes, in every listing order (scenario family of
C04 and C15).

A `setter` declares the variable `level` with `_updater: 'set'` and writes 10, 20, 30, … into it; a `reader`
declares it with a bare `_default` (no updater, no divider: it only reads); a `counter` accumulates on another
variable.  Optionally the engine's `store_schema` flags the variable for emission (again without naming an
updater).  The declarations do not conflict, so whichever way the processes are listed the variable keeps the
`set` updater and the emitted trajectory is the same (C04: listing order is moot; C15: compatible declarations
are merged silently)."""
import itertools

_ids = itertools.count()
NAMES = ['setter', 'reader', 'counter']


def gen_case(rng):
    order = NAMES[:]
    rng.shuffle(order)
    return {'kind': 'declorder', 'order': order, 'store_schema': rng.random() < 0.4,
            'ticks': rng.choice([3, 4]), 'depth': rng.choice([0, 1])}


def corpus():
    return [{'kind': 'declorder', 'order': ['setter', 'reader', 'counter'], 'store_schema': False, 'ticks': 4, 'depth': 0},
            {'kind': 'declorder', 'order': ['reader', 'setter', 'counter'], 'store_schema': False, 'ticks': 4, 'depth': 1},
            {'kind': 'declorder', 'order': ['setter', 'counter', 'reader'], 'store_schema': True, 'ticks': 3, 'depth': 0}]


def run_impl(case):
    from vivarium.core.engine import Engine
    from vivarium.core.process import Process
    depth = case.get('depth', 0)

    def nest(leaf):
        return {'inner': leaf} if depth else leaf

    class Setter(Process):
        def __init__(self, parameters=None):
            super().__init__(parameters)
            self.n = 0

        def ports_schema(self):
            return {'s': nest({'level': {'_default': 0, '_updater': 'set', '_emit': True}})}

        def next_update(self, timestep, states):
            self.n += 1
            return {'s': nest({'level': 10 * self.n})}

    class Reader(Process):
        def ports_schema(self):
            return {'s': nest({'level': {'_default': 0}})}

        def next_update(self, timestep, states):
            return {}

    class Counter(Process):
        def ports_schema(self):
            return {'s': nest({'count': {'_default': 0, '_emit': True}})}

        def next_update(self, timestep, states):
            return {'s': nest({'count': 1})}
    obs = {}
    try:
        made = {'setter': Setter(), 'reader': Reader(), 'counter': Counter()}
        procs = {n: made[n] for n in case['order']}
        kw = {}
        if case.get('store_schema'):
            kw['store_schema'] = {'s': nest({'level': {'_emit': True}})}
        eng = Engine(processes=procs, topology={n: {'s': ('s',)} for n in procs}, display_info=False,
                     progress_bar=False, **kw)
        eng.update(case['ticks'])
        rows = []
        for t, row in sorted(eng.emitter.get_data().items()):
            s = row.get('s') or {}
            s = s.get('inner', {}) if depth else s
            rows.append([float(t), s.get('level'), s.get('count')])
        obs['rows'] = rows
    except Exception as e:  # noqa
        obs['raised'] = f'{type(e).__name__}: {str(e)[:200]}'
    return obs


def oracle(case, impl):
    if 'harness_exception' in impl:
        return [f'probe-crashed: {impl["harness_exception"]}']
    if impl.get('timeout'):
        return []
    if impl.get('raised'):
        return [f'compatible-declarations: processes listed {case["order"]} (declarations that do not conflict) '
                f'raised {impl["raised"]}']
    want = [[float(t), 10 * t, t] for t in range(case['ticks'] + 1)]
    if impl['rows'] != want:
        return [f'listing-order: processes listed {case["order"]}' + (' with a store_schema flag' if case.get('store_schema') else '')
                + f': the variable declared `set` by its writer goes {[r[1] for r in impl["rows"]]} (count '
                f'{[r[2] for r in impl["rows"]]}), expected {[r[1] for r in want]} whichever way the processes are listed']
    return []
