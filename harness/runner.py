"""./check <Cxx> [--tier quick|thorough] [--replay file]

One run = (1) regenerate the declarative tables from /repo's AST, (2) build the property's
theorems and audit their axioms, (3) run corpus + generated cases on the real implementation
and on the Lean model's executable definitions and diff, (4) evaluate the property oracle on
the implementation for every case, (5) classify, write evidence, print VIOLATION /
KNOWN-FINDING lines.  Exit 0 = held; 1 = violation; 2 = internal error (never a verdict)."""
import argparse
import importlib
import json
import os
import sys
import time
import traceback

from harness import lib


def _slice_answers(mod, cases, answers):
    out = []
    i = 0
    for c, n in cases:
        out.append(answers[i:i + n])
        i += n
    return out


def _skipped(io):
    return isinstance(io, dict) and io.get('skipped') == 'deadline'


def evaluate(mod, cases, want_model=True):
    """Run implementation and model on the cases. Returns list of result dicts."""
    modname = mod.__name__
    impl = lib.run_impl_cases(modname, cases, per_case_s=getattr(mod, 'CASE_TIMEOUT', 5.0),
                              workers=getattr(mod, 'WORKERS', None))
    # a watchdog timeout is examined once more, alone and with four times the budget, before anything is concluded
    # from it: on a saturated machine (other checks, test suites) millisecond cases have been seen to exceed the
    # per-case wall-clock limit; a case that really hangs times out again and is judged as before
    late = [k for k, io in enumerate(impl) if isinstance(io, dict) and io.get('timeout') and not _skipped(io)]
    if late and len(late) <= 8:
        again = lib.run_impl_cases(modname, [cases[k] for k in late],
                                   per_case_s=4 * getattr(mod, 'CASE_TIMEOUT', 5.0), workers=1)
        for k, io in zip(late, again):
            impl[k] = io
    model = [None] * len(cases)
    model_error = None
    if want_model and getattr(mod, 'DRIVER', None):
        reqs = []
        counts = []
        with_impl = getattr(mod, 'model_requests_impl', None)
        for c, io in zip(cases, impl):
            if _skipped(io):
                counts.append(0)
                continue
            # optional hook: requests that quote observations of the implementation (e.g. the
            # hierarchy after structural updates modelled elsewhere); default: from the case only
            rs = with_impl(c, io) if with_impl else mod.model_requests(c)
            counts.append(len(rs))
            reqs.extend(rs)
        ans = lib.Driver(mod.DRIVER).ask(reqs)
        if isinstance(ans, lib.DriverFailure):
            model_error = f'driver produced {ans.got}/{ans.want} answers: {ans.log[-800:]}'
        else:
            i = 0
            for k, c in enumerate(cases):
                if not _skipped(impl[k]):
                    model[k] = mod.model_obs(c, ans[i:i + counts[k]])
                i += counts[k]
    results = []
    for c, io, mo in zip(cases, impl, model):
        if _skipped(io):
            # not run (the wall-clock limit of the check was reached): nothing to judge
            results.append({'case': c, 'impl': io, 'model': None, 'fails': [], 'mismatch': None})
            continue
        fails = []
        try:
            fails = list(mod.oracle(c, io) or [])
        except Exception as e:  # oracle must be total; a crash here is our bug
            raise lib.InternalError(f'oracle crashed on {lib.canon(c)[:300]}: '
                                    f'{traceback.format_exc()[-1500:]}')
        mismatch = None
        if mo is not None:
            mismatch = mod.compare(c, io, mo)
        results.append({'case': c, 'impl': io, 'model': mo, 'fails': fails,
                        'mismatch': mismatch})
    return results, model_error


def shrink(mod, case, still_bad, budget_s=25.0, max_evals=150):
    """Greedy shrinking with the module's candidate generator."""
    if not hasattr(mod, 'shrink'):
        return case
    t0 = time.time()
    evals = 0
    cur = case
    improved = True
    while improved and time.time() - t0 < budget_s and evals < max_evals:
        improved = False
        for cand in mod.shrink(cur):
            evals += 1
            if evals > max_evals or time.time() - t0 > budget_s:
                break
            try:
                if still_bad(cand):
                    cur = cand
                    improved = True
                    break
            except Exception:
                continue
    return cur


def main(argv=None):
    ap = argparse.ArgumentParser()
    ap.add_argument('prop')
    ap.add_argument('--tier', default='quick', choices=['quick', 'thorough'])
    ap.add_argument('--replay')
    ap.add_argument('--budget', type=int)
    args = ap.parse_args(argv)
    prop = args.prop.upper()
    tier = os.environ.get('VERIF_TIER') or args.tier
    if tier not in ('quick', 'thorough'):
        tier = args.tier
    try:
        seed = int(os.environ.get('VERIF_SEED', '0'))
    except ValueError:
        seed = 0
    try:
        mod = importlib.import_module(f'harness.props.{prop.lower()}')
    except ModuleNotFoundError:
        print(f'no check for {prop}', file=sys.stderr)
        return 2
    try:
        if args.replay:
            return replay(mod, prop, args.replay)
        return run(mod, prop, tier, seed, args.budget)
    except lib.InternalError as e:
        print(f'INTERNAL-ERROR {prop}: {e}', file=sys.stderr)
        return 2
    except Exception:
        print(f'INTERNAL-ERROR {prop}: {traceback.format_exc()}', file=sys.stderr)
        return 2


def replay(mod, prop, path):
    payload = json.load(open(path))
    case = payload.get('case')
    if case is None:
        print(f'replay {path}: no concrete case recorded ({payload.get("kind")}): '
              f'{payload.get("what")}')
        return run(mod, prop, 'quick', payload.get('seed', 0), None)
    results, merr = evaluate(mod, [case])
    r = results[0]
    print(json.dumps({'impl': r['impl'], 'model': r['model'], 'oracle_failures': r['fails'],
                      'mismatch': r['mismatch'], 'model_error': merr}, indent=1, default=str))
    if r['fails'] or r['mismatch']:
        print(f'VIOLATION property={prop} replay={path}')
        return 1
    print('replay: property holds on this case now')
    return 0


def run(mod, prop, tier, seed, budget_override):
    t0 = time.time()
    notes = []
    # ---- (1) translator
    gen_info = None
    try:
        from harness import extract_tables
        gen_info = extract_tables.regenerate()
    except Exception as e:
        notes.append(f'extract_tables failed: {type(e).__name__}: {e}')
        gen_info = {'error': str(e)}

    # ---- (2) build + audit
    targets = list(mod.LEAN_TARGETS) + ['VivDriver', 'VivAudit']
    ok_build, build_log = lib.lake_build(targets)
    theorems = []
    if ok_build:
        theorems = lib.audit(prop)
    src_thms = [t for t in lib.source_theorems(prop)]
    forb = lib.forbidden_tokens()
    bad_axioms = [t for t in theorems if not set(t['axioms']) <= lib.ALLOWED_AXIOMS]
    names = {t['name'] for t in theorems}
    missing = [n for n in getattr(mod, 'REQUIRED_THEOREMS', []) if n not in names]
    obligations = len(theorems) if (ok_build and not missing) else max(
        len(theorems), len(set(src_thms)), len(getattr(mod, 'REQUIRED_THEOREMS', [])))
    discharged = 0 if forb else len([t for t in theorems if t not in bad_axioms])
    proof_problems = []
    if not ok_build:
        proof_problems.append('lake build failed: ' + build_log[-1500:])
    if forb:
        proof_problems.append('forbidden tokens: ' + '; '.join(forb[:5]))
    if bad_axioms:
        proof_problems.append('non-standard axioms: ' + '; '.join(
            f"{t['name']}: {t['axioms']}" for t in bad_axioms[:5]))
    if missing:
        proof_problems.append('required theorems missing: ' + ', '.join(missing))
    if ok_build and not theorems:
        proof_problems.append('no theorems found in namespace')
    leanchecker = None
    if tier == 'thorough' and ok_build:
        mods = [t for t in mod.LEAN_TARGETS if t.startswith('Viv')]
        r = lib._run(['lake', 'env', 'leanchecker'] + mods, timeout=1800)
        leanchecker = {'cmd': 'lake env leanchecker ' + ' '.join(mods), 'rc': r.returncode,
                       'tail': (r.stdout + r.stderr)[-300:]}
        if r.returncode != 0:
            proof_problems.append('leanchecker rejected: ' + leanchecker['tail'])

    # ---- (3) cases
    changed, fp = lib.drift(prop, getattr(mod, 'ANCHORS', []))
    n = budget_override or mod.BUDGET[tier]
    if changed and tier == 'quick' and not budget_override:
        n = min(mod.BUDGET['thorough'], n * getattr(mod, 'DRIFT_FACTOR', 3))
    rng = lib.rng_for(seed, prop, tier)
    corpus = list(mod.corpus())
    generated = list(mod.generate(rng, n, tier))
    cases = corpus + generated
    # the implementation runs of the main pass stop at a wall-clock limit (quick: 10 min, thorough: 90 min;
    # VERIF_DEADLINE_S overrides): what has been run by then is judged
    limit = float(os.environ.get('VERIF_DEADLINE_S') or {'quick': 600, 'thorough': 5400}.get(tier, 600))
    lib.DEADLINE = time.time() + limit
    results, model_error = evaluate(mod, cases)
    lib.DEADLINE = None
    skipped = sum(1 for r in results if isinstance(r['impl'], dict) and r['impl'].get('skipped') == 'deadline')
    if skipped:
        notes.append(f'{skipped} of {len(cases)} cases were not run: the {int(limit)} s limit for the implementation '
                     f'runs was reached')
    if model_error:
        proof_problems.append('model driver failed: ' + model_error)
    # confirm every suspicious case in isolation (fresh worker) before believing it: a watchdog
    # firing on a loaded machine must not become a verdict
    suspicious = [i for i, r in enumerate(results) if r['fails'] or r['mismatch']]
    confirmed_away = 0
    if suspicious:
        # one batch, but every case alone in its own chunk/worker order does not matter here:
        # what matters is a second, independent execution
        idx = suspicious[:60]
        again, _ = evaluate(mod, [results[i]['case'] for i in idx])
        for i, r2 in zip(idx, again):
            if not r2['fails'] and not r2['mismatch']:
                confirmed_away += 1
            results[i] = r2
    if confirmed_away:
        notes.append(f'{confirmed_away} first-pass anomalies did not reproduce in isolation')

    # ---- (4) classify
    known = {e['id']: e for e in lib.load_known(prop)}
    known_seen = {}
    violations = []   # (kind, result, text)
    for r in results:
        for f in r['fails']:
            kid = mod.classify(r['case'], f) if hasattr(mod, 'classify') else None
            if kid and kid in known and known[kid].get('status') == 'known':
                known_seen.setdefault(kid, (r, f))
            else:
                violations.append(('impl-violation', r, f))
        if r['mismatch']:
            kid = r['case'].get('expect_known') if isinstance(r['case'], dict) else None
            violations.append(('correspondence', r, r['mismatch']))

    # a broken proof or correspondence with no oracle failure: search harder on the impl
    search = None
    impl_viol = [v for v in violations if v[0] == 'impl-violation']
    if (proof_problems or any(v[0] == 'correspondence' for v in violations)) and not impl_viol:
        extra_n = min(mod.BUDGET['thorough'], max(4 * n, 400))
        rng2 = lib.rng_for(seed, prop, 'search')
        extra = list(mod.generate(rng2, extra_n, 'thorough'))
        # neighbourhood of the disagreeing cases first
        if hasattr(mod, 'neighbours'):
            for v in violations[:5]:
                extra = list(mod.neighbours(v[1]['case'], rng2)) + extra
        res2, _ = evaluate(mod, extra, want_model=False)
        found = 0
        for r in res2:
            for f in r['fails']:
                kid = mod.classify(r['case'], f) if hasattr(mod, 'classify') else None
                if kid and kid in known and known[kid].get('status') == 'known':
                    known_seen.setdefault(kid, (r, f))
                else:
                    violations.append(('impl-violation', r, f))
                    found += 1
        search = {'extra_cases': len(extra), 'found': found}

    # ---- (5) report
    lines = []
    for kid, (r, f) in known_seen.items():
        lines.append(f"KNOWN-FINDING: property={prop} {kid}: {known[kid].get('text', f)}")
    exit_code = 0
    replay_paths = []
    impl_viol = [v for v in violations if v[0] == 'impl-violation']
    corr_viol = [v for v in violations if v[0] == 'correspondence']
    reported = set()

    def still_bad_factory(kind, text):
        def pred(cand):
            res, _ = evaluate(mod, [cand], want_model=(kind == 'correspondence'))
            rr = res[0]
            if kind == 'impl-violation':
                key = text.split(':')[0]
                same = [f2 for f2 in rr['fails'] if f2.split(':')[0] == key]
                if not same:
                    return False
                if hasattr(mod, 'classify'):
                    k2 = mod.classify(cand, same[0])
                    if k2 and k2 in known and known[k2].get('status') == 'known':
                        return False
                return True
            return bool(rr['mismatch'])
        return pred

    if impl_viol:
        # report distinct failure kinds (first of each), shrunk
        for kind, r, f in impl_viol:
            key = f.split(':')[0]
            if key in reported or len(reported) >= 3:
                continue
            reported.add(key)
            small = shrink(mod, r['case'], still_bad_factory(kind, f))
            res, _ = evaluate(mod, [small])
            rr = res[0]
            if not rr['fails']:
                # not reproducible in isolation after shrinking: keep the original case
                small = r['case']
                rr = r
            payload = {'property': prop, 'kind': 'impl-violation', 'what': (rr['fails'] or [f])[0],
                       'case': small, 'impl': rr['impl'], 'model': rr['model'],
                       'original_case': r['case'] if small is not r['case'] else None,
                       'seed': seed, 'tier': tier,
                       'rerun': f'./check {prop} --replay <this file>'}
            p = lib.write_replay(prop, payload)
            replay_paths.append(p)
            lines.append(f'VIOLATION property={prop} replay={p}')
        exit_code = 1
    elif corr_viol or proof_problems:
        if corr_viol:
            kind, r, f = corr_viol[0]
            small = shrink(mod, r['case'], still_bad_factory(kind, f))
            res, _ = evaluate(mod, [small])
            rr = res[0]
            payload = {'property': prop, 'kind': 'correspondence',
                       'what': f'model/implementation disagreement (correspondence '
                               f'{mod.DRIVER}): {rr["mismatch"] or f}',
                       'case': small, 'impl': rr['impl'], 'model': rr['model'],
                       'seed': seed, 'tier': tier, 'search': search,
                       'rerun': f'./check {prop} --replay <this file>'}
        else:
            payload = {'property': prop, 'kind': 'proof-broken',
                       'what': 'proof obligations no longer check: ' + ' | '.join(proof_problems),
                       'theorems': sorted(names), 'missing': missing, 'case': None,
                       'seed': seed, 'tier': tier, 'search': search}
        p = lib.write_replay(prop, payload)
        replay_paths.append(p)
        lines.append(f'VIOLATION property={prop} replay={p} no-failing-input-found')
        exit_code = 1

    # ---- evidence
    distinct = set()
    nontrivial = 0
    results = [r for r in results if not _skipped(r['impl'])]      # what was not run is not evidence
    for r in results:
        h = lib.case_hash(r['case'])
        if h in distinct:
            continue
        distinct.add(h)
        try:
            if mod.nontrivial(r['case'], r['impl']):
                nontrivial += 1
        except Exception:
            pass
    stats = mod.stats(results) if hasattr(mod, 'stats') else {}
    sample_cases = [{'case': r['case'], 'impl': r['impl']} for r in results[:1] + results[-2:]]
    for s in sample_cases:
        if len(lib.canon(s)) > 3000:
            s['impl'] = lib.canon(s['impl'])[:1500] + '…'
            if len(lib.canon(s['case'])) > 1500:
                s['case'] = lib.canon(s['case'])[:1500] + '…'
    evidence = {
        'property_id': prop,
        'tier': tier,
        'seed': seed,
        'level': 'proof',
        'coverage': {
            'obligations': obligations,
            'discharged': discharged,
            'checker_cmd': f'cd lean && lake build {" ".join(mod.LEAN_TARGETS)} && '
                           f'lake env lean <#audit_ns VivProps.{prop}> (axioms per theorem)'
                           + (' && ' + leanchecker['cmd'] if leanchecker else ''),
            'trusted_base': [
                'Lean 4.33.0 kernel',
                'axioms ⊆ {propext, Classical.choice, Quot.sound} (audited per theorem this run)',
                'hand-written Lean model ~ Python code, as far as the correspondence check sampled it',
                'harness/extract_tables.py (AST → Generated.lean)',
            ] + list(getattr(mod, 'TRUSTED', [])),
            'theorems': [{'name': t['name'], 'axioms': t['axioms'],
                          'statement': t['statement'][:600]} for t in theorems],
            'proof_problems': proof_problems,
            'leanchecker': leanchecker,
            'evaluations': len(results),
            'distinct_nontrivial': nontrivial,
            'rule': getattr(mod, 'RULE', ''),
            'traces_validated_against_impl': len([r for r in results if r['model'] is not None
                                                  and not r['mismatch']]),
            'disagreements_checked': len(corr_viol),
            'corpus_cases': len(corpus),
            'generated_cases': len(generated),
            'input_distribution': stats,
            'source_drift': changed,
            'generated_tables': gen_info,
            'failing_input_search': search,
            'samples': sample_cases,
            'known_findings_seen': sorted(known_seen),
            'exhaustive': False,
        },
        'assumptions': list(getattr(mod, 'ASSUMPTIONS', [])),
        'wall_s': round(time.time() - t0, 2),
        'violations': len(replay_paths),
        'notes': notes,
    }
    lib.write_evidence(prop, evidence)
    for l in lines:
        print(l)
    print(f'{prop} {tier} seed={seed}: obligations={obligations} discharged={discharged} '
          f'cases={len(results)} nontrivial={nontrivial} violations={len(replay_paths)} '
          f'wall={evidence["wall_s"]}s')
    return exit_code


if __name__ == '__main__':
    sys.exit(main())
