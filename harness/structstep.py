"""Structural updates issued by *steps* (shared scenario family of C04, C05, C07).

A step phase in which one step of a layer changes the hierarchy (`_add` / `_delete` of agents)
while its layer-mates make plain updates; a dependent step in a later layer and processes with glob
and whole-subtree ports look at the changed store.  The engine must rebuild the cached views
whenever ANY update of a layer reports `view_expire` (OR over the layer), so that

* (C05) the dependent step sees the effects of its dependencies' updates of this very phase,
* (C07) every viewer's `states` show exactly the current children,
* (C04) all viewers started at one instant see one and the same committed state.

The family is oracle-driven (the hierarchy the real store holds is the reference); the Lean side is
`VivProps.C07.fresh` / `expire_complete` (views are a function of the current tree; every structural
key expires them) and `VivProps.C05.layer_same_view`."""
import itertools

_ids = itertools.count()
CTX = {}


def gen_case(rng):
    names = ['a_spawn', 'm_spawn', 'z_spawn']
    n_plain = rng.choice([1, 1, 2])
    plain = rng.sample(['b_touch', 'n_touch', 'y_touch'], n_plain)
    return {'kind': 'structstep', 'spawner': rng.choice(names), 'plain': plain,
            'delete_every': rng.choice([0, 0, 2, 3]), 'ticks': rng.choice([2, 3, 4]),
            'viewer_ts': rng.choice([1, 1, 2]), 'subvar': rng.random() < 0.5}


def corpus():
    return [
        {'kind': 'structstep', 'spawner': 'a_spawn', 'plain': ['b_touch'], 'delete_every': 0, 'ticks': 3,
         'viewer_ts': 1, 'subvar': False},
        {'kind': 'structstep', 'spawner': 'm_spawn', 'plain': ['b_touch', 'y_touch'], 'delete_every': 2, 'ticks': 4,
         'viewer_ts': 2, 'subvar': True},
    ]


def _classes():
    from vivarium.core.process import Process, Step

    class Spawner(Step):
        """adds one agent per phase (and deletes an old one every `delete_every` phases)"""
        defaults = {'key': None, 'delete_every': 0}

        def __init__(self, parameters=None):
            super().__init__(parameters)
            self.k = 0

        def ports_schema(self):
            return {'agents': {'*': {'v': {'_default': 1, '_emit': True}}}}

        def next_update(self, timestep, states):
            k = self.k
            self.k += 1
            upd = {'_add': [{'key': f'n{k}', 'state': {'v': k}}]}
            de = self.parameters['delete_every']
            if de and k >= de and k % de == 0:
                upd['_delete'] = [f'n{k - de}']
            return {'agents': upd}

    class Toucher(Step):
        defaults = {'key': None}

        def ports_schema(self):
            return {'vars': {'x': {'_default': 0, '_emit': True}}}

        def next_update(self, timestep, states):
            return {'vars': {'x': 1}}

    class Census(Step):
        """depends on the spawner and the touchers; records which agents it is shown"""
        defaults = {'key': None, 'subvar': False}

        def ports_schema(self):
            sub = {'v': {'_default': 1}} if self.parameters['subvar'] else {}
            if not sub:
                sub = {'v': {'_default': 1}}
            return {'agents': {'*': sub}, 'vars': {'x': {'_default': 0}}}

        def next_update(self, timestep, states):
            ctx = CTX.get(self.parameters['key'])
            if ctx is not None:
                ctx['log'].append({'e': 'census', 't': ctx['now'](), 'seen': sorted(states['agents'].keys()),
                                   'x': states['vars']['x'],
                                   'vals': sorted((k, v.get('v')) for k, v in states['agents'].items())})
            return {}

    class Viewer(Process):
        """a process with a glob port; records what it is shown at every callback"""
        defaults = {'key': None, 'ts': 1, 'whole': False}

        def ports_schema(self):
            if self.parameters['whole']:
                return {'agents': '**'}
            return {'agents': {'*': {'v': {'_default': 1}}}}

        def calculate_timestep(self, states):
            self._note('timestep', states)
            return self.parameters['ts']

        def _note(self, where, states):
            ctx = CTX.get(self.parameters['key'])
            if ctx is not None:
                ctx['log'].append({'e': 'view', 'who': self.parameters['name'], 'where': where, 't': ctx['now'](),
                                   'seen': sorted((states.get('agents') or {}).keys())})

        def next_update(self, timestep, states):
            self._note('next_update', states)
            return {}

    return Spawner, Toucher, Census, Viewer


def run_impl(case):
    from vivarium.core.engine import Engine
    from vivarium.core.emitter import Emitter
    from vivarium.core.registry import emitter_registry
    Spawner, Toucher, Census, Viewer = _classes()
    key = f'ss-{next(_ids)}'
    ctx = {'log': [], 'engine': None}
    ctx['now'] = lambda: 0 if ctx['engine'] is None else int(round(ctx['engine'].global_time))
    CTX[key] = ctx

    class SSEmitter(Emitter):
        def emit(self, data):
            c = CTX.get(self.config.get('ctx_key'))
            if c is not None and data['table'] == 'history':
                eng = c['engine']
                actual = None
                if eng is not None:
                    actual = sorted((eng.state.get_value().get('agents') or {}).keys())
                c['log'].append({'e': 'emit', 't': int(round(data['data']['time'])),
                                 'row_agents': sorted((data['data'].get('agents') or {}).keys()),
                                 'actual': actual})
    if emitter_registry.access('verif_ss') is None:
        emitter_registry.register('verif_ss', SSEmitter)
    obs = {'log': ctx['log']}
    try:
        steps = {case['spawner']: Spawner({'key': key, 'delete_every': case['delete_every']}),
                 'census': Census({'key': key, 'subvar': case['subvar']})}
        flow = {case['spawner']: [], 'census': [(case['spawner'],)] + [(p,) for p in case['plain']]}
        topology = {case['spawner']: {'agents': ('agents',)},
                    'census': {'agents': ('agents',), 'vars': ('vars',)}}
        for p in case['plain']:
            steps[p] = Toucher({'key': key})
            flow[p] = []
            topology[p] = {'vars': ('vars',)}
        processes = {'viewer': Viewer({'key': key, 'ts': case['viewer_ts'], 'name': 'viewer'}),
                     'whole': Viewer({'key': key, 'ts': case['viewer_ts'], 'whole': True, 'name': 'whole'}),
                     'clock': Viewer({'key': None, 'ts': 1, 'name': 'clock'})}
        topology['viewer'] = {'agents': ('agents',)}
        topology['whole'] = {'agents': ('agents',)}
        topology['clock'] = {'agents': ('agents',)}
        eng = Engine(processes=processes, steps=steps, flow=flow, topology=topology,
                     emitter={'type': 'verif_ss', 'ctx_key': key}, display_info=False, progress_bar=False)
        ctx['engine'] = eng
        eng.update(case['ticks'])
        obs['agents'] = sorted((eng.state.get_value().get('agents') or {}).keys())
    except Exception as e:  # noqa
        obs['raised'] = f'{type(e).__name__}: {str(e)[:200]}'
    finally:
        CTX.pop(key, None)
    return obs


def oracle(case, impl, who=('census', 'viewer', 'snapshot')):
    """what must be true of the trace, read off the real hierarchy recorded at each emit"""
    fails = []
    if 'harness_exception' in impl:
        return [f'probe-crashed: {impl["harness_exception"]}']
    if impl.get('timeout'):
        return []
    if impl.get('raised'):
        return [f'engine-raised: {impl["raised"]}']
    log = impl.get('log', [])
    actual_at = {}
    for ev in log:
        if ev['e'] == 'emit' and ev.get('actual') is not None:
            actual_at[ev['t']] = ev['actual']
    # the agents that exist after phase number j (the spawner has run j+1 times)
    de = case['delete_every']

    def expected_after(j):
        alive = []
        for k in range(j + 1):
            alive.append(f'n{k}')
            if de and k >= de and k % de == 0 and f'n{k - de}' in alive:
                alive.remove(f'n{k - de}')
        return sorted(alive)
    censuses = [ev for ev in log if ev['e'] == 'census']
    if 'census' in who:
        for j, ev in enumerate(censuses):
            want = expected_after(j)
            if j == 0:
                continue      # the construction phase runs before the engine object exists for the probes
            if ev['seen'] != want:
                fails.append(f'sees-deps: in phase {j} (t={ev["t"]}) the dependent step is shown agents {ev["seen"]}, '
                             f'its dependency has made them {want}')
                break
    if 'viewer' in who or 'snapshot' in who:
        by_t = {}
        for ev in log:
            if ev['e'] == 'view' and ev['who'] in ('viewer', 'whole') and ev['t'] in actual_at:
                by_t.setdefault((ev['t'], ev['where']), {})[ev['who']] = ev['seen']
                if 'viewer' in who and ev['seen'] != actual_at[ev['t']]:
                    fails.append(f'stale-view: at t={ev["t"]} {ev["who"]}.{ev["where"]} is shown agents {ev["seen"]}, '
                                 f'the hierarchy holds {actual_at[ev["t"]]}')
                    break
        if 'snapshot' in who and not fails:
            for (t, where), d in by_t.items():
                if len(d) == 2 and d['viewer'] != d['whole']:
                    fails.append(f'snapshot: at t={t} two processes started together see different states: '
                                 f'{d["viewer"]} vs {d["whole"]}')
                    break
    return fails[:3]
