"""A timeline driven by mixed `run_for()` / `update()` calls, and event values that are used again
(scenario family of C19).

* `lag`: the timeline process (time step 2–3) lags behind the global time after `run_for()` calls in
  which its tick did not fit; a following `update()` cuts the tick short.  The timeline's own clock
  (`global.time`, advanced by the timestep it is handed) must read the simulated time after every
  forced call, so that every event fires at the first tick at which the clock has reached its
  time — exactly once, on time, for all timesteps and run lengths.
* `refeed`: the same value object (an array) is due at several event times, and another process
  accumulates on the variable in between.  Each event sets the variable to the given value."""
import itertools

_ids = itertools.count()


def gen_case(rng):
    if rng.random() < 0.12:
        return {'kind': 'lagclock', 'mode': 'paths', 'runs': rng.choice([2, 3]), 'at': rng.choice([1, 2]),
                'value': rng.choice([7, 0, 50])}
    if rng.random() < 0.2:
        times = rng.sample([1, 2, 3, 4, 5, 6], 4)
        return {'kind': 'lagclock', 'mode': 'simulate', 'times': times, 'ts': rng.choice([1.0, 1.0, 2.0])}
    if rng.random() < 0.25:
        t1, t2 = sorted(rng.sample([1, 2, 3, 4, 5], 2))
        return {'kind': 'lagclock', 'mode': 'respec', 'times': [t1, t2], 'reversed': rng.random() < 0.5,
                'levels': [rng.choice([50, 7]), 0], 'total': t2 + 3}
    if rng.random() < 0.5:
        return {'kind': 'lagclock', 'mode': 'lag', 'ts': rng.choice([2.5, 2.0, 3.0]),
                'calls': [[rng.choice([1.0, 1.5, 0.5]), False] for _ in range(rng.choice([2, 3]))] +
                         [[rng.choice([1.5, 2.0]), True], [rng.choice([4.0, 6.0]), True]],
                'events': sorted(rng.sample([1.0, 2.2, 4.2, 5.0, 6.4, 7.1], 3))}
    return {'kind': 'lagclock', 'mode': 'refeed', 'ts': rng.choice([1.0, 2.0]), 'total': 10,
            'feeds': sorted(rng.sample([2, 4, 5, 7, 8], 3))}


def corpus():
    return [{'kind': 'lagclock', 'mode': 'lag', 'ts': 2.5,
             'calls': [[1.0, False], [1.0, False], [1.0, False], [1.5, True], [6.0, True]], 'events': [1.0, 4.2, 6.4]},
            {'kind': 'lagclock', 'mode': 'refeed', 'ts': 1.0, 'total': 10, 'feeds': [2, 5, 8]},
            # one timeline specification (dictionary values holding dictionaries) used for two simulations in a row,
            # the variable being changed in place in between
            {'kind': 'lagclock', 'mode': 'respec', 'times': [1, 4], 'reversed': True, 'levels': [50, 0], 'total': 7},
            # a timeline handed to the composition helper simulate_process(), its events listed out of order: the
            # run lasts until the latest event time whatever the listing order
            {'kind': 'lagclock', 'mode': 'simulate', 'times': [6, 1, 4, 2], 'ts': 1.0},
            # one `paths` dictionary (where the timeline's event ports are wired) used for several simulations
            {'kind': 'lagclock', 'mode': 'paths', 'runs': 2, 'at': 1, 'value': 7}]


def run_impl(case):
    from vivarium.core.engine import Engine
    from vivarium.core.process import Process
    from vivarium.processes.timeline import TimelineProcess
    obs = {}
    try:
        if case['mode'] == 'lag':
            timeline = [(t, {('vars', f'e{i}'): i + 1}) for i, t in enumerate(case['events'])]
            tp = TimelineProcess({'timeline': timeline, 'time_step': case['ts']})
            n_ev = len(case['events'])

            class Holder(Process):
                """declares the variables the events set"""
                def ports_schema(self):
                    return {'vars': {f'e{i}': {'_default': 0, '_emit': True} for i in range(n_ev)}}

                def calculate_timestep(self, states):
                    return 50.0

                def next_update(self, timestep, states):
                    return {}

            eng = Engine(processes={'timeline': tp, 'holder': Holder()},
                         topology={'timeline': {p: (p,) for p in tp.ports()}, 'holder': {'vars': ('vars',)}},
                         emitter={'type': 'null'}, display_info=False, progress_bar=False)
            clocks = []
            for iv, forced in case['calls']:
                if forced:
                    eng.update(iv)
                else:
                    eng.run_for(iv)
                st = eng.state.get_value()
                clocks.append([forced, float(eng.global_time), float(st['global']['time']),
                               {k: v for k, v in st['vars'].items()}])
            obs['clocks'] = clocks
        elif case['mode'] == 'simulate':
            import warnings
            with warnings.catch_warnings():
                warnings.simplefilter('ignore')
                from vivarium.core.composition import simulate_process
            times = case['times']

            class Box(Process):
                defaults = {'time_step': 1.0}

                def ports_schema(self):
                    return {'box': {f'v{i}': {'_default': 0, '_updater': 'set', '_emit': True}
                                    for i in range(len(times))}}

                def next_update(self, timestep, states):
                    return {}
            events = [(t, {('box', f'v{i}'): 10 + i}) for i, t in enumerate(times)]
            with warnings.catch_warnings():
                warnings.simplefilter('ignore')
                out = simulate_process(Box(), {'timeline': {'timeline': events, 'time_step': case['ts']},
                                               'display_info': False, 'progress_bar': False})
            obs['time'] = [float(t) for t in out['time']]
            obs['final'] = {k: v[-1] for k, v in out['box'].items()}
        elif case['mode'] == 'paths':
            import copy
            import warnings
            with warnings.catch_warnings():
                warnings.simplefilter('ignore')
                from vivarium.core.composition import simulate_process

            class Two(Process):
                defaults = {'time_step': 1.0}

                def ports_schema(self):
                    return {'box': {'v': {'_default': -1, '_updater': 'set', '_emit': True}},
                            'inner': {'v': {'_default': -2, '_updater': 'set', '_emit': True}}}

                def next_update(self, timestep, states):
                    return {}
            paths = {'box': ('cell', 'box')}
            given = copy.deepcopy(paths)
            runs = []
            for _ in range(case['runs']):
                with warnings.catch_warnings():
                    warnings.simplefilter('ignore')
                    out = simulate_process(Two(), {
                        'timeline': {'timeline': [(case['at'], {('box', 'v'): case['value']}), (case['at'] + 2, {})],
                                     'paths': paths},
                        'topology': {'box': ('box',), 'inner': ('cell', 'box')},
                        'display_info': False, 'progress_bar': False})
                runs.append({'outer': out['box']['v'][-1], 'routed': out['cell']['box']['v'][-1]})
            obs['runs'] = runs
            obs['paths_kept'] = paths == given
        elif case['mode'] == 'respec':
            import copy

            class Tuner(Process):
                """config['mode']['level'] += 1 per tick, through the in-place updater for dictionaries"""
                def ports_schema(self):
                    return {'cell': {'config': {'_default': {'mode': {'level': 0}, 'tag': 'initial'},
                                                '_updater': 'dict_value', '_emit': True}}}

                def calculate_timestep(self, states):
                    return 1.0

                def next_update(self, timestep, states):
                    return {'cell': {'config': {'mode': {'level': states['cell']['config']['mode']['level'] + 1}}}}
            events = [(t, {('cell', 'config'): {'mode': {'level': lv}, 'tag': f'ev{i}'}})
                      for i, (t, lv) in enumerate(zip(case['times'], case['levels']))]
            if case['reversed']:
                events.reverse()
            given = copy.deepcopy(events)
            runs = []
            for _ in range(2):
                tp = TimelineProcess({'time_step': 1.0, 'timeline': events})
                eng = Engine(processes={'tuner': Tuner(), 'timeline': tp},
                             topology={'tuner': {'cell': ('cell',)}, 'timeline': {p: (p,) for p in tp.ports()}},
                             display_info=False, progress_bar=False)
                eng.update(case['total'])
                data = eng.emitter.get_data()
                runs.append([[float(t), data[t]['cell']['config']] for t in sorted(data)])
            obs['runs'] = runs
            obs['spec_intact'] = events == given
        else:
            from vivarium.library.schema import array_from
            import numpy as np
            FEED = np.array([10.0, 5.0])
            timeline = [(t, {('medium', 'nutrients'): FEED}) for t in case['feeds']]     # the same object each time
            tp = TimelineProcess({'timeline': timeline, 'time_step': case['ts']})

            class Consumer(Process):
                def ports_schema(self):
                    return {'medium': {'nutrients': {'_default': np.array([10.0, 5.0]), '_emit': True}}}

                def calculate_timestep(self, states):
                    return case['ts']

                def next_update(self, timestep, states):
                    return {'medium': {'nutrients': np.array([-1.0, -0.5]) * timestep}}

            eng = Engine(processes={'consumer': Consumer(), 'timeline': tp},
                         topology={'consumer': {'medium': ('medium',)},
                                   'timeline': {p: (p,) for p in tp.ports()}},
                         display_info=False, progress_bar=False)
            eng.update(case['total'])
            rows = []
            for t, row in sorted(eng.emitter.get_data().items()):
                v = row['medium']['nutrients']
                rows.append([float(t), [float(x) for x in v]])
            obs['rows'] = rows
            obs['feed_intact'] = [float(x) for x in FEED] == [10.0, 5.0]
    except Exception as e:  # noqa
        obs['raised'] = f'{type(e).__name__}: {str(e)[:200]}'
    return obs


def oracle(case, impl):
    if 'harness_exception' in impl:
        return [f'probe-crashed: {impl["harness_exception"]}']
    if impl.get('timeout'):
        return []
    if impl.get('raised'):
        return [f'engine-raised: {impl["raised"]}']
    if case['mode'] == 'lag':
        for forced, gt, clock, vars_ in impl['clocks']:
            if forced and abs(clock - gt) > 1e-9:
                return [f'on-time: after update() to t={gt} the timeline has been simulated up to t={gt} but its clock '
                        f'reads {clock}: the timesteps it was handed do not add up to the time it covered, later '
                        f'events fire late']
        # when everything is over, every event whose time the clock had reached at the start of a tick has fired
        forced, gt, clock, vars_ = impl['clocks'][-1]
        for i, t in enumerate(case['events']):
            if t <= gt - case['ts'] and vars_.get(f'e{i}') != i + 1:
                return [f'fire-once: the event at {t} has not fired by t={gt} (variable e{i} = {vars_.get(f"e{i}")})']
        return []
    if case['mode'] == 'paths':
        want = {'outer': -1, 'routed': case['value']}
        for i, r in enumerate(impl['runs']):
            if r != want:
                return [f'event-paths: simulation {i + 1} with the same `paths` dictionary (the event port routed to '
                        f'cell/box): the routed variable ends at {r["routed"]}, the one at the default place at '
                        f'{r["outer"]}; the event writes {case["value"]} to the routed one']
        if not impl['paths_kept']:
            return ['event-paths: the caller\'s `paths` dictionary was modified']
        return []
    if case['mode'] == 'simulate':
        last = float(max(case['times']))
        if not impl['time'] or impl['time'][-1] != last:
            return [f'run-length: events at {case["times"]} (in this listing order) handed to simulate_process(): the '
                    f'run ends at {impl["time"][-1] if impl["time"] else None}, the latest event time is {last}']
        # every event whose tick started before the end of the run has fired (an event due at t is applied at the
        # end of the tick that starts at the first tick boundary >= t)
        ts = case['ts']
        for i, t in enumerate(case['times']):
            start = t if (t / ts) == int(t / ts) else (int(t / ts) + 1) * ts
            if start + ts <= last and impl['final'].get(f'v{i}') != 10 + i:
                return [f'fire-once: the event at {t} (listing position {i}) has not fired by the end of the run at '
                        f'{last}: v{i} = {impl["final"].get(f"v{i}")}']
        return []
    if case['mode'] == 'respec':
        # the tuner (listed first) adds one per tick; an event due at t is applied at the end of the tick starting at t
        want = []
        config = {'mode': {'level': 0}, 'tag': 'initial'}
        evs = sorted(zip(case['times'], case['levels'], range(2)))
        want.append([0.0, {'mode': {'level': 0}, 'tag': 'initial'}])
        for start in range(case['total']):
            config = {'mode': {'level': config['mode']['level'] + 1}, 'tag': config['tag']}
            for t, lv, i in evs:
                if t == start:
                    config = {'mode': {'level': lv}, 'tag': f'ev{i}'}
            want.append([float(start + 1), config])
        for n, run in enumerate(impl['runs']):
            if run != want:
                bad = next((a, b) for a, b in zip(run, want) if a != b)
                return [f'sets-given-value: simulation {n + 1} built from the timeline: row {bad[0]}, the events give '
                        f'{bad[1]}']
        if not impl['spec_intact']:
            return ['sets-given-value: the event values handed to TimelineProcess were modified by the simulation']
        return []
    # refeed: an event due at time f is applied at the end of the tick that starts at the first tick boundary >= f
    ts = case['ts']
    rows = dict((t, v) for t, v in impl['rows'])
    for f in case['feeds']:
        start = f if (f / ts) == int(f / ts) else (int(f / ts) + 1) * ts
        applied = start + ts
        if applied in rows and rows[applied] != [10.0, 5.0]:
            return [f'sets-given-value: the event at {f} sets the nutrients to [10.0, 5.0]; the row at {applied} '
                    f'holds {rows[applied]}']
    if not impl['feed_intact']:
        return ['sets-given-value: the value object of the events was modified']
    return []
