"""Attach an oracle-driven scenario family (no Lean model run; the family's reference is the real
hierarchy itself) to a property module: cases of kind `family.KIND`-like are dispatched to the
family, everything else to the module's own functions."""


def add_family(g, family, kind, oracle, share=0.12, nontrivial=True):
    old = {k: g.get(k) for k in ('generate', 'corpus', 'run_impl', 'model_requests', 'model_requests_impl',
                                 'model_obs', 'compare', 'oracle', 'nontrivial', 'classify', 'shrink', 'stats')}

    def is_mine(case):
        return isinstance(case, dict) and case.get('kind') == kind

    def generate(rng, n, tier):
        k = max(2, int(n * share))
        return list(old['generate'](rng, n, tier)) + [family.gen_case(rng) for _ in range(k)]

    def corpus():
        return list(old['corpus']()) + list(family.corpus())

    def run_impl(case):
        return family.run_impl(case) if is_mine(case) else old['run_impl'](case)

    def model_requests(case):
        return [] if is_mine(case) else old['model_requests'](case)

    def model_obs(case, ans):
        return {'family': kind} if is_mine(case) else old['model_obs'](case, ans)

    def compare(case, impl, model):
        return None if is_mine(case) else old['compare'](case, impl, model)

    def _oracle(case, impl):
        return oracle(case, impl) if is_mine(case) else old['oracle'](case, impl)

    def _nontrivial(case, impl):
        return nontrivial if is_mine(case) else old['nontrivial'](case, impl)

    def classify(case, failure):
        if is_mine(case):
            return family.classify(case, failure) if hasattr(family, 'classify') else None
        return old['classify'](case, failure) if old['classify'] else None

    def shrink(case):
        if is_mine(case) or not old['shrink']:
            return iter(())
        return old['shrink'](case)

    def stats(results):
        mine = [r for r in results if is_mine(r['case'])]
        rest = [r for r in results if not is_mine(r['case'])]
        out = old['stats'](rest) if old['stats'] else {}
        out[f'family:{kind}'] = len(mine)
        return out

    g.update(generate=generate, corpus=corpus, run_impl=run_impl, model_requests=model_requests,
             model_obs=model_obs, compare=compare, oracle=_oracle, nontrivial=_nontrivial, classify=classify,
             shrink=shrink, stats=stats)
    if old['model_requests_impl']:
        def model_requests_impl(case, impl):
            return [] if is_mine(case) else old['model_requests_impl'](case, impl)
        g['model_requests_impl'] = model_requests_impl
