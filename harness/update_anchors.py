"""Recompute harness/anchors.json (normalised-AST fingerprints of the modelled functions) from
/repo as it is now.  Run by hand on the unchanged tree and commit the result."""
import glob
import importlib
import json
import os

from harness import lib

out = {}
for f in sorted(glob.glob(os.path.join(lib.VERIF, 'harness', 'props', 'c*.py'))):
    name = os.path.basename(f)[:-3]
    mod = importlib.import_module(f'harness.props.{name}')
    out[mod.PROP] = lib.fingerprints(getattr(mod, 'ANCHORS', []))
    missing = [k for k, v in out[mod.PROP].items() if v == 'missing']
    if missing:
        print('WARNING missing anchors', mod.PROP, missing)
json.dump(out, open(os.path.join(lib.VERIF, 'harness', 'anchors.json'), 'w'), indent=1, sort_keys=True)
print('anchors written for', sorted(out))
