"""Histories with quantities (scenario family of C18).

The rows emitted to a `RAMEmitter` hold quantities: scalars, lists of quantities, heterogeneous records
that start with a plain number and hold a quantity (or a nested list / dictionary with quantities)
further on.  The deserialized data, the embedded timeseries, the path timeseries and the queried forms
must list, for every variable, the values that were emitted — cell by cell, aligned with the time vector
(C18: "whatever those values are", "any value types including falsy values and quantities").

Oracle: every cell read back equals the emitted value (quantities compared by magnitude and units)."""
import itertools

_ids = itertools.count()
UNITS = ['fg', 'um', 'mmol / L']


def _gen_template(rng, depth=0, top=True):
    """the shape of a variable: fixed over the history (units included); only numbers change from row to row"""
    r = rng.random()
    if r < 0.2:
        return ['Q', rng.choice(UNITS)]
    if r < 0.3 and not top:
        return ['P']                                    # a plain value
    if r < 0.45:
        return ['L', [['Q', rng.choice(UNITS)] for _ in range(rng.randrange(1, 4))]]
    if r < 0.85 and depth < 2:
        # a record: a plain number (or falsy value) first, quantities and nested containers later
        return ['L', [['P']] + [_gen_template(rng, depth + 1, False) for _ in range(rng.randrange(1, 4))]]
    if depth < 2 and not top:
        return ['D', {k: _gen_template(rng, depth + 1, False)
                      for k in rng.sample(['p', 'q', 'r'], rng.randrange(1, 3))}]
    return ['Q', rng.choice(UNITS)]


def _fill(rng, tpl):
    if tpl[0] == 'Q':
        return ['Q', rng.choice([0, 1, 2.5, -3, 1000]), tpl[1]]
    if tpl[0] == 'P':
        return rng.choice([0, 1, 3, 0.0, 2.5, False, True, 'X', '', None])
    if tpl[0] == 'L':
        return ['L', [_fill(rng, x) for x in tpl[1]]]
    return ['D', {k: _fill(rng, x) for k, x in tpl[1].items()}]


def gen_case(rng):
    names = rng.sample(['a', 'b', 'c', 'd'], rng.choice([1, 2, 3]))
    nested = rng.random() < 0.5
    tpls = {n: _gen_template(rng) for n in names}
    rows = [{n: _fill(rng, tpls[n]) for n in names} for _ in range(rng.choice([2, 3, 4]))]
    shared = rng.random() < 0.25
    return {'kind': 'qviews', 'names': names, 'nested': nested or shared, 'rows': rows,
            'query': rng.sample(names, rng.randrange(1, len(names) + 1)), 'shared': shared}


def corpus():
    return [
        # two `shared_ram` emitters (one table for all instances): what either emitted is in the history both return
        {'kind': 'qviews', 'names': ['a', 'b'], 'nested': True, 'query': ['a'], 'shared': True,
         'rows': [{'a': ['Q', 1, 'fg'], 'b': 0}, {'a': ['Q', 2, 'fg'], 'b': False}]},
        {'kind': 'qviews', 'names': ['a'], 'nested': False, 'query': ['a'],
         'rows': [{'a': ['L', [2, ['Q', 1.5, 'fg'], ['L', [['Q', 2, 'um'], ['Q', 1, 'um']]]]]},
                  {'a': ['L', [0, ['Q', 2.5, 'fg'], ['L', [['Q', 3, 'um'], ['Q', 1, 'um']]]]]}]},
        {'kind': 'qviews', 'names': ['a', 'b'], 'nested': True, 'query': ['b'],
         'rows': [{'a': ['Q', 0, 'fg'], 'b': ['L', [False, ['D', {'p': ['Q', 1, 'um']}]]]},
                  {'a': ['Q', 1, 'fg'], 'b': ['L', [0.0, ['D', {'p': ['Q', 2, 'um']}]]]}]},
    ]


def _dec(v):
    from vivarium.library.units import units
    if isinstance(v, list) and v and v[0] == 'Q':
        return v[1] * units(v[2])
    if isinstance(v, list) and v and v[0] == 'L':
        return [_dec(x) for x in v[1]]
    if isinstance(v, list) and v and v[0] == 'D':
        return {k: _dec(x) for k, x in v[1].items()}
    return v


def _enc(v):
    """canonical, comparable form of a value read back"""
    try:
        from pint import Quantity as PQ
    except Exception:  # noqa
        PQ = ()
    if hasattr(v, 'magnitude') and hasattr(v, 'units'):
        return ['Q', float(v.magnitude), str(v.units)]
    if isinstance(v, (list, tuple)):
        return ['L', [_enc(x) for x in v]]
    if isinstance(v, dict):
        return ['D', {k: _enc(x) for k, x in sorted(v.items())}]
    if isinstance(v, bool) or v is None or isinstance(v, str):
        return v
    if isinstance(v, (int, float)):
        return float(v)
    return repr(v)


def _want(v):
    return _enc(_dec(v))


def run_impl(case):
    import warnings
    warnings.simplefilter('ignore')
    import copy
    from vivarium.core.emitter import RAMEmitter, SharedRamEmitter
    obs = {}
    try:
        other = None
        if case.get('shared'):
            SharedRamEmitter.saved_data.clear()
            em = SharedRamEmitter({})
            other = SharedRamEmitter({'embed_path': ('elsewhere',)})
        else:
            em = RAMEmitter({})
        for t, row in enumerate(case['rows']):
            data = {n: _dec(v) for n, v in row.items()}
            if case['nested']:
                data = {'cell': data}
            data['time'] = float(t)
            em.emit({'table': 'history', 'data': data})
            if data.get('time') != float(t):
                obs['emit_arg_changed'] = sorted(data)
            if other is not None:
                other.emit({'table': 'history', 'data': {'time': float(t), 'marker': t}})
        if other is not None:
            # the second instance returns the one shared history: the first one's variables and its own
            both = other.get_data()
            obs['shared_ok'] = all(('elsewhere' in r and r['elsewhere'].get('marker') == int(t)
                                    and any(k != 'elsewhere' for k in r)) for t, r in both.items()) \
                and len(both) == len(case['rows'])
        raw_before = repr(sorted(copy.deepcopy(em.get_data()).items()))
        pre = ('cell',) if case['nested'] else ()

        def sub(d):
            for k in pre:
                d = d[k]
            return d
        des = em.get_data_deserialized()
        obs['deserialized'] = [[t, {n: _enc(v) for n, v in sub(r).items() if n != 'elsewhere'}]
                               for t, r in sorted(des.items())]
        def col_key(k):
            # a column of scalar quantities is keyed (name, units) and holds the magnitudes
            return f'{k[0]} [{k[1]}]' if isinstance(k, tuple) else k
        ts = em.get_timeseries()
        obs['timeseries'] = {'time': list(ts['time']), 'vars': {col_key(n): [_enc(v) for v in col]
                                                                  for n, col in sub(ts).items() if n != 'time'}}
        pts = em.get_path_timeseries()
        obs['path_timeseries'] = {'time': list(pts['time']),
                                  'vars': {col_key(p[-1]): [_enc(v) for v in col]
                                           for p, col in pts.items() if p != 'time' and p[0] != 'elsewhere'}}
        q = [pre + (n,) for n in case['query']]
        qd = em.get_data_deserialized(q)
        obs['query'] = [[t, {n: _enc(v) for n, v in sub(r).items()}] for t, r in sorted(qd.items())]
        qts = em.get_timeseries(q)
        obs['query_timeseries'] = {'time': list(qts['time']),
                                   'vars': {col_key(n): [_enc(v) for v in col]
                                            for n, col in sub(qts).items() if n != 'time'}}
        # reading the views leaves the saved history as it was emitted
        obs['raw_stable'] = repr(sorted(em.get_data().items())) == raw_before
    except Exception as e:  # noqa
        obs['raised'] = f'{type(e).__name__}: {str(e)[:200]}'
    finally:
        if case.get('shared'):
            try:
                SharedRamEmitter.saved_data.clear()
            except Exception:  # noqa
                pass
    return obs


def oracle(case, impl):
    if 'harness_exception' in impl:
        return [f'probe-crashed: {impl["harness_exception"]}']
    if impl.get('timeout'):
        return []
    if impl.get('raised'):
        return [f'views-raised: {impl["raised"]}']
    rows = case['rows']
    times = [float(t) for t in range(len(rows))]
    want_rows = [[t, {n: _want(v) for n, v in r.items()}] for t, r in zip(times, rows)]
    want_cols, col_of = {}, {}
    for n in case['names']:
        col = [_want(r[n]) for r in rows]
        if all(isinstance(c, list) and c[0] == 'Q' for c in col):
            # scalar quantities: the series is keyed (name, units) and holds the magnitudes
            col_of[n] = f'{n} [{col[0][2]}]'
            want_cols[col_of[n]] = [c[1] for c in col]
        else:
            col_of[n] = n
            want_cols[n] = col
    qn = case['query']
    fails = []
    if impl.get('shared_ok') is False:
        fails.append('shared-history: a second `shared_ram` emitter does not return what the first one emitted (the '
                     'instances share one table)')
    if 'emit_arg_changed' in impl:
        fails.append(f'emit-argument: emit() changed the dictionary it was handed (keys left: {impl["emit_arg_changed"]})')
    if impl.get('raw_stable') is False:
        fails.append('raw-data-changed: get_data() differs after the deserialized / timeseries views were read')
    if impl['deserialized'] != want_rows:
        fails.append(f'deserialized: get_data_deserialized() = {str(impl["deserialized"])[:300]}, emitted '
                     f'{str(want_rows)[:300]}')
    for name in ('timeseries', 'path_timeseries'):
        got = impl[name]
        if got['time'] != times or got['vars'] != want_cols:
            fails.append(f'{name}: columns {str(got["vars"])[:300]} over times {got["time"]}; emitted '
                         f'{str(want_cols)[:300]}')
    if impl['query'] != [[t, {n: v for n, v in r.items() if n in qn}] for t, r in want_rows]:
        fails.append(f'query: get_data_deserialized({qn}) = {str(impl["query"])[:300]}')
    got = impl['query_timeseries']
    if got['time'] != times or got['vars'] != {col_of[n]: want_cols[col_of[n]] for n in qn}:
        fails.append(f'query-timeseries: get_timeseries({qn}) = {str(got["vars"])[:300]}')
    return fails[:3]
