"""Reading and writing the same node while the hierarchy changes (scenario family of C06; the
structural side of it is C07's).

A port reads through the cached view of its process and writes by path.  Both must reach the same
node of the *current* hierarchy, also right after another process or an earlier step layer deleted,
replaced or re-created that node:

* mode `process`: a `reaper` process deletes cell `a` (a lone `_delete`, no other structural change
  in that batch); a `census` process with a glob port over the cells records what it reads and adds
  1 to the mass of every cell it was shown.
* mode `steps`: three steps in three dependency layers — `reaper` deletes cell `a` in phase k,
  `seeder` (depends on it) re-creates `a` with mass 100 in the same phase, `feeder` (depends on
  `seeder`) records what it reads and adds 1 to every cell it was shown.

Oracle: whatever a reader is shown at time t is exactly what the hierarchy holds at that moment
(cells and masses — it never reads a detached node), and the row after its update shows every cell
it was shown, that still exists, with `mass read + 1` (the write reached the node that was read)."""
import itertools

_ids = itertools.count()
CTX = {}


def gen_case(rng):
    if rng.random() < 0.25:
        return {'kind': 'samenode', 'mode': 'addwrite', 'k': rng.choice([1, 2, 3]), 'ticks': 4,
                'state': rng.choice([7, 0, 30]), 'delta': rng.choice([1, 5]), 'two_ports': rng.random() < 0.5}
    return {'kind': 'samenode', 'mode': rng.choice(['process', 'steps']), 'k': rng.choice([1, 2, 3]),
            'ticks': rng.choice([4, 5]), 'masses': {'a': rng.choice([3, 7]), 'b': rng.choice([10, 20])},
            'reader_ts': rng.choice([1, 1, 2]), 'depth': rng.choice([0, 0, 2])}


def corpus():
    return [
        # one update adds a child and carries a value for it (through the same port, or through a second port wired
        # to the same store): the child starts from its state and the value is applied to it
        {'kind': 'samenode', 'mode': 'addwrite', 'k': 2, 'ticks': 4, 'state': 7, 'delta': 1, 'two_ports': False},
        {'kind': 'samenode', 'mode': 'addwrite', 'k': 1, 'ticks': 3, 'state': 0, 'delta': 5, 'two_ports': True},
        {'kind': 'samenode', 'mode': 'process', 'k': 2, 'ticks': 5, 'masses': {'a': 7, 'b': 20}, 'reader_ts': 1,
         'depth': 0},
        {'kind': 'samenode', 'mode': 'steps', 'k': 2, 'ticks': 4, 'masses': {'a': 7, 'b': 20}, 'reader_ts': 1,
         'depth': 0},
        {'kind': 'samenode', 'mode': 'process', 'k': 1, 'ticks': 4, 'masses': {'a': 3, 'b': 10}, 'reader_ts': 2,
         'depth': 2},
    ]


def _classes():
    from vivarium.core.process import Process, Step

    def cells_schema():
        return {'cells': {'*': {'mass': {'_default': 0, '_emit': True}}}}

    def note(self, states):
        ctx = CTX.get(self.parameters['key'])
        seen = {k: v['mass'] for k, v in states['cells'].items()}
        if ctx is not None:
            eng = ctx['engine']
            actual = None
            if eng is not None:
                cells = eng.state.get_value().get('cells') or {}
                actual = {k: v.get('mass') for k, v in cells.items()}
            ctx['log'].append({'e': 'read', 'who': self.parameters['name'], 't': ctx['now'](), 'seen': seen,
                               'actual': actual})
        return seen

    class ReaperP(Process):
        defaults = {'key': None, 'k': 1, 'name': 'reaper'}

        def __init__(self, parameters=None):
            super().__init__(parameters)
            self.n = 0

        def ports_schema(self):
            return cells_schema()

        def next_update(self, timestep, states):
            self.n += 1
            if self.n == self.parameters['k'] and 'a' in states['cells']:
                return {'cells': {'_delete': ['a']}}
            return {}

    class Census(Process):
        defaults = {'key': None, 'ts': 1, 'name': 'census'}

        def ports_schema(self):
            return cells_schema()

        def calculate_timestep(self, states):
            return self.parameters['ts']

        def next_update(self, timestep, states):
            seen = note(self, states)
            return {'cells': {k: {'mass': 1} for k in seen}}

    class Clock(Process):
        defaults = {'key': None, 'name': 'clock'}

        def ports_schema(self):
            return {'t': {'n': {'_default': 0}}}

        def next_update(self, timestep, states):
            return {'t': {'n': 1}}

    class ReaperS(Step):
        defaults = {'key': None, 'k': 1, 'name': 'reaper'}

        def __init__(self, parameters=None):
            super().__init__(parameters)
            self.n = 0

        def ports_schema(self):
            return cells_schema()

        def next_update(self, timestep, states):
            self.n += 1
            if self.n == self.parameters['k'] + 1 and 'a' in states['cells']:
                return {'cells': {'_delete': ['a']}}
            return {}

    class Seeder(Step):
        defaults = {'key': None, 'k': 1, 'name': 'seeder'}

        def __init__(self, parameters=None):
            super().__init__(parameters)
            self.n = 0

        def ports_schema(self):
            return cells_schema()

        def next_update(self, timestep, states):
            self.n += 1
            if self.n == self.parameters['k'] + 1:
                return {'cells': {'_add': [{'key': 'a', 'state': {'mass': 100}}]}}
            return {}

    class Feeder(Step):
        defaults = {'key': None, 'name': 'feeder'}

        def ports_schema(self):
            return cells_schema()

        def next_update(self, timestep, states):
            seen = note(self, states)
            return {'cells': {k: {'mass': 1} for k in seen}}

    return ReaperP, Census, Clock, ReaperS, Seeder, Feeder


def _run_addwrite(case):
    from vivarium.core.engine import Engine
    from vivarium.core.process import Process

    class Adder(Process):
        def __init__(self, parameters=None):
            super().__init__(parameters)
            self.n = 0

        def ports_schema(self):
            sch = {'cells': {'*': {'mass': {'_default': 0, '_emit': True}}}}
            if case['two_ports']:
                sch['again'] = {'*': {'mass': {'_default': 0, '_emit': True}}}
            return sch

        def next_update(self, timestep, states):
            self.n += 1
            if self.n != case['k']:
                return {}
            add = {'_add': [{'key': 'n', 'state': {'mass': case['state']}}]}
            write = {'n': {'mass': case['delta']}, 'b': {'mass': case['delta']}}
            if case['two_ports']:
                return {'cells': add, 'again': write}
            return {'cells': dict(add, **write)}
    obs = {}
    try:
        topo = {'cells': ('cells',)}
        if case['two_ports']:
            topo['again'] = ('cells',)
        eng = Engine(processes={'adder': Adder()}, topology={'adder': topo},
                     initial_state={'cells': {'b': {'mass': 10}}}, display_info=False, progress_bar=False)
        eng.update(case['ticks'])
        obs['rows'] = [[int(round(t)), {k: v.get('mass') for k, v in (r.get('cells') or {}).items()}]
                       for t, r in sorted(eng.emitter.get_data().items())]
    except Exception as e:  # noqa
        obs['raised'] = f'{type(e).__name__}: {str(e)[:200]}'
    return obs


def run_impl(case):
    if case.get('mode') == 'addwrite':
        return _run_addwrite(case)
    from vivarium.core.engine import Engine
    from vivarium.core.emitter import Emitter
    from vivarium.core.registry import emitter_registry
    ReaperP, Census, Clock, ReaperS, Seeder, Feeder = _classes()
    key = f'sn-{next(_ids)}'
    ctx = {'log': [], 'engine': None}
    ctx['now'] = lambda: 0 if ctx['engine'] is None else int(round(ctx['engine'].global_time))
    CTX[key] = ctx

    class SNEmitter(Emitter):
        def emit(self, data):
            c = CTX.get(self.config.get('ctx_key'))
            if c is not None and data['table'] == 'history':
                cells = data['data'].get('cells') or {}
                c['log'].append({'e': 'emit', 't': int(round(data['data']['time'])),
                                 'cells': {k: v.get('mass') for k, v in cells.items()}})
    if emitter_registry.access('verif_sn') is None:
        emitter_registry.register('verif_sn', SNEmitter)
    obs = {'log': ctx['log']}
    try:
        up = ('..',) * case['depth']

        def nest(d):
            for seg in (['deep', 'er'][:case['depth']])[::-1]:
                d = {seg: d}
            return d
        wires = {'cells': up + ('cells',)}
        init = {'cells': {k: {'mass': m} for k, m in case['masses'].items()}}
        if case['mode'] == 'process':
            # the reader is listed first: its +1 for a cell deleted in the same batch is applied before the deletion
            procs = {'census': Census({'key': key, 'ts': case['reader_ts']}), 'reaper': ReaperP({'key': key, 'k': case['k']})}
            eng = Engine(processes=nest(procs), topology=nest({n: dict(wires) for n in procs}), initial_state=init,
                         emitter={'type': 'verif_sn', 'ctx_key': key}, display_info=False, progress_bar=False)
        else:
            steps = {'feeder': Feeder({'key': key}), 'seeder': Seeder({'key': key, 'k': case['k']}),
                     'reaper': ReaperS({'key': key, 'k': case['k']})}
            flow = {'feeder': [('seeder',)], 'seeder': [('reaper',)], 'reaper': []}
            procs = {'clock': Clock({'key': key})}
            topo = {n: dict(wires) for n in steps}
            topo['clock'] = {'t': up + ('t',)}
            eng = Engine(processes=nest(procs), steps=nest(steps), flow=nest(flow), topology=nest(topo),
                         initial_state=init, emitter={'type': 'verif_sn', 'ctx_key': key}, display_info=False,
                         progress_bar=False)
        ctx['engine'] = eng
        eng.update(case['ticks'])
    except Exception as e:  # noqa
        obs['raised'] = f'{type(e).__name__}: {str(e)[:200]}'
    finally:
        CTX.pop(key, None)
    return obs


def oracle(case, impl):
    if 'harness_exception' in impl:
        return [f'probe-crashed: {impl["harness_exception"]}']
    if impl.get('timeout'):
        return []
    if impl.get('raised'):
        return [f'engine-raised: {impl["raised"]}']
    if case.get('mode') == 'addwrite':
        for t, cells in impl['rows']:
            want = {'b': 10 + (case['delta'] if t >= case['k'] else 0)}
            if t >= case['k']:
                want['n'] = case['state'] + case['delta']
            if cells != want:
                return [f'add-and-write: at tick {case["k"]} one update adds child n with mass {case["state"]} and '
                        f'adds {case["delta"]} to n and to b' + (' (through a second port on the same store)'
                                                                  if case['two_ports'] else '')
                        + f'; the row at t={t} holds {cells}, expected {want}']
        return []
    fails = []
    log = impl['log']
    rows = {ev['t']: ev['cells'] for ev in log if ev['e'] == 'emit'}
    times = sorted(rows)
    for ev in log:
        if ev['e'] != 'read' or ev['actual'] is None:
            continue
        if ev['seen'] != ev['actual']:
            fails.append(f'reads-other-node: at t={ev["t"]} {ev["who"]} reads cells {ev["seen"]}, the hierarchy holds '
                         f'{ev["actual"]}')
            break
        # where did the +1 go?  the next row at or after the end of the reader's interval
        if case['mode'] == 'steps':
            after = rows.get(ev['t'])
        else:
            due = ev['t'] + case['reader_ts']
            after = rows.get(due)
        if after is None:
            continue
        for k, m in ev['seen'].items():
            if k not in after:
                continue          # deleted meanwhile
            others = 0
            if case['mode'] == 'process' and case['reader_ts'] > 1:
                continue          # overlapping readers of one cell: the sum is C01's business
            if after[k] != m + 1 + others:
                fails.append(f'writes-other-node: {ev["who"]} read mass {m} of cell {k} at t={ev["t"]} and added 1; '
                             f'the hierarchy then holds {after[k]}')
                break
        if fails:
            break
    return fails[:3]
