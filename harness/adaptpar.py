"""An adaptive timestep inside a parallel worker (scenario family of C02 and C13).

The process overrides `calculate_timestep` (a cyclic pattern of requests) and writes down the
timestep it is handed at every `next_update` in its own state (`code := code * 16 + 2 * timestep`
with the `set` updater, `elapsed += timestep`), so that what it was handed can be read from the
store whether the process runs in the engine's interpreter or in a worker.  The timesteps handed
must be the ones requested (the remainder to the end for the forced last one) and sum to the run
length, and marking the process `_parallel` must not change them."""
import itertools

_ids = itertools.count()


def gen_case(rng):
    pat = [rng.choice([1, 2, 3, 4]) for _ in range(rng.choice([2, 3]))]      # in half time units
    return {'kind': 'adaptpar', 'pattern': pat, 'run': rng.choice([5, 7, 9, 11]),      # in half time units
            'static': rng.choice([1.0, 1.0, 0.5])}


def corpus():
    return [{'kind': 'adaptpar', 'pattern': [1, 3, 2], 'run': 11, 'static': 1.0}]


def reference(case):
    """the timesteps (in half units) an adaptive process is handed over update(run)"""
    t, i, out = 0, 0, []
    while t < case['run']:
        ts = case['pattern'][i % len(case['pattern'])]
        i += 1
        if t + ts > case['run']:
            ts = case['run'] - t
        out.append(ts)
        t += ts
    return out


def _code(seq):
    c = 0
    for ts in seq:
        c = c * 16 + ts
    return c


def run_impl(case):
    from vivarium.core.engine import Engine
    from harness.probes import AdaptiveTick
    obs = {}
    for tag, par in (('serial', False), ('parallel', True)):
        eng = None
        try:
            params = {'pattern': case['pattern'], 'timestep': case['static']}
            if par:
                params['_parallel'] = True
            eng = Engine(processes={'p': AdaptiveTick(params)}, topology={'p': {'vars': ('vars',)}},
                         emitter={'type': 'null'}, display_info=False, progress_bar=False)
            eng.update(case['run'] / 2)
            v = eng.state.get_value()['vars']
            obs[tag] = {'code': int(v['code']), 'elapsed2': int(round(2 * v['elapsed'])), 'calls': int(v['calls'])}
        except Exception as e:  # noqa
            obs[tag] = {'raised': f'{type(e).__name__}: {str(e)[:200]}'}
        finally:
            if eng is not None:
                try:
                    eng.end()
                except Exception as e:  # noqa
                    obs[tag]['end_raised'] = f'{type(e).__name__}: {str(e)[:100]}'
    return obs


def oracle(case, impl):
    if 'harness_exception' in impl:
        return [f'probe-crashed: {impl["harness_exception"]}']
    if impl.get('timeout'):
        return ['hang: a run with a parallel process did not return']
    want = reference(case)
    fails = []
    for tag in ('serial', 'parallel'):
        o = impl[tag]
        if o.get('raised') or o.get('end_raised'):
            fails.append(f'{tag}-error: {o.get("raised") or o.get("end_raised")}')
            continue
        if o['code'] != _code(want) or o['elapsed2'] != case['run'] or o['calls'] != len(want):
            fails.append(f'timestep: the {tag} run handed the process {o["calls"]} timesteps summing to '
                         f'{o["elapsed2"] / 2} (code {o["code"]}); it requested {[x / 2 for x in want]} '
                         f'(sum {case["run"] / 2})')
    return fails[:2]
