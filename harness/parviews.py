"""What a process is handed by each of the three calls, also inside a worker (scenario family of C07).

A process keeps, in its own attributes, a digest of the `states` dictionary handed to `calculate_timestep`
and to `update_condition`, and returns them — with the digest of what `next_update` is handed — through an
output-only port.  Its timestep is read from the view (`states['clock']['dt']`).  Another process adds,
feeds and deletes the agents the first one sees through a glob port.  The three calls of one invocation
are handed the same view: the declared variables with the current values, one entry per current agent,
the output-only port empty — whether the process runs in the engine's interpreter or in a worker.

Oracle: every recorded digest equals the view of the state the invocation started from."""
import itertools

_ids = itertools.count()


def gen_case(rng):
    if rng.random() < 0.3:
        # a caller-managed loop of unforced run_for(1) calls and a timestep that does not divide the window: the
        # process is put off and invoked later — with the view of the state at that later moment
        return {'kind': 'parviews', 'parallel': False, 'dt': 1.5, 'calls': rng.choice([4, 5]), 'add_at': rng.choice([1, 2]),
                'del_at': rng.choice([2, 3, 9]), 'x0': rng.choice([0, 10]), 'windows': True}
    return {'kind': 'parviews', 'parallel': rng.random() < 0.7, 'dt': rng.choice([1.0, 2.0]),
            'calls': rng.choice([3, 4]), 'add_at': rng.choice([1, 2]), 'del_at': rng.choice([2, 3, 9]),
            'x0': rng.choice([0, 10])}


def corpus():
    return [{'kind': 'parviews', 'parallel': False, 'dt': 1.5, 'calls': 4, 'add_at': 1, 'del_at': 3, 'x0': 0, 'windows': True},
            {'kind': 'parviews', 'parallel': True, 'dt': 1.0, 'calls': 4, 'add_at': 1, 'del_at': 3, 'x0': 0},
            {'kind': 'parviews', 'parallel': False, 'dt': 2.0, 'calls': 3, 'add_at': 2, 'del_at': 9, 'x0': 10}]


def digest(v):
    if v is None:
        return 'None'
    if isinstance(v, dict):
        return '{' + ','.join(f'{k}:{digest(x)}' for k, x in sorted(v.items())) + '}'
    return repr(v)


def run_impl(case):
    import warnings
    warnings.simplefilter('ignore')
    from vivarium.core.engine import Engine
    from harness.parviews_procs import Viewer, Feeder, CTX
    ctx_key = f'pv-{next(_ids)}'
    obs = {}
    eng = None
    try:
        dt = case['dt']
        feeder_ts = 1.0 if case.get('windows') else dt
        eng = Engine(processes={'viewer': Viewer({'dt0': dt, '_parallel': case['parallel'],
                                                  'ctx': None if case['parallel'] else ctx_key}),
                                'feeder': Feeder({'add_at': case['add_at'], 'del_at': case['del_at'],
                                                  'timestep': feeder_ts})},
                     topology={'viewer': {'agents': ('agents',), 'clock': ('clock',), 'report': ('report',)},
                               'feeder': {'agents': ('agents',)}},
                     initial_state={'agents': {'a': {'x': case['x0']}, 'b': {'x': 5}}, 'clock': {'dt': dt}},
                     emitter={'type': 'null'}, display_info=False, progress_bar=False)
        if not case['parallel']:
            CTX[ctx_key] = eng
        rows = []
        if case.get('windows'):
            seen = []
            for _ in range(case['calls']):
                eng.run_for(1.0)
                rep = eng.state.get_value()['report']
                if rep['nu'] and (not seen or seen[-1] != [rep['nu'], rep['now']]):
                    seen.append([rep['nu'], rep['now']])
            obs['windows'] = seen
            obs['rows'] = []
            return obs
        for _ in range(case['calls']):
            st = eng.state.get_value()
            before = {'agents': {k: {'x': v['x']} for k, v in st['agents'].items()},
                      'clock': {'dt': st['clock']['dt']}, 'report': {}}
            eng.update(dt)
            rep = eng.state.get_value()['report']
            rows.append({'want': digest(before), 'ct': rep['ct'], 'uc': rep['uc'], 'nu': rep['nu']})
        obs['rows'] = rows
    except Exception as e:  # noqa
        obs['raised'] = f'{type(e).__name__}: {str(e)[:200]}'
    finally:
        CTX.pop(ctx_key, None)
        if eng is not None:
            try:
                eng.end()
            except Exception:  # noqa
                pass
    return obs


def oracle(case, impl):
    if 'harness_exception' in impl:
        return [f'probe-crashed: {impl["harness_exception"]}']
    if impl.get('timeout'):
        return []
    if impl.get('raised'):
        return [f'views-raised: {impl["raised"]}']
    fails = []
    for nu, now in impl.get('windows', []):
        if nu != now:
            return [f'postponed-view: a process put off by a caller-managed run_for() loop (timestep 1.5, windows of '
                    f'1) is invoked with {nu[:200]}; the hierarchy at that moment projects to {now[:200]}']
    how = 'in a worker' if case['parallel'] else 'serially'
    for i, r in enumerate(impl['rows']):
        for call, key in (('calculate_timestep', 'ct'), ('update_condition', 'uc'), ('next_update', 'nu')):
            if r[key] != r['want']:
                fails.append(f'call-view: invocation {i} ({how}): {call} was handed {r[key][:200]}, the view of the '
                             f'state is {r["want"][:200]}')
    return fails[:3]
