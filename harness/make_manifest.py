"""Regenerate MANIFEST.json from the per-property modules (harness/props/cXX.py: PROP,
LEVEL_TEXT, LEVEL_NOTE, TECHNIQUE) and NOT_APPLICABLE below."""
import glob
import importlib
import json
import os

from harness import lib

NOT_APPLICABLE = {}

props = [json.loads(l)['id'] for l in open(os.path.join(lib.VERIF, 'properties.jsonl'))]
checks = []
claimed = set()
for f in sorted(glob.glob(os.path.join(lib.VERIF, 'harness', 'props', 'c*.py'))):
    name = os.path.basename(f)[:-3]
    mod = importlib.import_module(f'harness.props.{name}')
    p = mod.PROP
    claimed.add(p)
    checks.append({
        'property_id': p,
        'quick_cmd': f'./check {p} --tier quick',
        'thorough_cmd': f'./check {p} --tier thorough',
        'evidence_file': f'evidence/{p}.json',
        'replay_cmd_template': f'./check {p} --replay {{path}}',
        'engine': 'lean4-model+correspondence',
        'level_claimed': {
            'category': 'proof',
            'text': mod.LEVEL_TEXT,
            'design_ref': f'DESIGN.md section 6, {p}',
        },
        'level_note': mod.LEVEL_NOTE,
        'technique': mod.TECHNIQUE,
    })
na = []
for p in props:
    if p not in claimed:
        na.append({'property_id': p, 'reason': NOT_APPLICABLE.get(
            p, 'check not built yet in this snapshot of /verif (work in progress; see DESIGN.md)')})
manifest = {
    'version': 1,
    'setup_cmd': 'PYTHONPATH=/repo:/verif /venv/bin/python -m harness.extract_tables >/dev/null && cd lean && lake build',
    'hooks': {
        'guard': 'VIVARIUM_COLLECTIVE_VIVARIUM_CORE_VERIF',
        'enable': 'no hooks are needed: every observation point is reachable through the public API '
                  '(probe Process/Step subclasses, user updaters, a spy Emitter) — the guard variable is '
                  'exported by ./check but nothing in /repo reads it',
        'baseline_off_cmd': 'cd /repo && /venv/bin/python -m pytest -ra -q -p no:cacheprovider --timeout=900 '
                            '--continue-on-collection-errors',
        'source_commits': [],
        'add_only': True,
    },
    'engines': [{
        'name': 'lean4-model+correspondence',
        'path': 'lean/ (model VivModel/*, theorems VivProps/*, drivers Drivers/*) + harness/ (translator, '
                'correspondence, oracles)',
        'serves_properties': sorted(claimed),
        'kind_free_text': 'Lean 4 theorems about a hand-written executable model; the model is tied to /repo on '
                          'every run by an AST translator for the declarative tables and by differential '
                          'correspondence checking of the executable definitions against the real code',
    }],
    'checks': checks,
    'not_applicable': na,
    'notes': 'Known findings: known_findings.json. Design: DESIGN.md.',
}
json.dump(manifest, open(os.path.join(lib.VERIF, 'MANIFEST.json'), 'w'), indent=1)
print('manifest:', len(checks), 'checks,', len(na), 'not yet claimed')
