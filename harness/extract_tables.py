"""Translator for the *declarative* parts of the model (DESIGN.md section 3a).

Reads /repo's sources with `ast` on every run and (re)writes lean/VivModel/Generated.lean:
registry tables, the processing order of structural operations in Store.apply_update, schema
keys, command tables.  The theorems over these tables are thus re-checked against what the
code says now.  The file is rewritten only when its content changes."""
import ast
import os
import re

from harness import lib

OUT = os.path.join(lib.LEAN, 'VivModel', 'Generated.lean')


def _parse(rel):
    return ast.parse(open(os.path.join(lib.REPO, rel)).read())


def _find_class(tree, name):
    for n in tree.body:
        if isinstance(n, ast.ClassDef) and n.name == name:
            return n
    return None


def _find_method(cls, name):
    for n in cls.body:
        if isinstance(n, ast.FunctionDef) and n.name == name:
            return n
    return None


def _registrations(tree, registry):
    out = []
    for n in ast.walk(tree):
        if isinstance(n, ast.Call) and isinstance(n.func, ast.Attribute) \
                and n.func.attr == 'register' and isinstance(n.func.value, ast.Name) \
                and n.func.value.id == registry and len(n.args) == 2:
            k, v = n.args
            if isinstance(k, ast.Constant) and isinstance(v, ast.Name):
                out.append((k.value, v.id))
    return out


def _structural_order(apply_update):
    """Order in which Store.apply_update *processes* the structural keys: position of the
    loop/call that consumes each popped entry; the inner-key loop is 'inner'."""
    popped = {}      # variable name -> key
    for n in ast.walk(apply_update):
        if isinstance(n, ast.Assign) and isinstance(n.value, ast.Call) \
                and isinstance(n.value.func, ast.Attribute) and n.value.func.attr == 'pop' \
                and n.value.args and isinstance(n.value.args[0], ast.Constant) \
                and isinstance(n.targets[0], ast.Name):
            popped[n.targets[0].id] = n.value.args[0].value
    events = []
    for n in ast.walk(apply_update):
        if isinstance(n, ast.If) and isinstance(n.test, ast.Compare) \
                and isinstance(n.test.left, ast.Name) and n.test.left.id in popped \
                and isinstance(n.test.ops[0], ast.IsNot):
            events.append((n.lineno, popped[n.test.left.id]))
        if isinstance(n, ast.For) and isinstance(n.iter, ast.Call) \
                and isinstance(n.iter.func, ast.Attribute) and n.iter.func.attr == 'items' \
                and isinstance(n.iter.func.value, ast.Name) and n.iter.func.value.id == 'update':
            events.append((n.lineno, 'inner'))
    events.sort()
    order = []
    for _, k in events:
        if k not in order:
            order.append(k)
    return order


def _view_expiring(apply_update):
    """structural keys whose processing block sets view_expire = True"""
    popped = {}
    for n in ast.walk(apply_update):
        if isinstance(n, ast.Assign) and isinstance(n.value, ast.Call) \
                and isinstance(n.value.func, ast.Attribute) and n.value.func.attr == 'pop' \
                and n.value.args and isinstance(n.value.args[0], ast.Constant) \
                and isinstance(n.targets[0], ast.Name):
            popped[n.targets[0].id] = n.value.args[0].value
    out = []
    for n in ast.walk(apply_update):
        if isinstance(n, ast.If) and isinstance(n.test, ast.Compare) \
                and isinstance(n.test.left, ast.Name) and n.test.left.id in popped:
            for m in ast.walk(n):
                if isinstance(m, ast.Assign) and isinstance(m.targets[0], ast.Name) \
                        and m.targets[0].id == 'view_expire' \
                        and isinstance(m.value, ast.Constant) and m.value.value is True:
                    out.append(popped[n.test.left.id])
                    break
    return out


def _set_literal(cls, name):
    for n in cls.body:
        if isinstance(n, ast.Assign) and isinstance(n.targets[0], ast.Name) \
                and n.targets[0].id == name and isinstance(n.value, (ast.Set, ast.List, ast.Tuple)):
            return [e.value for e in n.value.elts if isinstance(e, ast.Constant)]
    return []


def _default_registry_name(method, attr):
    """string constant used as fallback in _get_updater / _get_divider"""
    consts = [n.value for n in ast.walk(method)
              if isinstance(n, ast.Constant) and isinstance(n.value, str)]
    return consts


def _lean_str_list(xs):
    return '[' + ', '.join('"' + x.replace('\\', '\\\\').replace('"', '\\"') + '"' for x in xs) + ']'


def _lean_pair_list(xs):
    return '[' + ', '.join(f'("{a}", "{b}")' for a, b in xs) + ']'


# ---- C14 (additive): serializer tag strings, the units regex and the registration order

def _lean_str(x):
    return '"' + x.replace('\\', '\\\\').replace('"', '\\"').replace('\n', '\\n') + '"'


def _called_helpers(node, module, cls, seen):
    """definitions (module-level functions, methods of the same class) called from `node`"""
    out = []
    for n in ast.walk(node):
        if not isinstance(n, ast.Call):
            continue
        target = None
        if isinstance(n.func, ast.Name) and module is not None:
            target = next((d for d in module.body if isinstance(d, ast.FunctionDef) and d.name == n.func.id), None)
        elif isinstance(n.func, ast.Attribute) and isinstance(n.func.value, ast.Name) \
                and n.func.value.id in ('self', 'cls') and cls is not None:
            target = _find_method(cls, n.func.attr)
        if target is not None and id(target) not in seen:
            seen.add(id(target))
            out.append(target)
    return out


def _string_affixes_in(node):
    """(prefix, suffix) candidates built in `node`: f-strings, and `'lit' + … + 'lit'` concatenations"""
    found = []
    for n in ast.walk(node):
        if isinstance(n, ast.JoinedStr) and n.values:
            first, last = n.values[0], n.values[-1]
            pre = first.value if isinstance(first, ast.Constant) and isinstance(first.value, str) else ''
            suf = last.value if (len(n.values) > 1 and isinstance(last, ast.Constant)
                                 and isinstance(last.value, str)) else ''
            found.append((pre, suf))
        elif isinstance(n, ast.BinOp) and isinstance(n.op, ast.Add):
            # flatten a + b + c
            parts = []

            def flat(x):
                if isinstance(x, ast.BinOp) and isinstance(x.op, ast.Add):
                    flat(x.left)
                    flat(x.right)
                else:
                    parts.append(x)
            flat(n)
            if len(parts) >= 2 and isinstance(parts[0], ast.Constant) and isinstance(parts[0].value, str):
                last = parts[-1]
                suf = last.value if isinstance(last, ast.Constant) and isinstance(last.value, str) else ''
                found.append((parts[0].value, suf))
    return found


def _fstring_affixes(method, module=None, cls=None):
    """(prefix, suffix) of the tag strings a `serialize` method builds: the leading and trailing literal parts of
    its f-strings (or string concatenations), looked for in the method itself and — when it delegates — in the
    module-level functions / methods of its class that it calls (three levels deep).  Several tag strings must
    agree; otherwise an '<<inconsistent…>>' marker is emitted so that the theorems over the tables stop
    checking."""
    if method is None:
        return ('<<missing>>', '<<missing>>')
    seen = {id(method)}
    level = [method]
    found = []
    for _ in range(4):
        for node in level:
            found.extend(_string_affixes_in(node))
        tags = [f for f in found if f[0].startswith('!')]
        if tags:
            found = tags
            break
        level = [h for node in level for h in _called_helpers(node, module, cls, seen)]
        if not level:
            break
    found = [f for f in found if f[0].startswith('!')] or found
    if not found:
        return ('<<missing>>', '<<missing>>')
    if len(set(found)) > 1:
        return ('<<inconsistent: ' + ' | '.join(sorted({f[0] for f in found})) + '>>',
                '<<inconsistent: ' + ' | '.join(sorted({f[1] for f in found})) + '>>')
    return found[0]


def _regex_source(cls):
    """the string constant given to re.compile(...) inside the class"""
    if cls is None:
        return '<<missing>>'
    for n in ast.walk(cls):
        if isinstance(n, ast.Call) and isinstance(n.func, ast.Attribute) and n.func.attr == 'compile' \
                and n.args and isinstance(n.args[0], ast.Constant) and isinstance(n.args[0].value, str):
            return n.args[0].value
    return '<<missing>>'


def _serializer_order(init):
    """class names of `for SerializerClass in (A, B, ...)` in vivarium/__init__.py"""
    for n in ast.walk(init):
        if isinstance(n, ast.For) and isinstance(n.target, ast.Name) \
                and n.target.id == 'SerializerClass' and isinstance(n.iter, (ast.Tuple, ast.List)):
            return [e.id for e in n.iter.elts if isinstance(e, ast.Name)]
    return []


def _extract_serialize(info, init):
    try:
        ser = _parse('vivarium/core/serialize.py')
    except Exception:  # noqa
        ser = ast.parse('')
    out = {}
    for key, cname in (('units', 'UnitsSerializer'), ('quantity', 'QuantitySerializer'),
                       ('function', 'FunctionSerializer'), ('process', 'ProcessSerializer')):
        cls = _find_class(ser, cname)
        out[key] = _fstring_affixes(_find_method(cls, 'serialize') if cls else None, ser, cls)
    info['serialize_tags'] = out
    info['units_regex'] = _regex_source(_find_class(ser, 'UnitsSerializer'))
    info['serializer_order'] = _serializer_order(init)


def _render_serialize(info, L):
    tags = info.get('serialize_tags', {})
    L.append('/-- literal head / tail of the f-strings in the `serialize` methods of `vivarium/core/serialize.py` -/')
    for key in ('units', 'quantity', 'function', 'process'):
        pre, suf = tags.get(key, ('<<missing>>', '<<missing>>'))
        L.append(f'def {key}TagPrefix : String := {_lean_str(pre)}')
        L.append(f'def {key}TagSuffix : String := {_lean_str(suf)}')
    L.append('/-- source of the regex compiled in `UnitsSerializer.__init__` -/')
    L.append(f'def unitsRegexSource : String := {_lean_str(info.get("units_regex", "<<missing>>"))}')
    L.append('/-- serializer classes in the order `vivarium/__init__.py` registers them -/')
    L.append(f'def serializerOrder : List String := {_lean_str_list(info.get("serializer_order", []))}')


def extract():
    init = _parse('vivarium/__init__.py')
    store = _parse('vivarium/core/store.py')
    proc = _parse('vivarium/core/process.py')
    du = _parse('vivarium/library/dict_utils.py')
    Store = _find_class(store, 'Store')
    apply_update = _find_method(Store, 'apply_update')
    info = {
        'updaters': _registrations(init, 'updater_registry'),
        'dividers': _registrations(init, 'divider_registry'),
        'structural_order': _structural_order(apply_update),
        'view_expiring': _view_expiring(apply_update),
        'schema_keys': sorted(_set_literal(Store, 'schema_keys')),
    }
    # default updater: the string in `updater = 'accumulate'`-like fallback of _get_updater
    gu = _find_method(Store, '_get_updater')
    info['get_updater_consts'] = [c for c in _default_registry_name(gu, 'updater')
                                  if not c.startswith('_') and ' ' not in c][:3]
    gd = _find_method(Store, '_get_divider')
    info['get_divider_consts'] = [c for c in _default_registry_name(gd, 'divider')
                                  if ' ' not in c][:6]
    Process = _find_class(proc, 'Process')
    for nm in ('METHOD_COMMANDS', 'ATTRIBUTE_READ_COMMANDS', 'ATTRIBUTE_WRITE_COMMANDS'):
        info[nm.lower()] = _set_literal(Process, nm) if Process else []
    mk = None
    for n in du.body:
        if isinstance(n, ast.Assign) and isinstance(n.targets[0], ast.Name) \
                and n.targets[0].id == 'MULTI_UPDATE_KEY' and isinstance(n.value, ast.Constant):
            mk = n.value.value
    info['multi_update_key'] = mk or ''
    _extract_serialize(info, init)
    return info


def render(info):
    L = []
    L.append('/-! GENERATED by harness/extract_tables.py from /repo on every run — do not edit. -/')
    L.append('namespace Viv.Generated')
    L.append('')
    L.append('/-- `updater_registry.register(name, fn)` calls in `vivarium/__init__.py` -/')
    L.append(f'def updaterTable : List (String × String) := {_lean_pair_list(info["updaters"])}')
    L.append('/-- `divider_registry.register(name, fn)` calls in `vivarium/__init__.py` -/')
    L.append(f'def dividerTable : List (String × String) := {_lean_pair_list(info["dividers"])}')
    L.append('/-- order in which `Store.apply_update` carries out the parts of a branch update -/')
    L.append(f'def structuralOrder : List String := {_lean_str_list(info["structural_order"])}')
    L.append('/-- structural keys whose processing sets `view_expire` -/')
    L.append(f'def viewExpiringKeys : List String := {_lean_str_list(info["view_expiring"])}')
    L.append(f'def schemaKeys : List String := {_lean_str_list(info["schema_keys"])}')
    L.append(f'def getUpdaterConsts : List String := {_lean_str_list(info["get_updater_consts"])}')
    L.append(f'def getDividerConsts : List String := {_lean_str_list(info["get_divider_consts"])}')
    L.append(f'def methodCommands : List String := {_lean_str_list(sorted(info["method_commands"]))}')
    L.append(f'def attrReadCommands : List String := {_lean_str_list(sorted(info["attribute_read_commands"]))}')
    L.append(f'def attrWriteCommands : List String := {_lean_str_list(sorted(info["attribute_write_commands"]))}')
    L.append(f'def multiUpdateKey : String := "{info["multi_update_key"]}"')
    _render_serialize(info, L)
    L.append('')
    L.append('end Viv.Generated')
    return '\n'.join(L) + '\n'


def regenerate():
    info = extract()
    text = render(info)
    with lib._Lock():
        old = open(OUT).read() if os.path.exists(OUT) else None
        if old != text:
            with open(OUT, 'w') as f:
                f.write(text)
    info['rewritten'] = old != text
    return info


if __name__ == '__main__':
    import json
    print(json.dumps(regenerate(), indent=1))
