"""A schema override on a parallel process, through every entry point (scenario family of C16, also C13).

A process that adds 1 per tick to its variable carries a `_schema` override (parameter `_schema`, or
`Composite.merge(schema_override=…)`) that gives the variable the `set` updater and another default.  The
override reaches exactly that process whether or not it is marked `_parallel`, and the engine built from the
composite, from its parts and from `composite.generate_store()` run the same: with `set` the variable holds 1
after every tick, a sibling process without override counts up."""
import itertools

_ids = itertools.count()


def gen_case(rng):
    return {'kind': 'paroverride', 'parallel': rng.random() < 0.7, 'via': rng.choice(['param', 'merge']),
            'ticks': rng.choice([2, 3]), 'path': rng.choice([[], ['agents', '1']])}


def corpus():
    return [{'kind': 'paroverride', 'parallel': True, 'via': 'param', 'ticks': 3, 'path': []},
            {'kind': 'paroverride', 'parallel': True, 'via': 'merge', 'ticks': 2, 'path': ['agents', '1']},
            {'kind': 'paroverride', 'parallel': False, 'via': 'merge', 'ticks': 2, 'path': []}]


def _build(case):
    from vivarium.core.composer import Composite
    from harness.probes import TickProcess
    over = {'vars': {'ov': {'_updater': 'set', '_default': 5}}}
    params = {'var': 'ov', 'ts': 1}
    if case['parallel']:
        params['_parallel'] = True
    if case['via'] == 'param':
        params['_schema'] = over
    inner = {'processes': {'ovr': TickProcess(params), 'plain': TickProcess({'var': 'pl', 'ts': 1})},
             'topology': {'ovr': {'vars': ('vars',)}, 'plain': {'vars': ('vars',)}}}
    comp = Composite({})
    comp.merge(composite=Composite(inner), path=tuple(case['path']))
    if case['via'] == 'merge':
        ov = {'ovr': over}
        for seg in reversed(case['path']):
            ov = {seg: ov}
        comp.merge(schema_override=ov)
    return comp


def _read(eng, case):
    st = eng.state.get_value()
    for seg in case['path']:
        st = st[seg]
    return [st['vars']['ov'], st['vars']['pl']]


def run_impl(case):
    from vivarium.core.engine import Engine
    obs = {}
    kw = dict(emitter={'type': 'null'}, display_info=False, progress_bar=False)
    for entry in ('composite', 'parts', 'store'):
        eng = None
        try:
            comp = _build(case)
            if entry == 'composite':
                eng = Engine(composite=comp, **kw)
            elif entry == 'parts':
                eng = Engine(processes=comp['processes'], topology=comp['topology'], steps=comp['steps'],
                             flow=comp['flow'], **kw)
            else:
                eng = Engine(store=comp.generate_store(), **kw)
            vals = [_read(eng, case)]
            for _ in range(case['ticks']):
                eng.update(1)
                vals.append(_read(eng, case))
            obs[entry] = vals
        except Exception as e:  # noqa
            obs[entry] = f'raised {type(e).__name__}: {str(e)[:160]}'
        finally:
            if eng is not None:
                try:
                    eng.end()
                except Exception:  # noqa
                    pass
    return obs


def oracle(case, impl):
    if 'harness_exception' in impl:
        return [f'probe-crashed: {impl["harness_exception"]}']
    if impl.get('timeout'):
        return []
    want = [[5, 0]] + [[1, t] for t in range(1, case['ticks'] + 1)]
    for entry in ('composite', 'parts', 'store'):
        got = impl[entry]
        if isinstance(got, str):
            if entry == 'parts' and case['via'] == 'merge':
                continue       # the parts of a composite do not carry the overrides merged into it
            return [f'override: entry point {entry}: {got}']
        if entry == 'parts' and case['via'] == 'merge':
            continue
        if got != want:
            return [f'override: a process ({"parallel" if case["parallel"] else "serial"}) carries a schema override '
                    f'(updater set, default 5; given via {case["via"]}, at path {case["path"]}): through the {entry} '
                    f'entry point [overridden, plain] go {got}, expected {want}']
    return []
