"""A variable whose default is a list of quantities (scenario family of C08).

The default `[q1, …, qn]` (n ≥ 1, quantities in gram) gives the variable its units.  A process updates it
with lists of quantities expressed in milligram — through `set`, or through the default updater (lists
are concatenated).  "Variables with units always hold a quantity in their declared units after an
update, whatever compatible unit the update was expressed in": every element the variable holds afterwards
is in gram, with the magnitude converted.

Oracle: units and magnitudes of every element after every tick."""
import itertools

_ids = itertools.count()


def gen_case(rng):
    if rng.random() < 0.25:
        return {'kind': 'listunits', 'scalar': True, 'n': 1, 'how': 'accumulate', 'upd_g': rng.random() < 0.6,
                'ticks': [[rng.choice([500, 250, 1500])] for _ in range(rng.choice([1, 2]))], 'declared': False}
    n = rng.choice([1, 1, 2, 3])
    return {'kind': 'listunits', 'n': n, 'how': rng.choice(['set', 'set', 'accumulate']),
            'ticks': [[rng.choice([500, 250, 0, 1500]) for _ in range(n)] for _ in range(rng.choice([1, 2]))],
            'declared': rng.random() < 0.3, 'init_mg': rng.random() < 0.3, 'upd_g': rng.random() < 0.3}


def corpus():
    return [{'kind': 'listunits', 'scalar': True, 'n': 1, 'how': 'accumulate', 'upd_g': True, 'ticks': [[500], [250]],
             'declared': False},
            {'kind': 'listunits', 'n': 2, 'how': 'accumulate', 'ticks': [[500, 250]], 'declared': True, 'init_mg': True,
             'upd_g': True},
            {'kind': 'listunits', 'n': 1, 'how': 'set', 'ticks': [[500]], 'declared': False},
            {'kind': 'listunits', 'n': 1, 'how': 'accumulate', 'ticks': [[500], [250]], 'declared': False},
            {'kind': 'listunits', 'n': 2, 'how': 'set', 'ticks': [[500, 0]], 'declared': True}]


def _scalar(case):
    """a scalar variable declared in gram whose value arrives in milligram (initial state) and is then updated by
    quantities in gram (the declared unit) or milligram"""
    import warnings
    warnings.simplefilter('ignore')
    from vivarium.core.engine import Engine
    from vivarium.core.process import Process
    from vivarium.library.units import units
    script = [list(t) for t in case['ticks']]

    class W(Process):
        name = f'listunits-s-{next(_ids)}'

        def ports_schema(self):
            return {'s': {'v': {'_default': 1.0 * units.g, '_emit': True}}}

        def next_update(self, timestep, states):
            if not script:
                return {}
            m = script.pop(0)[0]
            return {'s': {'v': (m / 1000.0) * units.g if case.get('upd_g') else m * units.mg}}
    obs = {}
    try:
        eng = Engine(processes={'w': W({})}, topology={'w': {'s': ('s',)}}, emitter={'type': 'null'},
                     initial_state={'s': {'v': 2000.0 * units.mg}}, display_info=False, progress_bar=False)
        rows = []
        for _ in case['ticks']:
            eng.update(1)
            v = eng.state.get_value()['s']['v']
            rows.append([str(getattr(v, 'units', type(v).__name__)), round(float(getattr(v, 'magnitude', v)), 9)])
        obs['scalar_rows'] = rows
    except Exception as e:  # noqa
        obs['raised'] = f'{type(e).__name__}: {str(e)[:200]}'
    return obs


def reference(case):
    cur = [float(i + 1) for i in range(case['n'])]
    out = []
    for mg in case['ticks']:
        new = [m / 1000.0 for m in mg]
        cur = new if case['how'] == 'set' else cur + new
        out.append([['gram', round(x, 9)] for x in cur])
    return out


def run_impl(case):
    if case.get('scalar'):
        return _scalar(case)
    import warnings
    warnings.simplefilter('ignore')
    from vivarium.core.engine import Engine
    from vivarium.core.process import Process
    from vivarium.library.units import units
    script = [list(t) for t in case['ticks']]
    decl = {'_default': [float(i + 1) * units.g for i in range(case['n'])], '_emit': True}
    if case['how'] == 'set':
        decl['_updater'] = 'set'
    if case['declared']:
        decl['_units'] = units.g

    class W(Process):
        name = f'listunits-{next(_ids)}'

        def ports_schema(self):
            return {'s': {'v': dict(decl)}}

        def next_update(self, timestep, states):
            if not script:
                return {}
            if case.get('upd_g'):
                return {'s': {'v': [(m / 1000.0) * units.g for m in script.pop(0)]}}
            return {'s': {'v': [m * units.mg for m in script.pop(0)]}}
    obs = {}
    try:
        init = {}
        if case.get('init_mg'):
            # the initial state gives the values in another compatible unit
            init = {'s': {'v': [float(i + 1) * 1000.0 * units.mg for i in range(case['n'])]}}
        eng = Engine(processes={'w': W({})}, topology={'w': {'s': ('s',)}}, emitter={'type': 'ram'},
                     initial_state=init,
                     display_info=False, progress_bar=False)
        rows = []
        for _ in case['ticks']:
            eng.update(1)
            v = eng.state.get_value()['s']['v']
            rows.append([[str(getattr(x, 'units', type(x).__name__)), round(float(getattr(x, 'magnitude', x)), 9)]
                         for x in v])
        obs['rows'] = rows
        data = eng.emitter.get_data_deserialized()
        obs['emitted'] = [[[str(getattr(x, 'units', type(x).__name__)), round(float(getattr(x, 'magnitude', x)), 9)]
                           for x in data[t]['s']['v']] for t in sorted(data) if t > 0]
    except Exception as e:  # noqa
        obs['raised'] = f'{type(e).__name__}: {str(e)[:200]}'
    return obs


def oracle(case, impl):
    if 'harness_exception' in impl:
        return [f'probe-crashed: {impl["harness_exception"]}']
    if impl.get('timeout'):
        return []
    if impl.get('raised'):
        return [f'units-raised: {impl["raised"]}']
    if case.get('scalar'):
        cur, want = 2.0, []
        for mg in case['ticks']:
            cur += mg[0] / 1000.0
            want.append(['gram', round(cur, 9)])
        if impl['scalar_rows'] != want:
            return [f'scalar-units: a variable declared in gram, started at 2000 mg and updated by '
                    f'{"gram" if case.get("upd_g") else "milligram"} quantities {case["ticks"]} holds '
                    f'{impl["scalar_rows"]}; in its declared units: {want}']
        return []
    want = reference(case)
    if impl.get('emitted') != want:
        return [f'list-units-emitted: the rows emitted for a variable whose default is a list of {case["n"]} quantities '
                f'in gram hold {impl.get("emitted")}; the variable, in its declared units: {want}']
    if impl['rows'] != want:
        return [f'list-units: a variable whose default is a list of {case["n"]} quantities in gram ({case["how"]}) holds '
                f'{impl["rows"]} after updates in milligram {case["ticks"]}; in its declared units: {want}']
    return []
