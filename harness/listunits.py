"""A variable whose default is a list of quantities (scenario family of C08).

The default `[q1, …, qn]` (n ≥ 1, quantities in gram) gives the variable its units.  A process updates it
with lists of quantities expressed in milligram — through `set`, or through the default updater (lists
are concatenated).  "Variables with units always hold a quantity in their declared units after an
update, whatever compatible unit the update was expressed in": every element the variable holds afterwards
is in gram, with the magnitude converted.

Oracle: units and magnitudes of every element after every tick."""
import itertools

_ids = itertools.count()


def gen_case(rng):
    n = rng.choice([1, 1, 2, 3])
    return {'kind': 'listunits', 'n': n, 'how': rng.choice(['set', 'set', 'accumulate']),
            'ticks': [[rng.choice([500, 250, 0, 1500]) for _ in range(n)] for _ in range(rng.choice([1, 2]))],
            'declared': rng.random() < 0.3}


def corpus():
    return [{'kind': 'listunits', 'n': 1, 'how': 'set', 'ticks': [[500]], 'declared': False},
            {'kind': 'listunits', 'n': 1, 'how': 'accumulate', 'ticks': [[500], [250]], 'declared': False},
            {'kind': 'listunits', 'n': 2, 'how': 'set', 'ticks': [[500, 0]], 'declared': True}]


def reference(case):
    cur = [float(i + 1) for i in range(case['n'])]
    out = []
    for mg in case['ticks']:
        new = [m / 1000.0 for m in mg]
        cur = new if case['how'] == 'set' else cur + new
        out.append([['gram', round(x, 9)] for x in cur])
    return out


def run_impl(case):
    import warnings
    warnings.simplefilter('ignore')
    from vivarium.core.engine import Engine
    from vivarium.core.process import Process
    from vivarium.library.units import units
    script = [list(t) for t in case['ticks']]
    decl = {'_default': [float(i + 1) * units.g for i in range(case['n'])], '_emit': True}
    if case['how'] == 'set':
        decl['_updater'] = 'set'
    if case['declared']:
        decl['_units'] = units.g

    class W(Process):
        name = f'listunits-{next(_ids)}'

        def ports_schema(self):
            return {'s': {'v': dict(decl)}}

        def next_update(self, timestep, states):
            if not script:
                return {}
            return {'s': {'v': [m * units.mg for m in script.pop(0)]}}
    obs = {}
    try:
        eng = Engine(processes={'w': W({})}, topology={'w': {'s': ('s',)}}, emitter={'type': 'ram'},
                     display_info=False, progress_bar=False)
        rows = []
        for _ in case['ticks']:
            eng.update(1)
            v = eng.state.get_value()['s']['v']
            rows.append([[str(getattr(x, 'units', type(x).__name__)), round(float(getattr(x, 'magnitude', x)), 9)]
                         for x in v])
        obs['rows'] = rows
        data = eng.emitter.get_data_deserialized()
        obs['emitted'] = [[[str(getattr(x, 'units', type(x).__name__)), round(float(getattr(x, 'magnitude', x)), 9)]
                           for x in data[t]['s']['v']] for t in sorted(data) if t > 0]
    except Exception as e:  # noqa
        obs['raised'] = f'{type(e).__name__}: {str(e)[:200]}'
    return obs


def oracle(case, impl):
    if 'harness_exception' in impl:
        return [f'probe-crashed: {impl["harness_exception"]}']
    if impl.get('timeout'):
        return []
    if impl.get('raised'):
        return [f'units-raised: {impl["raised"]}']
    want = reference(case)
    if impl.get('emitted') != want:
        return [f'list-units-emitted: the rows emitted for a variable whose default is a list of {case["n"]} quantities '
                f'in gram hold {impl.get("emitted")}; the variable, in its declared units: {want}']
    if impl['rows'] != want:
        return [f'list-units: a variable whose default is a list of {case["n"]} quantities in gram ({case["how"]}) holds '
                f'{impl["rows"]} after updates in milligram {case["ticks"]}; in its declared units: {want}']
    return []
