"""A parallel process whose update is due in the batch that removes its compartment, and a model description
used for two simulations (scenario family of C13).

`agents/m` holds a process that also writes to a pool *outside* its compartment.  A reaper deletes (or
divides) `m` at an instant at which an interval of that process ends.  Whatever the serial run does with
the update that is due in that batch, the run with the process marked `_parallel` does the same: the
emitted trajectory (the pool included) is identical.  In mode `twice` the same dictionaries of processes and
topology are handed to a second engine after the first one was ended: the second simulation runs like the
first, serial or parallel, and the caller's dictionaries still hold the caller's processes.

Oracle: parallel trajectory = serial trajectory; second simulation = first."""
import itertools

_ids = itertools.count()


def gen_case(rng):
    ts = rng.choice([1, 2])
    return {'kind': 'duedelete', 'ts': ts, 'at': ts * rng.choice([1, 2]), 'how': rng.choice(['delete', 'delete', 'divide']),
            'ticks': rng.choice([5, 6]), 'reaper_first': rng.random() < 0.5, 'twice': rng.random() < 0.3,
            'rate': rng.choice([10.0, 3.0])}


def corpus():
    return [{'kind': 'duedelete', 'ts': 2, 'at': 2, 'how': 'delete', 'ticks': 5, 'reaper_first': True, 'twice': False,
             'rate': 10.0},
            {'kind': 'duedelete', 'ts': 1, 'at': 2, 'how': 'divide', 'ticks': 5, 'reaper_first': True, 'twice': False,
             'rate': 10.0},
            {'kind': 'duedelete', 'ts': 1, 'at': 9, 'how': 'delete', 'ticks': 3, 'reaper_first': False, 'twice': True,
             'rate': 3.0}]


def _rows(eng):
    data = eng.emitter.get_data()
    out = []
    for t in sorted(data):
        row = data[t]
        agents = row.get('agents', {})
        out.append([float(t), row.get('pool', {}).get('total'),
                    sorted((k, v.get('own', {}).get('mass')) for k, v in agents.items())])
    return out


def _run(case, parallel):
    from vivarium.core.engine import Engine
    from harness.duedelete_procs import Secrete, Reaper
    sec = Secrete({'rate': case['rate'], 'timestep': float(case['ts']), '_parallel': parallel})
    reaper = Reaper({'at': case['at'], 'how': case['how'], 'rate': case['rate'], 'ts': float(case['ts'])})
    procs = {'agents': {'m': {'secrete': sec}}}
    topo = {'agents': {'m': {'secrete': {'own': ('own',), 'pool': ('..', '..', 'pool')}}}}
    if case['reaper_first']:
        procs = dict({'reaper': reaper}, **procs)
    else:
        procs['reaper'] = reaper
    topo['reaper'] = {'agents': ('agents',)}
    out = {}
    runs = 2 if case['twice'] else 1
    for r in range(runs):
        eng = None
        try:
            eng = Engine(processes=procs, topology=topo, emitter={'type': 'ram'}, display_info=False,
                         progress_bar=False)
            # the published composite names the process as the serial run does
            out[f'name{r}'] = getattr(eng.processes['agents']['m']['secrete'], 'name', None)
            eng.update(case['ticks'])
            out[f'run{r}'] = _rows(eng)
        except Exception as e:  # noqa
            out[f'run{r}'] = f'{type(e).__name__}: {str(e)[:200]}'
        finally:
            if eng is not None:
                try:
                    eng.end()
                except Exception as e:  # noqa
                    out[f'end{r}'] = f'{type(e).__name__}: {str(e)[:100]}'
        if case['twice']:
            # a fresh reaper for the second simulation (it counts its calls); the compartment's process is reused
            reaper = Reaper({'at': case['at'], 'how': case['how'], 'rate': case['rate'], 'ts': float(case['ts'])})
            procs['reaper'] = reaper
    out['kept'] = procs.get('agents', {}).get('m', {}).get('secrete') is sec
    return out


def run_impl(case):
    import warnings
    warnings.simplefilter('ignore')
    return {'serial': _run(case, False), 'parallel': _run(case, True)}


def oracle(case, impl):
    if 'harness_exception' in impl:
        return [f'probe-crashed: {impl["harness_exception"]}']
    if impl.get('timeout'):
        return ['hang: a run with a parallel process did not return']
    s, p = impl['serial'], impl['parallel']
    fails = []
    if isinstance(s.get('run0'), str):
        return []                                   # the serial run itself is refused: nothing to compare with
    if p.get('run0') != s.get('run0'):
        fails.append(f'transparent: {case["how"]} of the compartment at t={case["at"]} (its process: timestep '
                     f'{case["ts"]}, writing to a pool outside): the serial run emits {str(s.get("run0"))[:300]}, the '
                     f'parallel run {str(p.get("run0"))[:300]}')
    if p.get('name0') != s.get('name0'):
        fails.append(f'published-name: the process is published under the name {s.get("name0")!r} in the serial run and '
                     f'{p.get("name0")!r} in the parallel run')
    if case['twice']:
        if isinstance(s.get('run1'), str):
            return fails
        if p.get('run1') != s.get('run1'):
            fails.append(f'second-simulation: the same processes and topology handed to a second engine: serial '
                         f'{str(s.get("run1"))[:200]}, parallel {str(p.get("run1"))[:200]}')
        if not p.get('kept') and s.get('kept'):
            fails.append('caller-dictionaries: after a parallel run the caller\'s processes dictionary no longer holds '
                         'the process it was given')
    for k in ('end0', 'end1'):
        if k in p and k not in s:
            fails.append(f'shutdown-error: {p[k]}')
    return fails[:3]
