"""A process sees only what *it* declared — also when several instances of one process class share
the dictionary their `ports_schema()` returns and only one of them carries a schema override
(`_schema` parameter, `merge_overrides`, or the variable implied by `_condition`).  Shared scenario
family of C07 (oracle-driven: the declared keys are known from the scenario)."""
import itertools

_ids = itertools.count()
CTX = {}


def gen_case(rng):
    return {'kind': 'schemaleak', 'order': rng.choice(['plain-first', 'over-first']),
            'how': rng.choice(['_schema', '_condition', 'merge_overrides', '_schema_default', 'nested_glob',
                               'nested_glob_dict', 'override_after_run', 'shared_params', '_schema_updater']),
            'glob_child': rng.random() < 0.7, 'ticks': rng.choice([1, 2])}


def corpus():
    return [{'kind': 'schemaleak', 'order': 'over-first', 'how': '_schema', 'glob_child': True, 'ticks': 2},
            {'kind': 'schemaleak', 'order': 'over-first', 'how': '_schema_default', 'glob_child': False, 'ticks': 1},
            {'kind': 'schemaleak', 'order': 'plain-first', 'how': '_schema_default', 'glob_child': True, 'ticks': 1},
            {'kind': 'schemaleak', 'order': 'plain-first', 'how': '_condition', 'glob_child': True, 'ticks': 1},
            # the same process objects loaded into a second engine after one of them was given an override
            {'kind': 'schemaleak', 'order': 'plain-first', 'how': 'override_after_run', 'glob_child': True, 'ticks': 1},
            # the override of one instance names another updater for a variable both instances declare
            {'kind': 'schemaleak', 'order': 'over-first', 'how': '_schema_updater', 'glob_child': True, 'ticks': 3},
            # F48: two processes built from one parameter dictionary that carries a `_schema`
            {'kind': 'schemaleak', 'order': 'plain-first', 'how': 'shared_params', 'glob_child': True, 'ticks': 1},
            # F33: two glob viewers with nested sub-schemas on one store
            {'kind': 'schemaleak', 'order': 'plain-first', 'how': 'nested_glob', 'glob_child': True, 'ticks': 1},
            # the same two viewers wired through a dictionary topology ({'_path': …, '*': {…}}) that renames the branch
            {'kind': 'schemaleak', 'order': 'plain-first', 'how': 'nested_glob_dict', 'glob_child': True, 'ticks': 2}]


def run_impl(case):
    from vivarium.core.engine import Engine
    from vivarium.core.process import Process
    key = f'sl-{next(_ids)}'
    log = []
    CTX[key] = log
    PORTS = {'a': {'x': {'_default': 0}}, 'g': {'*': {'x': {'_default': 0}}}}

    bump = case['how'] == '_schema_updater'

    class Shared(Process):
        defaults = {'key': None, 'who': ''}

        def ports_schema(self):
            return PORTS          # the same object for every instance, on every call

        def next_update(self, timestep, states):
            lg = CTX.get(self.parameters['key'])
            if lg is not None:
                lg.append({'who': self.parameters['who'], 'a': sorted(states['a'].keys()),
                           'g': {k: sorted(v.keys()) for k, v in states['g'].items()}})
            return {'a': {'x': 1}} if bump else {}
    obs = {'log': log}
    if case['how'] in ('nested_glob', 'nested_glob_dict'):
        return _nested_glob(case, key, log)
    try:
        if case['how'] == '_schema':
            over = Shared({'key': key, 'who': 'over',
                           '_schema': {'a': {'y': {'_default': 10}}, 'g': {'*': {'y': {'_default': 5}}}}})
            extra_a, extra_g = ['y'], ['y']
        elif case['how'] == '_schema_default':
            # the override changes the default of a variable both instances declare
            over = Shared({'key': key, 'who': 'over', '_schema': {'a': {'x': {'_default': 10}}}})
            extra_a, extra_g = [], []
        elif case['how'] == '_schema_updater':
            # the override gives the variable of ONE instance the `set` updater; the other keeps `accumulate`
            over = Shared({'key': key, 'who': 'over', '_schema': {'a': {'x': {'_updater': 'set'}}}})
            extra_a, extra_g = [], []
        elif case['how'] == '_condition':
            over = Shared({'key': key, 'who': 'over', '_condition': ('a', 'enabled')})
            extra_a, extra_g = ['enabled'], []
        elif case['how'] == 'shared_params':
            # both processes are built from one parameter dictionary with a (harmless) `_schema`; afterwards an
            # override is merged into one of them
            common = {'key': key, '_schema': {'a': {'x': {'_default': 0}}}}
            over = Shared(dict(common, who='over'))
            shared_plain = Shared(dict(common, who='plain'))
            over.merge_overrides({'a': {'y': {'_default': 10}}})
            extra_a, extra_g = ['y'], []
        else:
            over = Shared({'key': key, 'who': 'over'})
            extra_a, extra_g = ['y'], []
            if case['how'] != 'override_after_run':
                over.merge_overrides({'a': {'y': {'_default': 10}}})
                # a second override for another variable of the same port adds to the first
                over.merge_overrides({'a': {'z': {'_default': 20}}})
                extra_a = ['y', 'z']
        plain = shared_plain if case['how'] == 'shared_params' else Shared({'key': key, 'who': 'plain'})
        procs = {'plain': plain, 'over': over} if case['order'] == 'plain-first' else {'over': over, 'plain': plain}
        # the two instances are wired to different nodes for port a
        topology = {name: {'a': ('A',) if name == 'over' else ('A2',), 'g': ('G',)} for name in procs}
        init = {'G': {'c0': {'x': 1}}} if case['glob_child'] else {}
        if case['how'] == 'override_after_run':
            # a first engine runs the composite; then one process gets an override; a second engine built from the
            # same process objects must hand each process what it declares *now*
            first = Engine(processes=procs, topology=topology, initial_state=init, emitter={'type': 'null'},
                           display_info=False, progress_bar=False)
            first.update(1)
            del log[:]
            over.merge_overrides({'a': {'y': {'_default': 10}}})
        eng = Engine(processes=procs, topology=topology, initial_state=init, emitter={'type': 'null'},
                     display_info=False, progress_bar=False)
        eng.update(case['ticks'])
        state = eng.state.get_value()
        obs['values'] = {'A.x': state.get('A', {}).get('x'), 'A2.x': state.get('A2', {}).get('x')}
        obs['expected_values'] = {'A.x': 10 if case['how'] == '_schema_default' else 0, 'A2.x': 0}
        if bump:
            # +1 per tick: `set` leaves 1, `accumulate` counts the ticks
            obs['expected_values'] = {'A.x': 1, 'A2.x': case['ticks']}
        obs['declared'] = {'plain': {'a': ['x'], 'g': ['x']},
                           'over': {'a': sorted(['x'] + extra_a), 'g': sorted(['x'] + extra_g)}}
    except Exception as e:  # noqa
        obs['raised'] = f'{type(e).__name__}: {str(e)[:200]}'
    finally:
        CTX.pop(key, None)
    return obs


def _nested_glob(case, key, log):
    """two processes watch one glob store, each declaring its own variable below a nested port"""
    from vivarium.core.engine import Engine
    from vivarium.core.process import Process

    class V(Process):
        defaults = {'var': 'x', 'who': '', 'key': None}

        def ports_schema(self):
            return {'a': {'x': {'_default': 0}},
                    'g': {'*': {'inner': {self.parameters['var']: {'_default': 1}}}}}

        def next_update(self, timestep, states):
            lg = CTX.get(self.parameters['key'])
            if lg is not None:
                lg.append({'who': self.parameters['who'], 'a': sorted(states['a'].keys()),
                           'g': {k: sorted(v['inner'].keys()) for k, v in states['g'].items()}})
            # what it does depends on what it is shown: one unit per variable it sees below its glob port
            return {'a': {'x': sum(len(v['inner']) for v in states['g'].values())}}
    obs = {'log': log}
    try:
        names = ['plain', 'over'] if case['order'] == 'plain-first' else ['over', 'plain']
        procs = {n: V({'var': 'x' if n == 'plain' else 'y', 'who': n, 'key': key}) for n in names}
        dict_wired = case['how'] == 'nested_glob_dict'
        g = {'_path': ('G',), '*': {'inner': ('boundary',)}} if dict_wired else ('G',)
        topology = {n: {'a': ('A',) if n == 'over' else ('A2',), 'g': g} for n in names}
        init = {'G': {'c0': {'boundary': {'x': 5, 'y': 6, 'z': 7}} if dict_wired else {'inner': {'x': 5, 'y': 6}}}}
        if dict_wired:
            # the child's own process establishes its `boundary` store (a child of a dictionary-wired glob that exists
            # through the initial state only cannot be built: noted edge)
            class Cell(Process):
                def ports_schema(self):
                    return {'boundary': {v: {'_default': 0} for v in 'xyz'}}

                def next_update(self, timestep, states):
                    return {}
            procs['G'] = {'c0': {'cell': Cell()}}
            topology['G'] = {'c0': {'cell': {'boundary': ('boundary',)}}}
        if dict_wired and case.get('glob_child'):
            # a third process adds a child at run time
            class Adder(Process):
                def __init__(self, parameters=None):
                    super().__init__(parameters)
                    self.n = 0

                def ports_schema(self):
                    return {'g': {'*': {}}}

                def next_update(self, timestep, states):
                    self.n += 1
                    if self.n == 1:
                        return {'g': {'_add': [{'key': 'c1', 'state': {'boundary': {'x': 1, 'y': 2}}}]}}
                    return {}
            procs['adder'] = Adder()
            topology['adder'] = {'g': ('G',)}
        eng = Engine(processes=procs, topology=topology, initial_state=init,
                     emitter={'type': 'null'}, display_info=False, progress_bar=False)
        eng.update(case['ticks'])
        st = eng.state.get_value()
        obs['values'] = {'plain': st['A2']['x'], 'over': st['A']['x']}
        # one declared variable per child and tick; the child added at the first tick is seen from the second on
        per_tick = [1 + (1 if dict_wired and case.get('glob_child') and t >= 1 else 0) for t in range(case['ticks'])]
        obs['expected_values'] = {'plain': sum(per_tick), 'over': sum(per_tick)}
        obs['declared'] = {'plain': {'a': ['x'], 'g': ['x']}, 'over': {'a': ['x'], 'g': ['y']}}
    except Exception as e:  # noqa
        obs['raised'] = f'{type(e).__name__}: {str(e)[:200]}'
    finally:
        CTX.pop(key, None)
    return obs


def oracle(case, impl, who=('views', 'values')):
    if 'harness_exception' in impl:
        return [f'probe-crashed: {impl["harness_exception"]}']
    if impl.get('timeout'):
        return []
    if impl.get('raised'):
        return [f'engine-raised: {impl["raised"]}']
    if 'values' in who and impl.get('values') != impl.get('expected_values'):
        return [f'initial-value: variables hold {impl.get("values")}, their own declarations give '
                f'{impl.get("expected_values")}']
    if 'views' not in who:
        return []
    decl = impl['declared']
    for ev in impl['log']:
        want = decl[ev['who']]
        if ev['a'] != want['a']:
            return [f'undeclared: process "{ev["who"]}" declared {want["a"]} on port a, is handed {ev["a"]}']
        for child, keys in ev['g'].items():
            if keys != want['g']:
                return [f'undeclared: process "{ev["who"]}" declared {want["g"]} under its glob port, is handed '
                        f'{keys} for child {child}']
    return []
