"""Probe processes/steps driven by the behaviour language of harness/sched_common.py.
Module-level classes so that instances can be pickled into ParallelProcess workers."""
from vivarium.core.process import Process, Step

from harness.sched_common import _eval_ts, _eval_cond, _eval_upd



class ProbeMixin:
    def _init_probe(self):
        self.spec = self.parameters['spec']
        self.ctx = self.parameters['ctx']
        self.vars = self.parameters['vars']
        self.pname = self.spec['pid'][0]
        self.k_ts = 0
        self.k_cond = 0
        self.n_inv = 0

    def ports_schema(self):
        ctx = self.parameters['ctx']
        init = dict(self.parameters['init'])
        noemit = self.parameters.get('noemit') or []
        schema = {}
        for v in self.parameters['vars']:
            cfg = {'_default': init[v], '_emit': v not in noemit}
            if v.startswith('tok_'):
                cfg['_updater'] = ctx.token_updaters.get(v, 'accumulate') if ctx is not None else 'accumulate'
            else:
                cfg['_updater'] = 'accumulate'
            schema[v] = cfg
        return {'vars': schema}

    def _state(self, states):
        return dict(states['vars'])

class ProbeProcess(ProbeMixin, Process):
    defaults = {'spec': None, 'ctx': None, 'vars': [], 'init': {}, 'noemit': []}

    def __init__(self, parameters=None):
        super().__init__(parameters)
        self._init_probe()

    def calculate_timestep(self, states):
        st = self._state(states)
        k = self.k_ts
        self.k_ts += 1
        ts = _eval_ts(self.spec['ts'], k, st)
        if self.ctx is not None:
            self.ctx.log.append({'e': 'askTs', 'p': self.spec['pid'], 'k': k, 'gt': self.ctx.now()})
            r = ts * self.ctx.unit
            return round(r, self.ctx.prec) if self.ctx.prec is not None else r
        r = ts * self.parameters['unit']
        prec = self.parameters.get('prec')
        return round(r, prec) if prec is not None else r

    def update_condition(self, timestep, states):
        st = self._state(states)
        k = self.k_cond
        self.k_cond += 1
        ans = bool(_eval_cond(self.spec['cond'], k, st))
        if self.ctx is not None:
            self.ctx.log.append({'e': 'askCond', 'p': self.spec['pid'], 'k': k,
                                 'ts': self.ctx.tick_len(timestep), 'gt': self.ctx.now(), 'ans': ans})
        return ans

    def next_update(self, timestep, states):
        st = self._state(states)
        n = self.n_inv
        self.n_inv += 1
        unit = self.ctx.unit if self.ctx is not None else self.parameters['unit']
        ts = round(timestep / unit)
        u = _eval_upd(self.spec['upd'], n, ts, st)
        if self.ctx is not None:
            self.ctx.log.append({'e': 'invoke', 'p': self.spec['pid'], 'n': n, 'gt': self.ctx.now(),
                                 'ts': self.ctx.tick_len(timestep), 'start': self.ctx.front_time(self.spec['pid']),
                                 'view': sorted([k_, v] for k_, v in st.items()),
                                 'u': sorted([k_, v] for k_, v in u.items())})
        return {'vars': u}

class ProbeStep(ProbeMixin, Step):
    defaults = {'spec': None, 'ctx': None, 'vars': [], 'init': {}, 'noemit': []}

    def __init__(self, parameters=None):
        super().__init__(parameters)
        self._init_probe()

    def update_condition(self, timestep, states):
        st = self._state(states)
        k = self.k_cond
        ans = bool(_eval_cond(self.spec['cond'], k, st))
        self.k_cond += 1
        self.last_k = k
        if self.ctx is not None:
            self.ctx.log.append({'e': 'stepCond', 'p': self.spec['pid'], 'k': k, 't': self.ctx.now(),
                                 'ts': self.ctx.tick_len(timestep), 'ans': ans,
                                 'view': sorted([k_, v] for k_, v in st.items())})
        return ans

    def next_update(self, timestep, states):
        st = self._state(states)
        # a step's oracle is indexed by its poll count (an engine that starts a step without consulting its
        # update condition leaves no poll behind: the oracles report that, the probe must not crash on it)
        k = getattr(self, 'last_k', self.k_cond)
        u = _eval_upd(self.spec['upd'], k, 0, st)
        if self.ctx is not None:
            self.ctx.log.append({'e': 'stepInvoke', 'p': self.spec['pid'], 'k': k, 't': self.ctx.now(),
                                 'ts': self.ctx.tick_len(timestep),
                                 'view': sorted([k_, v] for k_, v in st.items()),
                                 'u': sorted([k_, v] for k_, v in u.items())})
        return {'vars': u}





class TickProcess(Process):
    """adds 1 to ('vars','x') every `ts` time units; used by the shutdown sweep of C13 / C10"""
    defaults = {'ts': 1, 'var': 'x', 'sleep': 0.0}

    def ports_schema(self):
        return {'vars': {self.parameters['var']: {'_default': 0, '_emit': True}}}

    def calculate_timestep(self, states):
        return self.parameters['ts']

    def next_update(self, timestep, states):
        if self.parameters['sleep']:
            import time
            time.sleep(self.parameters['sleep'])      # a worker that is still busy when asked to stop
        return {'vars': {self.parameters['var']: 1}}


class TickStep(Step):
    """a step that adds 1 to ('vars', var) in every phase; used as a parallel step declared through the
    `processes` dictionary (the legacy placement of derivers) by the shutdown sweep of C13"""
    defaults = {'var': 's'}

    def ports_schema(self):
        return {'vars': {self.parameters['var']: {'_default': 0, '_emit': True}}}

    def next_update(self, timestep, states):
        return {'vars': {self.parameters['var']: 1}}


class LegacyTick(Process):
    """a legacy deriver: a `Process` subclass that is a step because it says so (`is_step()`), not by its class"""
    defaults = {'var': 'ls'}

    def is_step(self):
        return True

    def ports_schema(self):
        return {'vars': {self.parameters['var']: {'_default': 0, '_emit': True}}}

    def next_update(self, timestep, states):
        return {'vars': {self.parameters['var']: 1}}


class UnitTick(Process):
    """adds 1 fg to ('vars','mass') every time unit: quantities cross the pipe when the process is parallel"""
    defaults = {'var': 'mass'}

    def ports_schema(self):
        from vivarium.library.units import units
        return {'vars': {self.parameters['var']: {'_default': 0.0 * units.fg, '_emit': True}}}

    def calculate_timestep(self, states):
        return 1

    def next_update(self, timestep, states):
        from vivarium.library.units import units
        return {'vars': {self.parameters['var']: 1.0 * units.fg}}


class AdaptiveTick(Process):
    """requests a cyclic pattern of timesteps (given in half time units) and writes down, in its own state, the
    timesteps it is handed (adaptpar family of C02 / C13)"""
    defaults = {'pattern': [2], 'timestep': 1.0}

    def __init__(self, parameters=None):
        super().__init__(parameters)
        self.i = 0

    def ports_schema(self):
        return {'vars': {'code': {'_default': 0, '_updater': 'set', '_emit': True},
                         'elapsed': {'_default': 0.0, '_emit': True}, 'calls': {'_default': 0, '_emit': True}}}

    def calculate_timestep(self, states):
        ts = self.parameters['pattern'][self.i % len(self.parameters['pattern'])] / 2
        self.i += 1
        return ts

    def next_update(self, timestep, states):
        return {'vars': {'code': states['vars']['code'] * 16 + int(round(2 * timestep)),
                         'elapsed': timestep, 'calls': 1}}


class Killer(Process):
    """serial process with timestep 1 that, at its `at`-th invocation, deletes or divides the
    compartment `target` of the 'agents' store"""
    defaults = {'at': 2, 'mode': 'delete', 'target': 'cell', 'daughter_ts': 1, 'parallel_daughters': True}

    def __init__(self, parameters=None):
        super().__init__(parameters)
        self.n = 0

    def ports_schema(self):
        if self.parameters['mode'] == 'move':
            return {'agents': {'*': {}}, 'agents2': {'*': {}}}
        return {'agents': {'*': {}}}

    def calculate_timestep(self, states):
        return 1

    def next_update(self, timestep, states):
        self.n += 1
        if self.n != self.parameters['at']:
            return {}
        target = self.parameters['target']
        if self.parameters['mode'] == 'delete':
            return {'agents': {'_delete': [target]}}
        if self.parameters['mode'] == 'move':
            return {'agents': {'_move': [{'source': (target,), 'target': 'agents2'}]}}
        if self.parameters['mode'] == 'replace':
            # a new (serial) process is generated over the parallel one, at its path
            return {'agents': {'_generate': [{'key': target, 'processes': {'par': TickProcess({'ts': 1, 'var': 'x'})},
                                              'topology': {'par': {'vars': ('vars',)}}, 'initial_state': {}}]}}
        daughters = []
        for k in ('d1', 'd2'):
            params = {'ts': self.parameters['daughter_ts'], 'var': 'x'}
            if self.parameters['parallel_daughters']:
                params['_parallel'] = True
            daughters.append({
                'key': k,
                'processes': {'par': TickProcess(params)},
                'topology': {'par': {'vars': ('vars',)}},
                'initial_state': {}})
        return {'agents': {'_divide': {'mother': target, 'daughters': daughters}}}


# ---------------------------------------------------------------- dynamic-structure probes (C10)

DYN_CTX = {}      # key -> context object (kept out of process parameters so deepcopy stays small)


class CellProc(Process):
    """a process inside a compartment: +1 on ('vars','x') every `ts`; logs each invocation"""
    defaults = {'ts': 1, 'id': '', 'ctx_key': None}

    def ports_schema(self):
        return {'vars': {'x': {'_default': 0, '_emit': True}}}

    def calculate_timestep(self, states):
        return self.parameters['ts']

    def next_update(self, timestep, states):
        ctx = DYN_CTX.get(self.parameters['ctx_key'])
        if ctx is not None:
            ctx.log.append({'e': 'invoke', 'id': self.parameters['id'], 'gt': ctx.now(), 'ts': timestep,
                            'start': ctx.start_of(self)})
        return {'vars': {'x': 1}}


class CellStep(Step):
    """a step inside a compartment; logs each run"""
    defaults = {'id': '', 'ctx_key': None}

    def ports_schema(self):
        return {'vars': {'x': {'_default': 0, '_emit': True}}}

    def next_update(self, timestep, states):
        ctx = DYN_CTX.get(self.parameters['ctx_key'])
        if ctx is not None:
            ctx.log.append({'e': 'step', 'id': self.parameters['id'], 't': ctx.now(), 'ts': timestep})
        return {}


class Director(Process):
    """issues the scripted structural updates, one per invocation (timestep 1)"""
    defaults = {'ctx_key': None, 'script_key': None}

    def __init__(self, parameters=None):
        super().__init__(parameters)
        self.k = 0

    def ports_schema(self):
        # a non-empty sub-schema: a glob port with an empty one and no children leaves the
        # store a leaf (noted edge F20), on which structural updates raise
        return {'agents': {'*': {'marker': {'_default': 0}}}, 'agents2': {'*': {'marker': {'_default': 0}}},
                'vars': {'x': {'_default': 0, '_emit': True}}}

    def calculate_timestep(self, states):
        return 1

    def next_update(self, timestep, states):
        ctx = DYN_CTX.get(self.parameters['ctx_key'])
        script = ctx.script if ctx is not None else []
        k = self.k
        self.k += 1
        if k < len(script):
            if ctx is not None:
                ctx.log.append({'e': 'issue', 'k': k, 'gt': ctx.now()})
            return script[k]
        return {}
