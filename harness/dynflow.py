"""Flows of nested and run-time-created compartments (scenario family of C05, also attached to C10).

Every compartment `('agents', k)` holds a process `grow` (x += 1 per tick) and a chain of three
steps declared in the *reverse* of their dependency order:

    finish: c = b + 5      middle: b = a * 10      start: a = x + 1       flow: start -> middle -> finish

so that a compartment whose steps lost their flow (and run as legacy derivers, in declaration
order) computes `c` from the previous phase's `b`.  Compartments come into being by every route the
library offers: the constructor (`Engine(processes, steps, flow, topology)`, `Engine(composite=)`,
`Engine(store=composite.generate_store())`), a run-time `_generate` with a key, and a `_divide` in
which the daughters inherit the mother's processes, topology and flow.

Every compartment also holds a legacy deriver `tally` (no flow entry: `t = 2 x`), and the structural
updates are issued either by a process (between phases) or by a legacy deriver listed first (during
a phase: what it creates first runs in the next phase, and the other compartments' derivers still
run in this one).

Oracle (C05/C10): in every step phase, every compartment that exists when the phase begins (and
still exists) runs each of its steps exactly once, in dependency order, and after the phase
`a = x + 1`, `b = 10 a`, `c = b + 5`, `t = 2 x` hold in every emitted row; a compartment created
during a phase is left alone until the next one."""
import itertools

_ids = itertools.count()
CTX = {}
ROLES = ['finish', 'middle', 'start']          # declaration order (reverse of the dependency order)
ALL_ROLES = ['tally', 'tally2'] + ROLES        # `tally`, `tally2`: legacy derivers (no flow entry), run one at
#                                                a time in this order (tally2 reads what tally wrote)
FLOW = {'start': [], 'middle': [('start',)], 'finish': [('middle',)]}


def gen_case(rng):
    c = _gen_case(rng)
    if c['splitter_at'] is not None:
        # the division by the mother's own step is the only structural change of such a scenario
        c.update(generate_at=None, divide_at=None, director='process')
    elif rng.random() < 0.12:
        # compartment `a` is moved to another store at run time (no process of it in flight: recorded finding F19)
        c.update(move_at=rng.choice([1, 2, 3]), divide_at=None, slow=None, director='process', twin=False,
                 entry=rng.choice(['parts', 'composite', 'store']))
    elif rng.random() < 0.12:
        # the engine starts without any compartment and without any step: the composite's flow is the empty dictionary
        c.update(bare=True, initial=[], generate_at=c['generate_at'] or 2, divide_at=None, director='process',
                 entry=rng.choice(['parts', 'composite', 'composite']))
    return c


def _gen_case(rng):
    c = _gen_case0(rng)
    if c['generate_at'] is not None and rng.random() < 0.3:
        c['steps_in_processes'] = True
    elif c['generate_at'] is not None and rng.random() < 0.3:
        c['steps_only'] = True
    if c['generate_at'] is not None and c['director'] == 'process' and c['divide_at'] is None \
            and c['splitter_at'] is None and rng.random() < 0.3:
        # the compartment is generated a second time over itself
        c['regen_at'] = c['generate_at'] + rng.choice([1, 2])
        c['ticks'] = max(c['ticks'], c['regen_at'] + 2)
    return c


def _gen_case0(rng):
    return {'kind': 'dynflow', 'entry': rng.choice(['parts', 'composite', 'store', 'merge', 'template', 'composer']),
            'initial': rng.choice([['a'], ['a'], ['a', 'z']]),
            'generate_at': rng.choice([None, 1, 2, 2]), 'divide_at': rng.choice([None, None, 2, 3]),
            'ticks': rng.choice([4, 5]), 'x0': rng.choice([0, 2, 7]), 'slow': rng.choice([None, None, 2, 3]),
            'director': rng.choice(['process', 'process', 'deriver']), 'twin': rng.random() < 0.5,
            'splitter_at': rng.choice([None, None, None, 2, 3]), 'inner': rng.random() < 0.5}


def corpus():
    return [
        # F54: compartment `g` (two legacy derivers among its steps) is generated at t=2 and again, over itself, at t=3
        {'kind': 'dynflow', 'entry': 'parts', 'initial': ['a'], 'generate_at': 2, 'divide_at': None, 'ticks': 5,
         'x0': 0, 'slow': None, 'director': 'process', 'regen_at': 3},
        # F53: the steps of the generated compartment are handed over in its `processes` dictionary, with a flow
        {'kind': 'dynflow', 'entry': 'parts', 'initial': ['a'], 'generate_at': 2, 'divide_at': None, 'ticks': 4,
         'x0': 0, 'slow': None, 'director': 'process', 'steps_in_processes': True},
        # a compartment generated at run time holds steps only (no ordinary process); one of two in the same directive
        {'kind': 'dynflow', 'entry': 'parts', 'initial': ['a'], 'generate_at': 2, 'divide_at': None, 'ticks': 4,
         'x0': 0, 'slow': None, 'director': 'process', 'steps_only': True},
        {'kind': 'dynflow', 'entry': 'composite', 'initial': ['a'], 'generate_at': 1, 'divide_at': None, 'ticks': 4,
         'x0': 2, 'slow': None, 'director': 'process', 'steps_only': True, 'twin': True},
        # compartment `a` (process, flow steps, two chained legacy derivers) is moved to another store at t=2
        {'kind': 'dynflow', 'entry': 'parts', 'initial': ['a', 'z'], 'generate_at': None, 'divide_at': None, 'ticks': 5,
         'x0': 0, 'slow': None, 'director': 'process', 'move_at': 2},
        # nothing but the director at the start (empty steps, empty flow); a compartment with steps is generated
        {'kind': 'dynflow', 'entry': 'composite', 'initial': [], 'generate_at': 2, 'divide_at': None, 'ticks': 4,
         'x0': 0, 'slow': None, 'director': 'process', 'bare': True},
        {'kind': 'dynflow', 'entry': 'store', 'initial': ['a'], 'generate_at': None, 'divide_at': None, 'ticks': 3,
         'x0': 2},
        {'kind': 'dynflow', 'entry': 'parts', 'initial': ['a'], 'generate_at': 2, 'divide_at': None, 'ticks': 4,
         'x0': 0},
        {'kind': 'dynflow', 'entry': 'composite', 'initial': ['a', 'z'], 'generate_at': None, 'divide_at': 2,
         'ticks': 4, 'x0': 7},
        # F36: the dividing mother holds a process (timestep 3) whose update is in flight; the daughters inherit it
        {'kind': 'dynflow', 'entry': 'parts', 'initial': ['a'], 'generate_at': None, 'divide_at': 2, 'ticks': 5,
         'x0': 1, 'slow': 3},
        # compartments merged into an environment composite at a path; a template merged into two replicates, the
        # first of which deletes the compartment; a composer whose flow depends on the configuration given to
        # generate()
        {'kind': 'dynflow', 'entry': 'merge', 'initial': ['a', 'z'], 'generate_at': None, 'divide_at': None,
         'ticks': 3, 'x0': 2},
        {'kind': 'dynflow', 'entry': 'template', 'initial': ['a', 'z'], 'generate_at': None, 'divide_at': None,
         'ticks': 3, 'x0': 2},
        {'kind': 'dynflow', 'entry': 'composer', 'initial': ['a'], 'generate_at': 2, 'divide_at': None,
         'ticks': 4, 'x0': 0},
        # the structure changes during a step phase (a legacy deriver generates / divides)
        {'kind': 'dynflow', 'entry': 'parts', 'initial': ['a', 'z'], 'generate_at': 2, 'divide_at': None, 'ticks': 4,
         'x0': 2, 'director': 'deriver'},
        {'kind': 'dynflow', 'entry': 'parts', 'initial': ['a', 'z'], 'generate_at': None, 'divide_at': 2, 'ticks': 4,
         'x0': 2, 'director': 'deriver'},
        # a flow step of the mother divides her (inheriting daughters) while a step of the same layer is running
        {'kind': 'dynflow', 'entry': 'parts', 'initial': ['a', 'z'], 'generate_at': None, 'divide_at': None,
         'ticks': 4, 'x0': 1, 'splitter_at': 2},
        # steps nested one level further down (also in the generated compartment), depending on a step further up
        {'kind': 'dynflow', 'entry': 'parts', 'initial': ['a'], 'generate_at': 2, 'divide_at': None, 'ticks': 4,
         'x0': 3, 'inner': True},
        # two compartments generated by one update
        {'kind': 'dynflow', 'entry': 'parts', 'initial': ['a'], 'generate_at': 1, 'divide_at': None, 'ticks': 4,
         'x0': 0, 'twin': True},
    ]


def _classes():
    from vivarium.core.process import Process, Step

    class Grow(Process):
        defaults = {'key': None}

        def ports_schema(self):
            return {'vars': {'x': {'_default': 0, '_emit': True, '_divider': 'set'}}}

        def next_update(self, timestep, states):
            return {'vars': {'x': 1}}

    class Slow(Process):
        """a process with a long timestep: its update is in flight when the compartment divides"""
        defaults = {'key': None, 'ts': 3}

        def ports_schema(self):
            return {'vars': {'slow_calls': {'_default': 0, '_divider': 'set'}}}

        def calculate_timestep(self, states):
            return self.parameters['ts']

        def next_update(self, timestep, states):
            return {'vars': {'slow_calls': 1}}

    class Chain(Step):
        defaults = {'key': None, 'role': 'start'}

        def ports_schema(self):
            sch = {v: {'_default': 0, '_emit': True, '_updater': 'set', '_divider': 'set'}
                   for v in ('a', 'b', 'c', 't', 't2', 'i1', 'i2')}
            sch['w'] = {'_default': 1, '_emit': True, '_updater': 'set', '_divider': 'set'}
            sch['x'] = {'_default': 0, '_emit': True, '_divider': 'set'}
            sch['name'] = {'_default': '', '_updater': 'set', '_divider': 'set'}
            return {'vars': sch}

        def next_update(self, timestep, states):
            role = self.parameters['role']
            v = states['vars']
            ctx = CTX.get(self.parameters['key'])
            if ctx is not None:
                ctx['log'].append({'e': 'step', 'role': role, 't': ctx['now'](), 'phase': ctx['phase'](), 'x': v['x']})
            if role == 'tally':
                return {'vars': {'t': v['x'] * 2}}
            if role == 'tally2':
                return {'vars': {'t2': v['t'] * 3}}
            if role == 'p':
                return {'vars': {'w': v['w'] * 2}}
            if role == 'q':
                return {'vars': {'w': v['w'] + 1}}
            if role == 'i1':
                return {'vars': {'i1': v['c'] * 2}}
            if role == 'i2':
                return {'vars': {'i2': v['i1'] + 1}}
            if role == 'start':
                return {'vars': {'a': v['x'] + 1}}
            if role == 'middle':
                return {'vars': {'b': v['a'] * 10}}
            return {'vars': {'c': v['b'] + 5}}

    class Splitter(Step):
        """a flow step (no dependencies: the layer of `start`) that divides its own compartment in phase `at`"""
        defaults = {'key': None, 'at': None, 'me': 'a'}

        def __init__(self, parameters=None):
            super().__init__(parameters)
            self.n = 0

        def ports_schema(self):
            return {'up': {'*': {}}}

        def next_update(self, timestep, states):
            phase = self.n
            self.n += 1
            me = self.parameters['me']
            if phase == self.parameters['at'] and me in states['up']:
                return {'up': {'_divide': {'mother': me, 'daughters': [{'key': me + '0'}, {'key': me + '1'}]}}}
            return {}

    class Director(Process):
        """issues the structural updates of the scenario"""
        defaults = {'key': None, 'case': None}

        def ports_schema(self):
            return {'agents': {'*': {'vars': {'x': {'_default': 0}}}},
                    'agents2': {'*': {'vars': {'x': {'_default': 0}}}}}

        def next_update(self, timestep, states):
            ctx = CTX.get(self.parameters['key'])
            case = self.parameters['case']
            t = ctx['now']() if ctx is not None else 0
            upd = {}
            if case['generate_at'] is not None and t + 1 == case['generate_at']:
                upd['_generate'] = generated(self.parameters['key'], case)
            if case.get('regen_at') is not None and t + 1 == case['regen_at']:
                # the same directive once more: new process and step objects take the places of the old ones
                upd['_generate'] = generated(self.parameters['key'], case)
            if case['divide_at'] is not None and t + 1 == case['divide_at'] and 'a' in states['agents']:
                upd['_divide'] = {'mother': 'a', 'daughters': [{'key': 'a0'}, {'key': 'a1'}]}
            if case.get('delete_at') is not None and t + 1 == case['delete_at'] and 'a' in states['agents']:
                upd['_delete'] = ['a']
            if case.get('move_at') is not None and t + 1 == case['move_at'] and 'a' in states['agents']:
                # the compartment goes on in the other store, with its processes, flow steps and legacy derivers
                upd['_move'] = [{'source': ('a',), 'target': 'agents2'}]
            return {'agents': upd} if upd else {}

    class DirectorStep(Step):
        """the same structural updates, issued by a legacy deriver during the step phase number `…_at`"""
        defaults = {'key': None, 'case': None}

        def __init__(self, parameters=None):
            super().__init__(parameters)
            self.n = 0

        def ports_schema(self):
            return {'agents': {'*': {'vars': {'x': {'_default': 0}}}},
                    'agents2': {'*': {'vars': {'x': {'_default': 0}}}}}

        def next_update(self, timestep, states):
            case = self.parameters['case']
            phase = self.n
            self.n += 1
            upd = {}
            if case['generate_at'] is not None and phase == case['generate_at']:
                upd['_generate'] = generated(self.parameters['key'], case)
            if case['divide_at'] is not None and phase == case['divide_at'] and 'a' in states['agents']:
                upd['_divide'] = {'mother': 'a', 'daughters': [{'key': 'a0'}, {'key': 'a1'}]}
            return {'agents': upd} if upd else {}

    return Grow, Chain, Director, Slow, DirectorStep, Splitter


def generated(key, case):
    """the `_generate` directive of the scenario: compartment `g`, and with `twin` a second one, `h`, in the same
    update (every entry of the list must reach the engine)"""
    out = [dict(compartment(key, case['x0'] + 100, inner=case.get('inner', False)), key='g')]
    if case.get('twin'):
        out.append(dict(compartment(key, case['x0'] + 200, inner=case.get('inner', False)), key='h'))
    if case.get('steps_only'):
        # the last compartment of the directive holds steps and no ordinary process (its x stays where it is)
        out[-1]['processes'] = {}
        out[-1]['topology'] = {k: v for k, v in out[-1]['topology'].items() if k != 'grow'}
    if case.get('steps_in_processes'):
        # the steps travel in the `processes` dictionary of the directive (the legacy placement); their flow counts
        for d in out:
            d['processes'] = dict(d['processes'], **d['steps'])
            d['steps'] = {}
    return out


def compartment(key, x0, slow=None, splitter_at=None, me='a', inner=False):
    Grow, Chain, _, Slow, _, Splitter = _classes()
    procs = {'grow': Grow({'key': key})}
    if slow:
        procs['slow'] = Slow({'key': key, 'ts': slow})
    comp = {'processes': procs,
            'steps': {r: Chain({'key': key, 'role': r}) for r in ALL_ROLES},
            'flow': {r: list(FLOW[r]) for r in ROLES},
            'topology': dict({p: {'vars': ('vars',)} for p in procs}, **{r: {'vars': ('vars',)} for r in ALL_ROLES}),
            'initial_state': {'vars': {'x': x0}}}
    # two steps of one layer (no dependencies) whose updates do not commute, declared q before p: the steps of a
    # layer are started from one state and their updates applied in path order, p then q, so w grows by 1 per phase
    # (not doubled) through every entry point
    comp['steps']['q'] = Chain({'key': key, 'role': 'q'})
    comp['steps']['p'] = Chain({'key': key, 'role': 'p'})
    comp['flow']['q'] = []
    comp['flow']['p'] = []
    comp['topology']['q'] = {'vars': ('vars',)}
    comp['topology']['p'] = {'vars': ('vars',)}
    if inner:
        # a sub-dictionary of steps, declared in reverse: i2 waits for i1, i1 for `finish` one level up
        comp['steps']['inner'] = {'i2': Chain({'key': key, 'role': 'i2'}), 'i1': Chain({'key': key, 'role': 'i1'})}
        comp['flow']['inner'] = {'i2': [('i1',)], 'i1': [('..', 'finish')]}
        comp['topology']['inner'] = {'i2': {'vars': ('..', 'vars')}, 'i1': {'vars': ('..', 'vars')}}
    if splitter_at is not None:
        comp['steps']['splitter'] = Splitter({'key': key, 'at': splitter_at, 'me': me})
        comp['flow']['splitter'] = []
        comp['topology']['splitter'] = {'up': ('..',)}
    return comp


def cell_composer(key, slow=None):
    from vivarium.core.composer import Composer

    class Cell(Composer):
        defaults = {'chain': False}

        def generate_processes(self, config):
            return compartment(key, 0, slow)['processes']

        def generate_steps(self, config):
            steps = compartment(key, 0, slow)['steps']
            return steps if config['chain'] else {'tally': steps['tally'], 'tally2': steps['tally2']}

        def generate_flow(self, config):
            return compartment(key, 0, slow)['flow'] if config['chain'] else {}

        def generate_topology(self, config):
            topo = compartment(key, 0, slow)['topology']
            return topo if config['chain'] else {k: v for k, v in topo.items() if k not in ROLES + ['p', 'q']}
    return Cell({})


def run_impl(case):
    from vivarium.core.engine import Engine
    from vivarium.core.composer import Composite
    from vivarium.core.emitter import Emitter
    from vivarium.core.registry import emitter_registry
    _, _, Director, _, DirectorStep, _ = _classes()
    key = f'df-{next(_ids)}'
    ctx = {'log': [], 'engine': None, 'nphase': 0}
    ctx['now'] = lambda: 0 if ctx['engine'] is None else int(round(ctx['engine'].global_time))
    ctx['phase'] = lambda: ctx['nphase']
    CTX[key] = ctx

    class DFEmitter(Emitter):
        def emit(self, data):
            c = CTX.get(self.config.get('ctx_key'))
            if c is not None and data['table'] == 'history':
                agents = dict(data['data'].get('agents') or {}, **(data['data'].get('agents2') or {}))
                c['log'].append({'e': 'emit', 't': int(round(data['data']['time'])), 'phase': c['nphase'],
                                 'agents': {k: dict(v.get('vars') or {}) for k, v in agents.items()}})
                c['nphase'] += 1          # every row closes one step phase
    if emitter_registry.access('verif_df') is None:
        emitter_registry.register('verif_df', DFEmitter)
    obs = {'log': ctx['log']}
    try:
        if case.get('director') == 'deriver':
            # a legacy deriver (no flow entry), listed ahead of every other step
            parts = {'processes': {'agents': {}},
                     'steps': {'director': DirectorStep({'key': key, 'case': case}), 'agents': {}},
                     'flow': {'agents': {}},
                     'topology': {'agents': {}, 'director': {'agents': ('agents',), 'agents2': ('agents2',)}}}
        else:
            parts = {'processes': {'agents': {}, 'director': Director({'key': key, 'case': case})},
                     'steps': {'agents': {}}, 'flow': {'agents': {}},
                     'topology': {'agents': {}, 'director': {'agents': ('agents',), 'agents2': ('agents2',)}}}
        if case.get('bare'):
            parts['steps'], parts['flow'] = {}, {}
        init = {'agents': {}}
        for i, k in enumerate(case['initial']):
            comp = compartment(key, case['x0'] + 10 * i, case.get('slow'),
                               case.get('splitter_at') if k == 'a' else None, k, case.get('inner', False))
            for part in ('processes', 'steps', 'flow', 'topology'):
                parts[part]['agents'][k] = comp[part]
            init['agents'][k] = comp['initial_state']
        kw = dict(emitter={'type': 'verif_df', 'ctx_key': key}, display_info=False, progress_bar=False)

        def director_parts(c):
            if c.get('director') == 'deriver':
                return dict(steps={'director': DirectorStep({'key': key, 'case': c})},
                            topology={'director': {'agents': ('agents',), 'agents2': ('agents2',)}})
            return dict(processes={'director': Director({'key': key, 'case': c})},
                        topology={'director': {'agents': ('agents',), 'agents2': ('agents2',)}})

        def nested(comp, k):
            return Composite({part: {'agents': {k: comp[part]}} for part in ('processes', 'steps', 'flow', 'topology')})
        if case['entry'] == 'parts':
            eng = Engine(processes=parts['processes'], steps=parts['steps'], flow=parts['flow'],
                         topology=parts['topology'], initial_state=init, **kw)
        elif case['entry'] == 'composite':
            built_from = Composite(parts)
            eng = Engine(composite=built_from, initial_state=init, **kw)
        elif case['entry'] == 'merge':
            # every compartment is merged into the environment composite at its path
            env = Composite({})
            for i, k in enumerate(case['initial']):
                comp = compartment(key, case['x0'] + 10 * i, case.get('slow'))
                env.merge(composite=Composite({p_: comp[p_] for p_ in ('processes', 'steps', 'flow', 'topology')}),
                          path=('agents', k))
            env.merge(state=init, **director_parts(case))
            eng = Engine(composite=env, **kw)
        elif case['entry'] == 'template':
            # compartment templates (already nested at their paths) are merged into a fresh environment for every
            # replicate; in a first replicate, which is not judged, compartment `a` is deleted at run time
            # (no slow process here: a serial process object whose compartment is deleted while its update is in
            # flight keeps that command pending, and the replicates share the template's process objects —
            # noted edge, not part of this family)
            templates = [nested(compartment(key, case['x0'] + 10 * i, None), k)
                         for i, k in enumerate(case['initial'])]
            pilot_case = dict(case, generate_at=None, divide_at=None, delete_at=1, director='process')
            for c in (pilot_case, case):
                env = Composite({})
                for tpl in templates:
                    env.merge(composite=tpl)
                # (the state travels with the composite: a composite that carries any state of its own makes the
                # engine ignore its `initial_state` argument — noted edge F21)
                env.merge(state=init, **director_parts(c))
                if c is pilot_case:
                    ctx['engine'] = None
                    pilot = Engine(composite=env, emitter={'type': 'null'}, display_info=False,
                                   progress_bar=False)
                    pilot.update(2)
                    pilot.end()
                    del ctx['log'][:]
                    ctx['nphase'] = 0
                else:
                    eng = Engine(composite=env, **kw)
        elif case['entry'] == 'composer':
            # the chain of steps and its flow exist only under the configuration handed to generate()
            env = Composite({})
            cell = cell_composer(key, case.get('slow'))
            for i, k in enumerate(case['initial']):
                env.merge(composite=cell.generate({'chain': True}, path=('agents', k)))
            env.merge(state=init, **director_parts(case))
            eng = Engine(composite=env, **kw)
        else:
            eng = Engine(store=Composite(parts).generate_store({'initial_state': init}), **kw)
        ctx['engine'] = eng
        eng.update(case['ticks'])
        obs['final'] = sorted((eng.state.get_value().get('agents') or {}).keys())
        from vivarium.core.store import hierarchy_depth

        def leaves(d):
            return sorted(list(p) for p in hierarchy_depth(d or {}).keys())
        # (a step handed over in a `processes` dictionary is published there: the legacy placement)
        proc_steps = [list(p) for p, o in hierarchy_depth(eng.processes or {}).items() if o.is_step()]
        obs['published'] = {'steps': sorted(leaves(eng.steps) + proc_steps), 'flow': leaves(eng.flow),
                            'store_steps': leaves(eng.state.get_steps() or {}),
                            'store_flow': leaves(eng.state.get_flow() or {})}
        if case['entry'] == 'composite':
            # the Composite the engine was built from is kept up to date as well
            wb_proc_steps = [list(p) for p, o in hierarchy_depth(built_from['processes'] or {}).items() if o.is_step()]
            obs['published']['written_back'] = {'steps': sorted(leaves(built_from['steps']) + wb_proc_steps),
                                                'flow': leaves(built_from['flow'])}
    except Exception as e:  # noqa
        obs['raised'] = f'{type(e).__name__}: {str(e)[:200]}'
    finally:
        CTX.pop(key, None)
    return obs


def oracle(case, impl, who=('order', 'values', 'once', 'published', 'alive')):
    if 'harness_exception' in impl:
        return [f'probe-crashed: {impl["harness_exception"]}']
    if impl.get('timeout'):
        return []
    if impl.get('raised'):
        return [f'engine-raised: {impl["raised"]}']
    fails = []
    log = impl['log']
    rows = [ev for ev in log if ev['e'] == 'emit']
    # structural changes made by a step happen during a phase: what they create waits for the next one
    by_deriver = case.get('director') == 'deriver' or case.get('splitter_at') is not None
    prev = None
    fresh_by_row = {}
    for row in rows:
        # compartments created during this row's phase by a step: their steps first run in the next phase
        fresh = set(row['agents']) - set(prev['agents']) if (by_deriver and prev is not None) else set()
        fresh_by_row[row['phase']] = fresh
        prev = row
    if 'values' in who:
        for row in rows:
            for k, v in sorted(row['agents'].items()):
                if not all(n in v for n in 'xabct'):
                    fails.append(f'steps-lost: at t={row["t"]} compartment {k} holds only {sorted(v)}: the steps it '
                                 f'was created with (and their variables a, b, c, t) are not there')
                    break
                if k in fresh_by_row[row['phase']]:
                    continue
                if v['a'] != v['x'] + 1 or v['b'] != 10 * v['a'] or v['c'] != v['b'] + 5:
                    fails.append(f'sees-deps: at t={row["t"]} compartment {k} holds x={v["x"]} a={v["a"]} b={v["b"]} '
                                 f'c={v["c"]}: a step ran before the update of its dependency was applied '
                                 f'(a = x + 1, b = 10 a, c = b + 5 must hold after every phase)')
                    break
                if case.get('inner') and case['entry'] in ('parts', 'composite', 'store') \
                        and (v.get('i1') != 2 * v['c'] or v.get('i2') != 2 * v['c'] + 1):
                    fails.append(f'sees-deps: at t={row["t"]} compartment {k} holds c={v["c"]} i1={v.get("i1")} '
                                 f'i2={v.get("i2")}: the nested steps (i1 = 2 c after `finish` one level up, '
                                 f'i2 = i1 + 1) did not run in dependency order')
                    break
                if k in case['initial'] and 'w' in v and v['w'] != 2 + row['phase']:
                    fails.append(f'layer-order: at t={row["t"]} compartment {k} holds w={v["w"]} after '
                                 f'{row["phase"] + 1} phases: two steps of one layer (w := 2 w and w := w + 1) are '
                                 f'applied in path order, which leaves w + 1 per phase ({2 + row["phase"]})')
                    break
                if v['t'] != 2 * v['x']:
                    fails.append(f'deriver-skipped: at t={row["t"]} compartment {k} holds x={v["x"]} t={v["t"]}: its '
                                 f'legacy deriver (t = 2 x) did not run in this phase')
                    break
                if 't2' in v and v['t2'] != 3 * v['t']:
                    fails.append(f'deriver-order: at t={row["t"]} compartment {k} holds t={v["t"]} t2={v["t2"]}: its '
                                 f'second legacy deriver (t2 = 3 t) did not see what the first one wrote in this phase '
                                 f'(derivers run one at a time, in declaration order)')
                    break
            if fails:
                break
    if 'alive' in who and not fails:
        # every compartment's `grow` process (+1 per time unit) has been simulated from the moment the compartment
        # came into being up to the time of the row
        born = {k: (0, case['x0'] + 10 * i) for i, k in enumerate(case['initial'])}
        for row in rows:
            for k, v in sorted(row['agents'].items()):
                if case.get('regen_at') is not None and row['t'] == case['regen_at'] and k in ('g', 'h') and 'x' in v:
                    born[k] = (row['t'], v['x'])        # generated anew: counted from what it holds now
                    continue
                if k not in born:
                    if k in ('g', 'h') and 'x' in v:
                        born[k] = (row['t'], case['x0'] + (100 if k == 'g' else 200))
                    else:
                        continue                 # daughters start from the mother's value: not judged here
                t0, x0 = born[k]
                idle = case.get('steps_only') and k == ('h' if case.get('twin') else 'g')   # holds no process
                if 'x' in v and v['x'] != x0 + (0 if idle else row['t'] - t0):
                    fails.append(f'simulated-to-now: at t={row["t"]} compartment {k} (created at {t0} with x={x0}) '
                                 f'holds x={v["x"]}: its process adds 1 per time unit and should have been '
                                 f'simulated for {row["t"] - t0}')
                    break
            if fails:
                break
    pub = impl.get('published')
    if 'published' in who and pub and not fails:
        if pub['steps'] != pub['store_steps']:
            fails.append(f'published: the engine publishes steps {pub["steps"]}, the hierarchy holds {pub["store_steps"]}')
        ghost = [p for p in pub['flow'] if p not in pub['steps']]
        if ghost:
            fails.append(f'published: the published flow has entries {ghost} for steps that do not exist '
                         f'(an engine built from the published composite rejects it)')
        wb = pub.get('written_back')
        if wb and (wb['steps'] != pub['store_steps'] or wb['flow'] != pub['store_flow']):
            fails.append(f'published: the Composite the engine was built from holds steps {wb["steps"]} with flow '
                         f'entries {wb["flow"]}; the hierarchy holds steps {pub["store_steps"]} with flow entries '
                         f'{pub["store_flow"]}')
    if 'once' in who or 'order' in who:
        # the steps logged between two rows form one phase (all compartments together)
        by_phase = {}
        for ev in log:
            if ev['e'] == 'step':
                by_phase.setdefault(ev['phase'], []).append(ev['role'])
                if ev['phase'] in fresh_by_row and 'g' in fresh_by_row[ev['phase']] \
                        and ev['x'] >= case['x0'] + 100 and not fails:
                    fails.append(f'too-early: step {ev["role"]!r} of the compartment generated during the phase at '
                                 f't={ev["t"]} ran in that same phase')
        prev_row = None
        for row in rows:
            roles = by_phase.get(row['phase'], [])
            n = len([k for k, v in row['agents'].items()
                     if all(x in v for x in 'xabc') and k not in fresh_by_row[row['phase']]])
            gone = set(prev_row['agents']) - set(row['agents']) if prev_row is not None else set()
            for r in ALL_ROLES:
                # a deriver of a compartment that a later deriver removes in this very phase has had its turn; so
                # have the steps of the first layer when a step of that layer divides their compartment
                early = ('tally', 'tally2', 'start') if case.get('splitter_at') is not None else ('tally', 'tally2')
                slack = len(gone) if (r in early and by_deriver) else 0
                if 'once' in who and not (n <= roles.count(r) <= n + slack) and not fails:
                    fails.append(f'once: in the phase at t={row["t"]} the step {r!r} ran {roles.count(r)} times for '
                                 f'{n} compartments')
            prev_row = row
            if fails:
                break
    return fails[:3]
