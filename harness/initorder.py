"""Competing initial values (scenario family of C15 and C04).

Several processes of a composite propose different initial values for one variable through their
`initial_state()`.  `Composite.initial_state()` merges them in the order the processes are declared
(the later one wins) — in particular the result is a function of the composite, not of the hash
seed of the interpreter (finding F44: the processes used to be visited as a `set` of names)."""
import itertools

from vivarium.core.process import Process as _Process

_ids = itertools.count()


class ConfiguredStart(_Process):
    """its initial values come from the configuration handed to initial_state() (module level: it is pickled when
    wrapped for parallel execution)"""
    name = 'growth'
    defaults = {'density': 2.0}

    def ports_schema(self):
        return {'cell': {'mass': {'_default': 0.0}, 'volume': {'_default': 0.0}}}

    def initial_state(self, config=None):
        mass = (config or {}).get('mass', 1.0)
        return {'cell': {'mass': mass, 'volume': mass / self.parameters['density']}}

    def next_update(self, timestep, states):
        return {}
NAMES = ['alpha', 'beta', 'gamma', 'delta', 'eps', 'zeta', 'eta', 'theta', 'iota', 'kappa', 'p1', 'p2', 'q', 'zz']


def gen_case(rng):
    n = rng.choice([3, 4, 5, 6])
    return {'kind': 'initorder', 'names': rng.sample(NAMES, n), 'steps': rng.choice([0, 0, 1]),
            'values': [rng.randrange(1, 100) for _ in range(n)],
            'mode': rng.choice(['order', 'order', 'other-composite', 'dict-values', 'list-units', 'merge-path',
                                'merge-path', 'parallel-config', 'shared-ports', 'shared-ports']),
            'ports': rng.sample(['inside', 'outside', 'extra'], rng.choice([2, 3])), 'swap': rng.random() < 0.5,
            'mass': rng.choice([3.0, 0.5, 7.0]),
            'n': rng.choice([1, 1, 2, 3]), 'second': rng.choice(['meter', 'gram', 'none']),
            'depth': rng.choice([1, 2, 3]), 'via': rng.choice(['state', 'composite']),
            'dicts': rng.choice([['sub', 'super'], ['super', 'sub'], ['same', 'same'], ['sub', 'other']])}


def corpus():
    return [{'kind': 'initorder', 'names': ['alpha', 'beta', 'gamma'], 'steps': 0, 'values': [1, 2, 3]},
            {'kind': 'initorder', 'names': ['zeta', 'p1', 'q', 'eps', 'kappa'], 'steps': 1, 'values': [5, 4, 3, 2, 1]},
            # a state merged into one composite must not show in a composite built afterwards
            {'kind': 'initorder', 'names': ['alpha', 'beta', 'gamma'], 'steps': 0, 'values': [1, 2, 3],
             'mode': 'other-composite'},
            # dictionary `_value` declarations that differ (one a strict superset of the other) are incompatible
            {'kind': 'initorder', 'names': ['alpha', 'beta'], 'steps': 0, 'values': [1, 2], 'mode': 'dict-values',
             'dicts': ['sub', 'super']},
            # a default that is a list of quantities gives the variable its units, whatever the length of the list
            {'kind': 'initorder', 'mode': 'list-units', 'n': 1, 'second': 'meter'},
            {'kind': 'initorder', 'mode': 'list-units', 'n': 1, 'second': 'none'},
            {'kind': 'initorder', 'mode': 'list-units', 'n': 2, 'second': 'gram'},
            # a state merged in together with a path belongs below that path
            {'kind': 'initorder', 'mode': 'merge-path', 'depth': 2, 'via': 'state', 'values': [10, 20]},
            {'kind': 'initorder', 'mode': 'merge-path', 'depth': 1, 'via': 'composite', 'values': [10, 20]},
            # several ports of one process wired to one store: the initial values proposed through each of them
            # are all part of the initial state, in whatever order the ports are listed
            {'kind': 'initorder', 'mode': 'shared-ports', 'ports': ['inside', 'outside'], 'swap': False,
             'values': [5, 100, 7]},
            {'kind': 'initorder', 'mode': 'shared-ports', 'ports': ['outside', 'extra', 'inside'], 'swap': True,
             'values': [5, 100, 7]},
            # a process wrapped for parallel execution is handed the same configuration as the plain one
            {'kind': 'initorder', 'mode': 'parallel-config', 'mass': 3.0}]


def run_impl(case):
    import warnings
    warnings.simplefilter('ignore')
    from vivarium.core.process import Process, Step
    from vivarium.core.composer import Composite
    from vivarium.core.engine import Engine

    class P(Process):
        defaults = {'v': 0}

        def ports_schema(self):
            return {'s': {'x': {'_default': 0, '_emit': True}}}

        def initial_state(self, config=None):
            return {'s': {'x': self.parameters['v']}}

        def next_update(self, timestep, states):
            return {}

    class S(Step):
        defaults = {'v': 0}

        def ports_schema(self):
            return {'s': {'x': {'_default': 0}}}

        def initial_state(self, config=None):
            return {'s': {'x': self.parameters['v']}}

        def next_update(self, timestep, states):
            return {}

    DICTS = {'sub': {'glc': 1.0}, 'super': {'glc': 1.0, 'lac': 2.0}, 'same': {'glc': 1.0, 'lac': 2.0},
             'other': {'glc': 3.0}}

    class D(Process):
        defaults = {'which': 'sub'}

        def ports_schema(self):
            return {'s': {'pool': {'_value': dict(DICTS[self.parameters['which']]), '_updater': 'set'}}}

        def next_update(self, timestep, states):
            return {}

    obs = {}
    if case.get('mode') == 'dict-values':
        try:
            a, b = case['dicts']
            Engine(processes={'first': D({'which': a}), 'second': D({'which': b})},
                   topology={'first': {'s': ('s',)}, 'second': {'s': ('s',)}}, emitter={'type': 'null'},
                   display_info=False, progress_bar=False)
            obs['built'] = True
        except Exception as e:  # noqa
            obs['built'] = False
            obs['error'] = type(e).__name__
        return obs
    if case.get('mode') == 'list-units':
        from vivarium.library.units import units

        class L(Process):
            defaults = {'x': {}}

            def ports_schema(self):
                return {'s': {'x': dict(self.parameters['x'])}}

            def next_update(self, timestep, states):
                return {}
        grams = [float(i + 1) * units.g for i in range(case['n'])]
        second = {'meter': {'_units': units.m, '_updater': 'set'},
                  'gram': {'_default': list(grams), '_units': units.g}, 'none': {'_emit': True}}[case['second']]
        try:
            eng = Engine(processes={'first': L({'x': {'_default': list(grams)}}), 'second': L({'x': second})},
                         topology={'first': {'s': ('s',)}, 'second': {'s': ('s',)}}, emitter={'type': 'null'},
                         display_info=False, progress_bar=False)
            node = eng.state.get_path(('s', 'x'))
            obs['built'] = True
            obs['units'] = str(node.units)
            obs['value_ok'] = node.value == grams
        except Exception as e:  # noqa
            obs['built'] = False
            obs['error'] = type(e).__name__
        return obs
    if case.get('mode') == 'shared-ports':
        vals = dict(zip(['inside', 'outside', 'extra'], (case['values'] + [9, 8, 7])[:3]))
        seen = []

        class X(Process):
            def ports_schema(self):
                return {p: {'v_' + p: {'_default': 0, '_emit': True}} for p in case['ports']}

            def initial_state(self, config=None):
                return {p: {'v_' + p: vals[p]} for p in case['ports']}

            def next_update(self, timestep, states):
                return {p: {'v_' + p: 1} for p in case['ports']}

        class C(Process):
            def ports_schema(self):
                return {'pool': dict({'v_' + p: {'_default': 0} for p in case['ports']}, n={'_default': 0})}

            def initial_state(self, config=None):
                return {'pool': {'n': 10}}

            def next_update(self, timestep, states):
                seen.append({k: v for k, v in states['pool'].items() if k != 'n'})
                return {'pool': {'n': 1}}
        try:
            procs = {'x': X({}), 'c': C({})}
            topo = {'x': {p: ('cell',) for p in case['ports']}, 'c': {'pool': ('cell',)}}
            order = ['c', 'x'] if case['swap'] else ['x', 'c']
            comp = Composite(processes={n: procs[n] for n in order}, topology={n: topo[n] for n in order})
            ini = comp.initial_state()
            obs['initial'] = ini
            eng = Engine(composite=comp, initial_state=ini, emitter={'type': 'null'}, display_info=False,
                         progress_bar=False)
            obs['start'] = {k: v for k, v in eng.state.get_value()['cell'].items()}
            eng.update(2)
            obs['seen'] = seen
        except Exception as e:  # noqa
            obs['raised'] = f'{type(e).__name__}: {str(e)[:200]}'
        return obs
    if case.get('mode') == 'parallel-config':
        from vivarium.core.process import ParallelProcess
        wrapped = None
        try:
            topo = {'growth': {'cell': ('agents', 'a', 'cell')}}
            config = {'growth': {'mass': case['mass']}}
            serial = Composite({'processes': {'growth': ConfiguredStart()}, 'topology': topo})
            obs['serial'] = serial.initial_state(config)
            wrapped = ParallelProcess(ConfiguredStart())
            par = Composite({'processes': {'growth': wrapped}, 'topology': topo})
            obs['parallel'] = par.initial_state(config)
        except Exception as e:  # noqa
            obs['raised'] = f'{type(e).__name__}: {str(e)[:200]}'
        finally:
            if wrapped is not None:
                try:
                    wrapped.end()
                except Exception:  # noqa
                    pass
        return obs
    if case.get('mode') == 'merge-path':
        v0, v1 = case['values'][:2]
        path = ('agents', '1', 'cell')[:case['depth']]
        try:
            comp = Composite({'processes': {'root': P({'v': 0})}, 'topology': {'root': {'s': ('s',)}}})
            sub = {'processes': {'inner': P({'v': 0})}, 'topology': {'inner': {'s': ('s',)}}}
            if case['via'] == 'state':
                comp.merge(composite=Composite(sub), path=path, state={'s': {'x': v1}})
            else:
                comp.merge(composite=Composite(dict(sub, state={'s': {'x': v1}})), path=path)
            comp.merge(state={'s': {'x': v0}})
            eng = Engine(composite=comp, emitter={'type': 'null'}, display_info=False, progress_bar=False)
            state = eng.state.get_value()
            node = state
            for seg in path:
                node = node[seg]
            obs['root'] = state['s']['x']
            obs['below'] = node['s']['x']
            ini = comp.initial_state()
            node = ini
            for seg in path:
                node = node.get(seg, {})
            obs['initial_below'] = node.get('s', {}).get('x')
            obs['initial_root'] = ini.get('s', {}).get('x')
        except Exception as e:  # noqa
            obs['raised'] = f'{type(e).__name__}: {str(e)[:200]}'
        return obs
    try:
        if case.get('mode') == 'other-composite':
            # an unrelated composite, built earlier, into which a state is merged
            earlier = Composite({'processes': {'e': P({'v': 7})}, 'topology': {'e': {'s': ('s',)}}})
            earlier.merge(state={'s': {'x': 5000}})
        k = case['steps']
        names, values = case['names'], case['values']
        procs = {n: P({'v': v}) for n, v in zip(names[:len(names) - k], values)}
        steps = {n: S({'v': v}) for n, v in zip(names[len(names) - k:], values[len(names) - k:])}
        comp = Composite({'processes': procs, 'steps': steps,
                          'topology': {n: {'s': ('s',)} for n in names}})
        obs['initial'] = comp.initial_state()['s']['x']
        eng = Engine(composite=comp, initial_state=comp.initial_state(), emitter={'type': 'null'},
                     display_info=False, progress_bar=False)
        obs['engine'] = eng.state.get_value()['s']['x']
    except Exception as e:  # noqa
        obs['raised'] = f'{type(e).__name__}: {str(e)[:200]}'
    return obs


def oracle(case, impl):
    if 'harness_exception' in impl:
        return [f'probe-crashed: {impl["harness_exception"]}']
    if impl.get('timeout'):
        return []
    if impl.get('raised'):
        return [f'engine-raised: {impl["raised"]}']
    if case.get('mode') == 'dict-values':
        a, b = case['dicts']
        same = a == b or (a, b) in (('super', 'same'), ('same', 'super'))
        if impl['built'] != same:
            return [f'incompatible-values: two processes declare `_value` {a!r} and {b!r} dictionaries for one '
                    f'variable; construction {"succeeded" if impl["built"] else "raised " + str(impl.get("error"))}, '
                    f'declarations that differ must be rejected and equal ones accepted']
        return []
    if case.get('mode') == 'list-units':
        n, second = case['n'], case['second']
        if second == 'meter':
            if impl['built']:
                return [f'incompatible-units: a default that is a list of {n} quantities in gram and a declaration of '
                        f'`_units` meter for the same variable were accepted (the variable has units '
                        f'{impl["units"]}); incompatible units must be rejected at construction']
            return []
        if not impl['built']:
            return [f'compatible-units: declarations that agree (list of {n} quantities in gram, second: {second}) '
                    f'raised {impl.get("error")}']
        if impl['units'] != 'gram' or not impl['value_ok']:
            return [f'units-of-default: a variable declared with a default of {n} quantities in gram has units '
                    f'{impl["units"]}' + ('' if impl['value_ok'] else ' and another value than its default')]
        return []
    if case.get('mode') == 'shared-ports':
        vals = dict(zip(['inside', 'outside', 'extra'], (case['values'] + [9, 8, 7])[:3]))
        want = dict({'v_' + p: vals[p] for p in case['ports']}, n=10)
        fails = []
        if impl['initial'] != {'cell': want} or impl['start'] != want:
            fails.append(f'shared-ports: a process proposes {want} through its ports {case["ports"]}, all wired to one '
                         f'store: Composite.initial_state() = {impl["initial"]}, the engine starts from {impl["start"]}')
        shown = [{k: v + i for k, v in want.items() if k != 'n'} for i in range(2)]
        if impl['seen'] != shown:
            fails.append(f'shared-ports: the other process is shown {impl["seen"]}, the committed states are {shown}')
        return fails
    if case.get('mode') == 'parallel-config':
        want = {'agents': {'a': {'cell': {'mass': case['mass'], 'volume': case['mass'] / 2.0}}}}
        if impl['serial'] != want or impl['parallel'] != want:
            return [f'parallel-config: initial_state({{growth: {{mass: {case["mass"]}}}}}) gives {impl["serial"]} for the '
                    f'plain process and {impl["parallel"]} for the same process wrapped as a ParallelProcess; both '
                    f'must be {want}']
        return []
    if case.get('mode') == 'merge-path':
        v0, v1 = case['values'][:2]
        got = (impl['root'], impl['below'], impl['initial_root'], impl['initial_below'])
        if got != (v0, v1, v0, v1):
            return [f'merge-path: a sub-model merged at depth {case["depth"]} with the state x={v1} (via '
                    f'{case["via"]}) and a root state x={v0}: the engine starts from root x={impl["root"]}, below the '
                    f'path x={impl["below"]}; initial_state() gives root {impl["initial_root"]}, below '
                    f'{impl["initial_below"]}']
        return []
    want = case['values'][-1]          # processes in declaration order, then steps: the last declared wins
    if impl['initial'] != want or impl['engine'] != want:
        return [f'declaration-order: processes {case["names"]} propose {case["values"]} for one variable; '
                f'initial_state() gives {impl["initial"]}, the engine starts from {impl["engine"]}; merged in '
                f'declaration order the value is {want}']
    return []
