"""Competing initial values (scenario family of C15 and C04).

Several processes of a composite propose different initial values for one variable through their
`initial_state()`.  `Composite.initial_state()` merges them in the order the processes are declared
(the later one wins) — in particular the result is a function of the composite, not of the hash
seed of the interpreter (finding F44: the processes used to be visited as a `set` of names)."""
import itertools

_ids = itertools.count()
NAMES = ['alpha', 'beta', 'gamma', 'delta', 'eps', 'zeta', 'eta', 'theta', 'iota', 'kappa', 'p1', 'p2', 'q', 'zz']


def gen_case(rng):
    n = rng.choice([3, 4, 5, 6])
    return {'kind': 'initorder', 'names': rng.sample(NAMES, n), 'steps': rng.choice([0, 0, 1]),
            'values': [rng.randrange(1, 100) for _ in range(n)],
            'mode': rng.choice(['order', 'order', 'other-composite', 'dict-values']),
            'dicts': rng.choice([['sub', 'super'], ['super', 'sub'], ['same', 'same'], ['sub', 'other']])}


def corpus():
    return [{'kind': 'initorder', 'names': ['alpha', 'beta', 'gamma'], 'steps': 0, 'values': [1, 2, 3]},
            {'kind': 'initorder', 'names': ['zeta', 'p1', 'q', 'eps', 'kappa'], 'steps': 1, 'values': [5, 4, 3, 2, 1]},
            # a state merged into one composite must not show in a composite built afterwards
            {'kind': 'initorder', 'names': ['alpha', 'beta', 'gamma'], 'steps': 0, 'values': [1, 2, 3],
             'mode': 'other-composite'},
            # dictionary `_value` declarations that differ (one a strict superset of the other) are incompatible
            {'kind': 'initorder', 'names': ['alpha', 'beta'], 'steps': 0, 'values': [1, 2], 'mode': 'dict-values',
             'dicts': ['sub', 'super']}]


def run_impl(case):
    from vivarium.core.process import Process, Step
    from vivarium.core.composer import Composite
    from vivarium.core.engine import Engine

    class P(Process):
        defaults = {'v': 0}

        def ports_schema(self):
            return {'s': {'x': {'_default': 0, '_emit': True}}}

        def initial_state(self, config=None):
            return {'s': {'x': self.parameters['v']}}

        def next_update(self, timestep, states):
            return {}

    class S(Step):
        defaults = {'v': 0}

        def ports_schema(self):
            return {'s': {'x': {'_default': 0}}}

        def initial_state(self, config=None):
            return {'s': {'x': self.parameters['v']}}

        def next_update(self, timestep, states):
            return {}

    DICTS = {'sub': {'glc': 1.0}, 'super': {'glc': 1.0, 'lac': 2.0}, 'same': {'glc': 1.0, 'lac': 2.0},
             'other': {'glc': 3.0}}

    class D(Process):
        defaults = {'which': 'sub'}

        def ports_schema(self):
            return {'s': {'pool': {'_value': dict(DICTS[self.parameters['which']]), '_updater': 'set'}}}

        def next_update(self, timestep, states):
            return {}

    obs = {}
    if case.get('mode') == 'dict-values':
        try:
            a, b = case['dicts']
            Engine(processes={'first': D({'which': a}), 'second': D({'which': b})},
                   topology={'first': {'s': ('s',)}, 'second': {'s': ('s',)}}, emitter={'type': 'null'},
                   display_info=False, progress_bar=False)
            obs['built'] = True
        except Exception as e:  # noqa
            obs['built'] = False
            obs['error'] = type(e).__name__
        return obs
    try:
        if case.get('mode') == 'other-composite':
            # an unrelated composite, built earlier, into which a state is merged
            earlier = Composite({'processes': {'e': P({'v': 7})}, 'topology': {'e': {'s': ('s',)}}})
            earlier.merge(state={'s': {'x': 5000}})
        k = case['steps']
        names, values = case['names'], case['values']
        procs = {n: P({'v': v}) for n, v in zip(names[:len(names) - k], values)}
        steps = {n: S({'v': v}) for n, v in zip(names[len(names) - k:], values[len(names) - k:])}
        comp = Composite({'processes': procs, 'steps': steps,
                          'topology': {n: {'s': ('s',)} for n in names}})
        obs['initial'] = comp.initial_state()['s']['x']
        eng = Engine(composite=comp, initial_state=comp.initial_state(), emitter={'type': 'null'},
                     display_info=False, progress_bar=False)
        obs['engine'] = eng.state.get_value()['s']['x']
    except Exception as e:  # noqa
        obs['raised'] = f'{type(e).__name__}: {str(e)[:200]}'
    return obs


def oracle(case, impl):
    if 'harness_exception' in impl:
        return [f'probe-crashed: {impl["harness_exception"]}']
    if impl.get('timeout'):
        return []
    if impl.get('raised'):
        return [f'engine-raised: {impl["raised"]}']
    if case.get('mode') == 'dict-values':
        a, b = case['dicts']
        same = a == b or (a, b) in (('super', 'same'), ('same', 'super'))
        if impl['built'] != same:
            return [f'incompatible-values: two processes declare `_value` {a!r} and {b!r} dictionaries for one '
                    f'variable; construction {"succeeded" if impl["built"] else "raised " + str(impl.get("error"))}, '
                    f'declarations that differ must be rejected and equal ones accepted']
        return []
    want = case['values'][-1]          # processes in declaration order, then steps: the last declared wins
    if impl['initial'] != want or impl['engine'] != want:
        return [f'declaration-order: processes {case["names"]} propose {case["values"]} for one variable; '
                f'initial_state() gives {impl["initial"]}, the engine starts from {impl["engine"]}; merged in '
                f'declaration order the value is {want}']
    return []
