"""Scheduler scenarios shared by C01–C05, C12, C13: generator, probe processes/steps driven by a
small behaviour language (implemented identically in lean/Drivers/Sched.lean), a tracing run of the
REAL engine, and the model request.  The trace uses the same event vocabulary as the model's log.

Behaviour language (per process / step):
  ts   : {"script": [n, ...]}  k-th calculate_timestep call -> script[k mod len] ticks
         {"var": x, "mod": m, "base": b}  -> b + (state[x] mod m) ticks
  cond : {"script": [bool, ...]} | {"var": x, "mod": m, "eq": r}
  upd  : [{"var": v, "a":, "b":, "c":, "src": s, "d":}] -> delta(v) = a + b*timestep + c*n + d*state[s]
         (n = number of earlier next_update calls; timestep in ticks; steps get timestep 0)
Every process/step has a private token variable `tok_<name>` with delta n+1, whose user updater
logs the application (who, which invocation, at which global time).
"""
import copy
import math

UNITS = [  # (tick length in time units, global_time_precision)
    (1, None), (1, None), (0.25, None), (0.5, None), (0.1, 1), (0.01, 2), (2, None),
]


def start_time(scn):
    """`initial_global_time` of a scenario: tick `t0` as a time, on the 10^-p grid when a precision is set (the
    product 3 * 0.1 is not the grid point 0.3)"""
    t = scn['t0'] * scn['unit']
    return t if scn['prec'] is None else round(t, scn['prec'])


def tok(name):
    return 'tok_' + name


# ------------------------------------------------------------------ generator

def gen_ts(rng, vars_):
    if rng.random() < 0.8 or not vars_:
        return {'script': [rng.choice([1, 1, 2, 2, 3, 4, 5, 7]) for _ in range(rng.choice([1, 1, 2, 3]))]}
    return {'var': rng.choice(vars_), 'mod': rng.choice([2, 3, 4]), 'base': rng.choice([1, 2])}


def gen_cond(rng, vars_, p_quiet):
    r = rng.random()
    if r > p_quiet or not vars_:
        return {'script': [True]}
    if r < p_quiet * 0.6:
        n = rng.choice([1, 2, 3, 4])
        return {'script': [rng.random() < 0.5 for _ in range(n)]}
    return {'var': rng.choice(vars_), 'mod': rng.choice([2, 3]), 'eq': rng.choice([0, 1])}


def gen_terms(rng, name, vars_, is_step, ts_terms=False):
    terms = [{'var': tok(name), 'a': 1, 'b': 0, 'c': 1, 'src': '', 'd': 0}]
    for v in rng.sample(vars_, rng.randrange(0, min(2, len(vars_)) + 1)):
        t = {'var': v, 'a': rng.choice([0, 1, 2, -1, 10]), 'b': 0 if (is_step or not ts_terms) else rng.choice([0, 0, 1, 3]),
             'c': rng.choice([0, 0, 1]), 'src': '', 'd': 0}
        if rng.random() < (0.6 if is_step else 0.2):
            t['src'] = rng.choice(vars_)
            t['d'] = rng.choice([1, 1, 2, -1])
        terms.append(t)
    return terms


def gen_scenario(rng, max_procs=4, max_steps=3, p_quiet=0.25, allow_empty=True, steps_ok=True,
                 max_calls=4, emit_variants=True, parallel=0.0, emit_flags=False, ts_terms=False, zero_calls=False):
    nvars = rng.randrange(1, 4)
    vars_ = [f'x{i}' for i in range(nvars)]
    np_ = rng.randrange(0 if allow_empty else 1, max_procs + 1)
    procs = []
    for i in range(np_):
        name = f'p{i}'
        procs.append({'pid': [name], 'ts': gen_ts(rng, vars_), 'cond': gen_cond(rng, vars_, p_quiet),
                      'upd': gen_terms(rng, name, vars_, False, ts_terms),
                      'parallel': rng.random() < parallel})
    if len(procs) >= 2 and rng.random() < 0.1:
        # sleepers: several processes are quiet in the same passes (also when nothing else runs), then wake up
        k = rng.choice([1, 1, 2])
        for p in rng.sample(procs, rng.choice([2, len(procs)])):
            p['cond'] = {'script': [False] * k + [True]}
    steps = []
    step_deps = []
    ns = rng.randrange(0, max_steps + 1) if steps_ok else 0
    if np_ == 0 and ns == 0:
        # an engine needs at least one process or step to be constructible
        if steps_ok:
            ns = 1
        else:
            np_ = 1
            procs.append({'pid': ['p0'], 'ts': gen_ts(rng, vars_), 'cond': gen_cond(rng, vars_, p_quiet),
                          'upd': gen_terms(rng, 'p0', vars_, False, ts_terms), 'parallel': False})
    names = [f's{i}' for i in range(ns)]
    order = names[:]
    rng.shuffle(order)            # registration order differs from dependency order
    rank = {n: i for i, n in enumerate(sorted(names, key=lambda _: rng.random()))}
    for name in order:
        steps.append({'pid': [name], 'ts': {'script': [1]}, 'cond': gen_cond(rng, vars_, p_quiet * 0.5),
                      'upd': gen_terms(rng, name, vars_, True), 'parallel': rng.random() < parallel})
        if rng.random() < 0.25:
            deps = None          # legacy deriver: no flow entry
        else:
            lower = [m for m in names if rank[m] < rank[name]]
            deps = [[m] for m in rng.sample(lower, rng.randrange(0, len(lower) + 1))]
        step_deps.append({'p': [name], 'deps': deps})
    # derivers may not be dependencies of flow steps (the engine rejects overlapping graphs)
    derivers = {tuple(sd['p']) for sd in step_deps if sd['deps'] is None}
    for sd in step_deps:
        if sd['deps'] is not None:
            sd['deps'] = [d for d in sd['deps'] if tuple(d) not in derivers]
    store = [[v, rng.choice([0, 0, 1, 5, -3])] for v in vars_]
    for p in procs + steps:
        store.append([tok(p['pid'][0]), 0])
    unit, prec = rng.choice(UNITS)
    ncalls = rng.randrange(1, max_calls + 1)
    calls = [[rng.choice([1, 2, 3, 4, 5, 6, 7, 9, 12]), rng.random() < 0.5] for _ in range(ncalls)]
    if rng.random() < 0.6:
        calls[-1][1] = True
    if zero_calls == 'after_forced':
        # a zero-length forced call right after a forced one: everybody is complete, nothing happens, no row
        forced = [i for i, c in enumerate(calls) if c[1]]
        if forced and rng.random() < 0.15:
            calls.insert(rng.choice(forced) + 1, [0, True])
    elif zero_calls and rng.random() < 0.12:
        # a forced completion of length 0: whoever was left behind catches up, whoever is complete is left alone
        calls.insert(rng.randrange(1, len(calls) + 1), [0, True])
    # emit_step in ticks; emitEvery iff emit_step (in time units) == 1
    if emit_variants and rng.random() < 0.4:
        emit_ticks = rng.choice([1, 2, 3, 4, 5])
    else:
        emit_ticks = None        # the default emit_step = 1 time unit
    # the engine may be started at any time (`initial_global_time`: resuming a saved run), in ticks
    t0 = rng.choice([0, 0, 0, 0, 1, 3, 4, 10, -3])
    scn = {'procs': procs, 'steps': steps, 'stepDeps': step_deps, 'store': store,
           'unit': unit, 'prec': prec, 'calls': calls, 'emit_ticks': emit_ticks, 't0': t0}
    if rng.random() < 0.12:
        # the initial state also names a variable nobody declares (ignored), somewhere among the declared ones, and
        # the declared defaults differ from the initial values
        scn['surplus'] = rng.randrange(0, len(store))
        scn['default_shift'] = rng.choice([1, 3])
    if emit_flags and rng.random() < 0.5:
        scn['noemit'] = [v for v, _ in store if rng.random() < 0.35]
        # the flags may also be set through the engine's `store_schema` argument: per variable, or for the whole
        # branch (which then overrides what the processes declare)
        via = rng.choice([None, None, 'leaf', 'branch_off', 'branch_on', 'mixed_on', 'mixed_off'])
        if via == 'branch_off':
            scn['noemit'] = [v for v, _ in store]
        elif via == 'branch_on':
            scn['declared_noemit'] = scn['noemit']
            scn['noemit'] = []
        if via:
            scn['emit_via'] = via
    return scn


def emit_params(scn):
    unit = scn['unit']
    if scn['emit_ticks'] is None:
        emit_step = 1
        ticks = round(1 / unit)
        every = True
        if unit > 1:
            # 1 time unit is not a whole number of ticks: emitEvery still true (emit_step == 1)
            ticks = 1
    else:
        ticks = scn['emit_ticks']
        emit_step = ticks * unit
        if scn['prec'] is not None:
            emit_step = round(emit_step, scn['prec'])
        every = (emit_step == 1)
    return emit_step, ticks, every


def model_request(scn):
    _, ticks, every = emit_params(scn)
    strip = lambda p: {k: v for k, v in p.items() if k != 'parallel'}
    return {'op': 'run', 'procs': [strip(p) for p in scn['procs']],
            'steps': [strip(p) for p in scn['steps']], 'stepDeps': scn['stepDeps'],
            'store': scn['store'], 'emitEvery': every, 'emitStep': ticks, 't0': scn['t0'],
            'flagged': [v for v, _ in scn['store'] if v not in scn.get('noemit', [])],
            'calls': scn['calls']}


# ------------------------------------------------------------------ real engine, traced

class Runaway(BaseException):
    """the trace grew beyond any legitimate length: the engine is spinning"""


class CappedLog(list):
    CAP = 20000

    def append(self, x):
        if len(self) >= self.CAP:
            raise Runaway()
        super().append(x)


class Ctx:
    """trace context shared by the probes of one scenario"""

    def __init__(self, scn):
        self.scn = scn
        self.unit = scn['unit']
        self.prec = scn['prec']
        self.engine = None
        self.log = CappedLog()
        self.bad_times = []

    def now(self):
        t = start_time(self.scn) if self.engine is None else self.engine.global_time
        return self.tick(t)

    def front_time(self, pid):
        """how far the process has been simulated (Engine.front), in ticks; None if unreadable"""
        try:
            return self.tick(self.engine.front[tuple(pid)]['time'])
        except Exception:  # noqa
            return None

    def tick_len(self, dt):
        """a duration (timestep argument) in ticks; durations are differences of grid times and
        may carry float rounding noise, so they are only required to be within 1e-9 of a tick"""
        k = round(dt / self.unit)
        if abs(dt - k * self.unit) > 1e-9:
            self.bad_times.append('len:' + repr(dt))
        return k

    def tick(self, t):
        k = round(t / self.unit)
        exact = k * self.unit
        if self.prec is not None:
            exact = round(exact, self.prec)
        if t != exact:
            self.bad_times.append(repr(t))
        return k


def _eval_ts(spec, k, state):
    if 'script' in spec:
        return spec['script'][k % len(spec['script'])]
    return spec['base'] + (state[spec['var']] % spec['mod'])


def _eval_cond(spec, k, state):
    if 'script' in spec:
        return spec['script'][k % len(spec['script'])]
    return (state[spec['var']] % spec['mod']) == spec['eq']


def _eval_upd(terms, n, ts, state):
    out = {}
    for t in terms:
        d = t['a'] + t['b'] * ts + t['c'] * n + t['d'] * (state[t['src']] if t['src'] else 0)
        out[t['var']] = out.get(t['var'], 0) + d if t['var'] in out else d
    return out


def make_probe_classes():
    from harness.probes import ProbeProcess, ProbeStep
    return ProbeProcess, ProbeStep


_SPY = {}


def spy_emitter_class():
    from vivarium.core.emitter import Emitter
    from vivarium.core.registry import emitter_registry

    class SpyEmitter(Emitter):
        def __init__(self, config):
            super().__init__(config)
            self.ctx = _SPY.get('ctx')

        def emit(self, data):
            ctx = self.ctx
            if ctx is None:
                return
            if data['table'] == 'configuration':
                ctx.log.append({'e': 'config'})
            elif data['table'] == 'history':
                d = data['data']
                row = d.get('vars', {})
                try:
                    actual = ctx.engine.state.get_value().get('vars', {}) if ctx.engine else None
                except Exception:  # noqa
                    actual = None
                ctx.log.append({'e': 'emit', 't': ctx.tick(d['time']),
                                'row': sorted([k, v] for k, v in row.items()),
                                'extra_keys': sorted(k for k in d if k not in ('vars', 'time')),
                                'actual': None if actual is None else sorted([k, v] for k, v in actual.items())})
            else:
                ctx.log.append({'e': 'emit-other', 'table': data['table']})

    if emitter_registry.access('verif_spy') is None:
        emitter_registry.register('verif_spy', SpyEmitter)
    return SpyEmitter


def build_engine(scn, ctx, parallel_ok=False, entry='parts'):
    """Build the real Engine for the scenario with tracing probes."""
    from vivarium.core.engine import Engine
    ProbeProcess, ProbeStep = make_probe_classes()
    spy_emitter_class()
    _SPY['ctx'] = ctx
    vars_ = [v for v, _ in scn['store']]
    init = {v: x for v, x in scn['store']}
    # `init` doubles as the defaults the probes declare; `initial` is the state the engine is given
    initial = dict(init)
    if scn.get('surplus') is not None:
        items = list(init.items())
        items.insert(min(scn['surplus'], len(items)), ('zz_undeclared', 99))
        initial = dict(items)
        init = {v: x + scn.get('default_shift', 0) for v, x in init.items()}

    # token updaters log applications in the parent process (not when workers are involved:
    # functions in a schema cannot travel through the pipe)
    ctx.token_updaters = {}
    any_parallel = parallel_ok and any(p.get('parallel') for p in scn['procs'] + scn['steps'])
    for p in ([] if any_parallel else scn['procs'] + scn['steps']):
        name = p['pid'][0]
        is_step = p in scn['steps']

        def make(name=name, is_step=is_step):
            def token_updater(current, update):
                ctx.log.append({'e': 'stepApply' if is_step else 'apply', 'p': [name],
                                't': ctx.now(), 'n': update - 1})
                return current + update
            return token_updater
        ctx.token_updaters[tok(name)] = make()

    # what the processes themselves declare (`_emit` in their ports schema); `store_schema` may override it
    if scn.get('emit_via') in ('leaf', 'branch_off', 'mixed_on', 'mixed_off'):
        declared_noemit = []
    elif scn.get('emit_via') == 'branch_on':
        declared_noemit = scn.get('declared_noemit', [])
    else:
        declared_noemit = scn.get('noemit', [])
    processes = {}
    topology = {}
    for p in scn['procs']:
        name = p['pid'][0]
        params = {'spec': p, 'ctx': ctx, 'vars': vars_, 'init': init, 'noemit': declared_noemit}
        if parallel_ok and p.get('parallel'):
            params['_parallel'] = True
            params['ctx'] = None
            params['unit'] = scn['unit']
            params['prec'] = scn['prec']
        processes[name] = ProbeProcess(params)
        topology[name] = {'vars': ('vars',)}
    steps = {}
    flow = {}
    for p, sd in zip(scn['steps'], scn['stepDeps']):
        name = p['pid'][0]
        params = {'spec': p, 'ctx': ctx, 'vars': vars_, 'init': init, 'noemit': declared_noemit}
        if parallel_ok and p.get('parallel'):
            params['_parallel'] = True
            params['ctx'] = None
            params['unit'] = scn['unit']
            params['prec'] = scn['prec']
        steps[name] = ProbeStep(params)
        topology[name] = {'vars': ('vars',)}
        if sd['deps'] is not None:
            flow[name] = [tuple(d) for d in sd['deps']]
    emit_step, _, _ = emit_params(scn)
    store_schema = None
    if scn.get('emit_via') == 'leaf':
        store_schema = {'vars': {v: {'_emit': False} for v in scn.get('noemit', [])}}
    elif scn.get('emit_via') == 'branch_off':
        store_schema = {'vars': {'_emit': False}}
    elif scn.get('emit_via') == 'branch_on':
        store_schema = {'vars': {'_emit': True}}
    elif scn.get('emit_via') == 'mixed_on':
        # a flag for the whole branch and, in the same dictionary, more specific flags below it: the specific ones hold
        store_schema = {'vars': dict({'_emit': True}, **{v: {'_emit': False} for v in scn.get('noemit', [])})}
    elif scn.get('emit_via') == 'mixed_off':
        store_schema = {'vars': dict({'_emit': False}, **{v: {'_emit': True} for v, _ in scn['store']
                                                          if v not in scn.get('noemit', [])})}
    kwargs = dict(emitter={'type': 'verif_spy'}, emit_step=emit_step, store_schema=store_schema,
                  global_time_precision=scn['prec'], display_info=False, progress_bar=False,
                  initial_global_time=start_time(scn))
    eng = Engine(processes=processes, steps=steps, flow=flow, topology=topology,
                 initial_state={'vars': initial}, **kwargs)
    ctx.engine = eng
    return eng


def run_engine(scn, parallel_ok=False):
    """Run the scenario on the real engine. Returns the observation dict."""
    ctx = Ctx(scn)
    obs = {'log': ctx.log}
    eng = None
    baseline_children = 0
    if parallel_ok:
        import multiprocessing
        baseline_children = len(multiprocessing.active_children())
    try:
        eng = build_engine(scn, ctx, parallel_ok)
        unit = scn['unit']
        clock = [ctx.tick(eng.global_time)]
        for iv, force in scn['calls']:
            interval = iv * unit
            if scn['prec'] is not None:
                interval = round(interval, scn['prec'])
            if force:
                eng.update(interval)       # run_for(force_complete=True) + _check_complete
            else:
                eng.run_for(interval)
            clock.append(ctx.tick(eng.global_time))
        obs['clock_after_calls'] = clock
        obs['gt'] = ctx.tick(eng.global_time)
        obs['fronts'] = sorted(
            [list(path), ctx.tick(adv['time']), bool(adv['update'])]
            for path, adv in eng.front.items())
        state = eng.state.get_value()
        obs['store'] = sorted([k, v] for k, v in state.get('vars', {}).items())
    except AssertionError as e:
        obs['raised'] = 'AssertionError'
        obs['msg'] = str(e)[:200]
    except Exception as e:  # noqa
        obs['raised'] = type(e).__name__
        obs['msg'] = str(e)[:200]
    except BaseException as e:  # noqa: watchdog (lib.CaseTimeout) or runaway trace
        if type(e).__name__ not in ('CaseTimeout', 'Runaway'):
            raise
        obs['timeout'] = True
        obs['log'] = list(ctx.log[:400])
    finally:
        if eng is not None:
            try:
                eng.end()
            except Exception as e:  # noqa
                obs['end_raised'] = type(e).__name__
            if parallel_ok:
                # Engine.end() must have stopped and reaped every worker, while the engine is alive
                import multiprocessing
                kids = multiprocessing.active_children()
                obs['alive_after_end'] = max(0, len(kids) - baseline_children)
                if obs['alive_after_end']:
                    for k in kids:      # do not let a leaked worker hang the check itself
                        try:
                            k.terminate()
                            k.join(timeout=2.0)
                        except Exception:  # noqa
                            pass
    obs['bad_times'] = ctx.bad_times[:5]
    return obs


# ------------------------------------------------------------------ model log -> impl vocabulary

def model_events(ans):
    """Translate the model's log into the event vocabulary the traced engine produces."""
    out = []
    for ev in ans['log']:
        e = ev['e']
        if e == 'askTs':
            out.append({'e': 'askTs', 'p': ev['p'], 'k': ev['k'], 'gt': ev['gt']})
        elif e == 'askCond':
            out.append({'e': 'askCond', 'p': ev['p'], 'k': ev['k'], 'ts': ev['ts'], 'gt': ev['gt'],
                        'ans': ev['ans']})
        elif e == 'invoke':
            out.append({'e': 'invoke', 'p': ev['p'], 'n': ev['n'], 'gt': ev['gt'], 'ts': ev['ts'],
                        'view': sorted(ev['view']), 'u': sorted(_merge(ev['u'])),
                        'start': ev['start'], 'due': ev['due']})
        elif e == 'apply':
            name = ev['p'][0]
            n = dict(_merge(ev['u']))[tok(name)] - 1
            out.append({'e': 'apply', 'p': ev['p'], 't': ev['t'], 'n': n, 'due': ev['due']})
        elif e == 'stepRun':
            out.append({'e': 'stepCond', 'p': ev['p'], 'k': ev['k'], 't': ev['t'], 'ts': 0,
                        'ans': ev['ran'], 'view': sorted(ev['view']), 'layer': ev['layer']})
            if ev['ran']:
                out.append({'e': 'stepInvoke', 'p': ev['p'], 'k': ev['k'], 't': ev['t'], 'ts': 0,
                            'view': sorted(ev['view']), 'u': sorted(_merge(ev['u'])),
                            'layer': ev['layer']})
        elif e == 'emit':
            out.append({'e': 'emit', 't': ev['t'], 'row': sorted(ev['row']), 'extra_keys': []})
        elif e == 'config':
            out.append({'e': 'config'})
        elif e in ('skip', 'phaseBegin', 'phaseEnd'):
            out.append(dict(ev))
    # the step applications: within a layer, after all its invocations, in order
    return _insert_step_applies(out)


def _merge(u):
    d = {}
    for k, v in u:
        d[k] = d.get(k, 0) + v
    return [[k, v] for k, v in d.items()]


def _insert_step_applies(events):
    """after the last step event of each layer insert the stepApply events the token updaters of
    the real engine produce (one per step that ran, in order)"""
    out = []
    pending = []
    cur_layer = None
    for ev in events:
        if ev['e'] in ('stepCond', 'stepInvoke'):
            if cur_layer is not None and ev['layer'] != cur_layer:
                out.extend(pending)
                pending = []
            cur_layer = ev['layer']
            out.append(ev)
            if ev['e'] == 'stepInvoke':
                pending.append({'e': 'stepApply', 'p': ev['p'], 't': ev['t'], 'n': ev['k']})
        else:
            out.extend(pending)
            pending = []
            cur_layer = None
            out.append(ev)
    out.extend(pending)
    return out


def project(events, kinds, drop=()):
    out = []
    for ev in events:
        if ev['e'] in kinds:
            out.append({k: v for k, v in ev.items() if k not in drop and not k.startswith('_')})
    return out
