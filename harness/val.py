"""Encoding of Python values for the Lean drivers (order-preserving; see VivDriver/JsonIO.lean):
None/bool/int/str as themselves, lists as {"l": [...]}, dicts as {"d": [[k, v], ...]}."""


def enc(v):
    if v is None or isinstance(v, (bool, str)):
        return v
    if isinstance(v, int):
        return v
    if isinstance(v, (list, tuple)):
        return {'l': [enc(x) for x in v]}
    if isinstance(v, dict):
        return {'d': [[k if isinstance(k, str) else repr(k), enc(x)] for k, x in v.items()]}
    if hasattr(v, 'item') and hasattr(v, 'dtype') and getattr(v, 'shape', None) == ():
        return enc(v.item())
    if isinstance(v, float) and v == int(v) and abs(v) < 2 ** 53:
        return int(v)
    return {'opaque': repr(v)}


def dec(j):
    if j is None or isinstance(j, (bool, str, int)):
        return j
    if isinstance(j, dict):
        if 'l' in j:
            return [dec(x) for x in j['l']]
        if 'd' in j:
            return {k: dec(x) for k, x in j['d']}
    raise ValueError(f'cannot decode {j!r}')


def sort_enc(j):
    """canonical form that forgets dict insertion order (for order-insensitive comparisons)"""
    if isinstance(j, dict):
        if 'd' in j:
            return {'d': sorted(([k, sort_enc(v)] for k, v in j['d']), key=lambda kv: kv[0])}
        if 'l' in j:
            return {'l': [sort_enc(x) for x in j['l']]}
        return {k: sort_enc(v) for k, v in j.items()}
    if isinstance(j, list):
        return [sort_enc(x) for x in j]
    return j


_NAMES = {'TypeError', 'KeyError', 'ValueError', 'AssertionError', 'AttributeError'}


def exc_name(e):
    n = type(e).__name__
    return n if n in _NAMES else 'Exception'
