"""Processes of the `parviews` family (module level: they are pickled into workers)."""
from vivarium.core.process import Process
from harness.parviews import digest

CTX = {}      # serial runs: the engine, so that a process can look at the hierarchy at the moment it is invoked


class Viewer(Process):
    name = 'parviews-viewer'
    defaults = {'dt0': 1.0, 'ctx': None}

    def __init__(self, parameters=None):
        super().__init__(parameters)
        self.ct = self.uc = 'unset'

    def ports_schema(self):
        return {'agents': {'*': {'x': {'_default': 0}}},
                'clock': {'dt': {'_default': self.parameters['dt0']}},
                'report': {'_output': True,
                           'ct': {'_default': '', '_updater': 'set'},
                           'uc': {'_default': '', '_updater': 'set'},
                           'nu': {'_default': '', '_updater': 'set'},
                           'now': {'_default': '', '_updater': 'set'}}}

    def calculate_timestep(self, states):
        self.ct = digest(states)
        return states['clock']['dt'] if states else self.parameters['dt0']

    def update_condition(self, timestep, states):
        self.uc = digest(states)
        return True

    def next_update(self, timestep, states):
        now = ''
        eng = CTX.get(self.parameters.get('ctx'))
        if eng is not None:
            st = eng.state.get_value()
            now = digest({'agents': {k: {'x': v['x']} for k, v in st['agents'].items()},
                          'clock': {'dt': st['clock']['dt']}, 'report': {}})
        return {'report': {'ct': self.ct, 'uc': self.uc, 'nu': digest(states), 'now': now}}

class Feeder(Process):
    name = 'parviews-feeder'
    defaults = {'add_at': 1, 'del_at': 9}

    def __init__(self, parameters=None):
        super().__init__(parameters)
        self.n = 0

    def ports_schema(self):
        return {'agents': {'*': {'x': {'_default': 0}}}}

    def next_update(self, timestep, states):
        self.n += 1
        upd = {k: {'x': 1} for k in states['agents']}
        if self.n == self.parameters['add_at']:
            upd['_add'] = [{'key': 'new', 'state': {'x': 100}}]
        if self.n == self.parameters['del_at'] and 'a' in states['agents']:
            upd.pop('a', None)
            upd['_delete'] = ['a']
        return {'agents': upd}
