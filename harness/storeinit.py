"""Glob children that come with the initial state of `Engine(store=…, initial_state=…)`, and glob
children that share their default object (scenario family of C06 and C07).

* `storeinit`: the engine is handed a generated store plus an initial state that names further
  children of a store a glob port watches (every sub-variable given).  From its first invocation on
  the watching process must be shown exactly the children the hierarchy holds, with their values
  (C07), and the `+1` it returns for each child it was shown must arrive (C06).
* `shareddefault`: children of a glob store that were given no value of their own for a
  dictionary variable (`_updater: 'merge'`) all start from the schema default.  A merge update
  addressed to one child changes that child only: no other node changes (C06)."""
import itertools

_ids = itertools.count()
CTX = {}


def gen_case(rng):
    return {'kind': 'storeinit', 'mode': rng.choice(['storeinit', 'storeinit', 'shareddefault']),
            'old': rng.choice([[], ['a'], ['a', 'b']]), 'new': rng.choice([['n1'], ['n1', 'n2']]),
            'ticks': rng.choice([2, 3]), 'second_engine': rng.random() < 0.4, 'partial': rng.random() < 0.5}


def corpus():
    return [{'kind': 'storeinit', 'mode': 'storeinit', 'old': ['a'], 'new': ['n1'], 'ticks': 2, 'second_engine': True},
            {'kind': 'storeinit', 'mode': 'shareddefault', 'old': ['a', 'b'], 'new': ['n1'], 'ticks': 2,
             'second_engine': False},
            # F46: the initial state names the new child but not all of its declared sub-variables
            {'kind': 'storeinit', 'mode': 'storeinit', 'old': ['a'], 'new': ['n1'], 'ticks': 2, 'second_engine': False,
             'partial': True}]


def run_impl(case):
    from vivarium.core.engine import Engine
    from vivarium.core.process import Process
    from vivarium.core.composer import Composite
    key = f'si-{next(_ids)}'
    log = []
    CTX[key] = {'log': log, 'engine': None}

    class Census(Process):
        def ports_schema(self):
            return {'cells': {'*': {'mass': {'_default': 0, '_emit': True},
                                    'tags': {'_default': {'base': 1}, '_updater': 'merge', '_emit': True}}}}

        def next_update(self, timestep, states):
            c = CTX.get(key)
            seen = {k: v['mass'] for k, v in states['cells'].items()}
            if c is not None:
                eng = c['engine']
                actual = None
                if eng is not None:
                    cells = eng.state.get_value().get('cells') or {}
                    actual = {k: v.get('mass') for k, v in cells.items()}
                c['log'].append({'seen': seen, 'actual': actual,
                                 't': 0 if eng is None else int(round(eng.global_time))})
            if case['mode'] == 'shareddefault':
                first = sorted(seen)[0] if seen else None
                return {'cells': {first: {'tags': {'k': 1}}}} if first else {}
            return {'cells': {k: {'mass': 1} for k in seen}}

    obs = {'log': log}
    try:
        names = case['old'] + case['new']
        if case['mode'] == 'shareddefault':
            # no child is given a value for `tags`: all of them start from the schema default
            init_all = {'cells': {k: {'mass': 5 + i} for i, k in enumerate(names)}}
            eng = Engine(processes={'census': Census()}, topology={'census': {'cells': ('cells',)}},
                         initial_state=init_all, emitter={'type': 'null'}, display_info=False, progress_bar=False)
            CTX[key]['engine'] = eng
            eng.update(case['ticks'])
            cells = eng.state.get_value()['cells']
            obs['tags'] = {k: dict(v['tags']) for k, v in cells.items()}
        else:
            comp = Composite({'processes': {'census': Census()}, 'topology': {'census': {'cells': ('cells',)}}})
            store = comp.generate_store({'initial_state': {'cells': {k: {'mass': 5 + i, 'tags': {'own': i}}
                                                                     for i, k in enumerate(case['old'])}}})
            init_new = {'cells': {k: {'mass': 50 + i, 'tags': {'own': 50 + i}} for i, k in enumerate(case['new'])}}
            if case.get('partial'):
                # `tags` is left to its declared default
                init_new = {'cells': {k: {'mass': 50 + i} for i, k in enumerate(case['new'])}}
            eng = Engine(store=store, initial_state=init_new, emitter={'type': 'null'}, display_info=False,
                         progress_bar=False)
            CTX[key]['engine'] = eng
            eng.update(case['ticks'])
            if case['second_engine']:
                # a second engine continues from the same store, again with further children
                more = {'cells': {'m1': {'mass': 90, 'tags': {'own': 90}}}}
                eng2 = Engine(store=eng.state, initial_state=more, emitter={'type': 'null'}, display_info=False,
                              progress_bar=False, initial_global_time=eng.global_time)
                CTX[key]['engine'] = eng2
                eng2.update(1)
                eng = eng2
            obs['final'] = {k: v['mass'] for k, v in eng.state.get_value()['cells'].items()}
            obs['new_tags'] = {k: eng.state.get_value()['cells'][k]['tags'] for k in case['new']}
    except Exception as e:  # noqa
        obs['raised'] = f'{type(e).__name__}: {str(e)[:200]}'
    finally:
        CTX.pop(key, None)
    return obs


def oracle(case, impl):
    if 'harness_exception' in impl:
        return [f'probe-crashed: {impl["harness_exception"]}']
    if impl.get('timeout'):
        return []
    if impl.get('raised'):
        return [f'engine-raised: {impl["raised"]}']
    if case['mode'] == 'shareddefault':
        names = sorted(case['old'] + case['new'])
        for k, tags in sorted(impl['tags'].items()):
            want = {'base': 1, 'k': 1} if k == names[0] else {'base': 1}
            if tags != want:
                return [f'other-node-changed: merge updates were addressed to child {names[0]} only; child {k} holds '
                        f'{tags}, expected {want}']
        return []
    if case.get('partial'):
        for k, tags in sorted(impl.get('new_tags', {}).items()):
            if tags != {'base': 1}:
                return [f'default-missing: child {k} came with the initial state of Engine(store=, initial_state=) '
                        f'without a value for `tags`; it holds {tags!r}, the declared default is {{"base": 1}}']
    for ev in impl['log']:
        if ev['actual'] is not None and ev['seen'] != ev['actual']:
            return [f'stale-view: at t={ev["t"]} the process is shown cells {ev["seen"]}, the hierarchy holds '
                    f'{ev["actual"]}']
    return []
