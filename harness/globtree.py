"""Path algebra on trees whose nodes were created from a *state* (scenario family of C17).

The trees of the main C17 stream are built node by node.  Members of a glob (`'*'`) store usually
come into being differently: they are named by an initial state (`Store.set_value`), added by an
`_add` update, or generated; every node created that way must be linked into the tree like any
other — `path_for()` leads back to it from the root, `a.path_to(b)` leads from `a` to `b`, and
walking `'..'` steps agrees with the lexical normal form."""
import itertools

_ids = itertools.count()
KEYS = ['a', 'b', 'c', 'd1', 'zz']


def gen_case(rng):
    names = rng.sample(KEYS, rng.choice([2, 3, 4]))
    return {'kind': 'globtree', 'state_children': names[:-1], 'added': names[-1:],
            'nested': rng.random() < 0.6}


def corpus():
    return [{'kind': 'globtree', 'state_children': ['a', 'b'], 'added': ['c'], 'nested': True}]


def run_impl(case):
    from vivarium.core.store import Store
    from vivarium.library.topology import normalize_path
    obs = {'problems': []}
    try:
        sub = {'boundary': {'mass': {'_default': 1}, 'inner': {'*': {'n': {'_default': 0}}}}, 'tag': {'_default': ''}}
        root = Store({'agents': {'*': sub}, 'env': {'temp': {'_default': 20}}})
        state = {'agents': {k: {'boundary': {'mass': i + 2}} for i, k in enumerate(case['state_children'])}}
        if case['nested']:
            for k in case['state_children']:
                state['agents'][k]['boundary']['inner'] = {'x1': {'n': 1}, 'x2': {'n': 2}}
        root.set_value(state)
        root.apply_defaults()
        for k in case['added']:
            root.apply_update({'agents': {'_add': [{'key': k, 'state': {'boundary': {'mass': 9}}}]}})
        nodes = [(path, node) for path, node in root.depth()]
        problems = []
        for path, node in nodes:
            try:
                pf = node.path_for()
                if tuple(pf) != tuple(path) or root.get_path(pf) is not node:
                    problems.append(f'path_for: node at {list(path)} reports {list(pf)}')
            except Exception as e:  # noqa
                problems.append(f'path_for: node at {list(path)} raised {type(e).__name__}')
        for (pa, a), (pb, b) in itertools.permutations(nodes, 2):
            try:
                rel = a.path_to(b)
                if a.get_path(rel) is not b or root.get_path(normalize_path(tuple(pa) + tuple(rel))) is not b:
                    problems.append(f'path_to: {list(rel)} from {list(pa)} does not reach {list(pb)}')
            except Exception as e:  # noqa
                problems.append(f'path_to: from {list(pa)} to {list(pb)} raised {type(e).__name__}')
            if len(problems) > 5:
                break
        for path, node in nodes:
            for k in range(1, len(path) + 1):
                try:
                    up = node.get_path(('..',) * k)
                    if up is not root.get_path(tuple(path)[:len(path) - k]):
                        problems.append(f'walk: {k} steps up from {list(path)} reach another node')
                except Exception as e:  # noqa
                    problems.append(f'walk: {k} steps up from {list(path)} raised {type(e).__name__}')
        obs['problems'] = problems[:6]
        obs['nodes'] = len(nodes)
    except Exception as e:  # noqa
        obs['raised'] = f'{type(e).__name__}: {str(e)[:200]}'
    return obs


def oracle(case, impl):
    if 'harness_exception' in impl:
        return [f'probe-crashed: {impl["harness_exception"]}']
    if impl.get('timeout'):
        return []
    if impl.get('raised'):
        return [f'store-raised: {impl["raised"]}']
    return list(impl['problems'][:3])
