"""Daughters built by a composer (scenario family of C11, also attached to C16).

The usual way to divide: a division trigger asks one `Composer` for the two daughters,
`composer.generate(config_i)`, and puts what it returns into a `_divide` update.  The composer, the
mother and all daughters of all generations then have one thing in common — the composer's own
configuration — and must not share it: a nested setting given to one daughter only
(`{'growth': {'rate': 2}}`) must reach that daughter alone, and neither the sister nor the composer
nor the next generation.

Oracle: every compartment's mass grows by the rate *it* was configured with (1 unless overridden),
read off the emitted rows; the composer's configuration after the run equals a deep copy taken
before it."""
import copy
import itertools

_ids = itertools.count()


def gen_case(rng):
    return {'kind': 'composerdiv', 'override': rng.choice(['first', 'second', 'first']),
            'rate': rng.choice([2, 3, 5]), 'divide_at': rng.choice([1, 2]), 'second_generation': rng.random() < 0.5,
            'ticks': rng.choice([5, 6])}


def corpus():
    return [{'kind': 'composerdiv', 'override': 'first', 'rate': 2, 'divide_at': 1, 'second_generation': True,
             'ticks': 6}]


def run_impl(case):
    from vivarium.core.engine import Engine
    from vivarium.core.process import Process, Step
    from vivarium.core.composer import Composer

    class Grow(Process):
        defaults = {'growth': {'rate': 1}}

        def ports_schema(self):
            return {'vars': {'mass': {'_default': 0, '_emit': True, '_divider': 'set'},
                             'rate': {'_default': 0, '_emit': True, '_updater': 'set', '_divider': 'set'}}}

        def next_update(self, timestep, states):
            r = self.parameters['growth']['rate']
            return {'vars': {'mass': r, 'rate': r}}

    class Note(Step):
        def ports_schema(self):
            return {'vars': {'mass': {'_default': 0}}}

        def next_update(self, timestep, states):
            return {}

    class Cell(Composer):
        defaults = {'growth': {'rate': 1}, 'tags': ['cell']}

        def generate_processes(self, config):
            return {'grow': Grow({'growth': config['growth']})}

        def generate_steps(self, config):
            return {'note': Note()}

        def generate_topology(self, config):
            return {'grow': {'vars': ('vars',)}, 'note': {'vars': ('vars',)}}

    composer = Cell({})
    before = copy.deepcopy(composer.config)
    issued = []          # the `daughters` lists handed to the engine

    class Trigger(Process):
        def __init__(self, parameters=None):
            super().__init__(parameters)
            self.n = 0

        def ports_schema(self):
            return {'agents': {'*': {'vars': {'mass': {'_default': 0}}}}}

        def _daughters(self, mother, override_which):
            out = []
            for i, k in enumerate((mother + '0', mother + '1')):
                cfg = {}
                if (override_which == 'first' and i == 0) or (override_which == 'second' and i == 1):
                    cfg = {'growth': {'rate': case['rate']}}
                comp = composer.generate(cfg)
                out.append({'key': k, 'processes': comp['processes'], 'steps': comp['steps'],
                            'flow': comp['flow'], 'topology': comp['topology']})
            issued.append(out)
            return out

        def next_update(self, timestep, states):
            self.n += 1
            if self.n == case['divide_at'] and 'm' in states['agents']:
                return {'agents': {'_divide': {'mother': 'm', 'daughters': self._daughters('m', case['override'])}}}
            plain = 'm1' if case['override'] == 'first' else 'm0'
            if case['second_generation'] and self.n == case['divide_at'] + 2 and plain in states['agents']:
                # the un-overridden daughter divides again, nobody asks for an override
                return {'agents': {'_divide': {'mother': plain, 'daughters': self._daughters(plain, None)}}}
            return {}

    obs = {}
    try:
        mother = composer.generate({})
        eng = Engine(processes={'agents': {'m': mother['processes']}, 'trigger': Trigger()},
                     topology={'agents': {'m': mother['topology']}, 'trigger': {'agents': ('agents',)}},
                     emitter={'type': 'null'}, display_info=False, progress_bar=False)
        rates = []
        for _ in range(case['ticks']):
            eng.update(1)
            agents = eng.state.get_value().get('agents') or {}
            rates.append({k: v['vars']['rate'] for k, v in agents.items()})
        obs['rates'] = rates
        obs['composer_intact'] = composer.config == before
        # the update object handed in is not modified: each daughter still lists its process under `processes`
        # and its step under `steps` (F43)
        obs['updates_intact'] = all(sorted(d['processes']) == ['grow'] and sorted(d['steps']) == ['note']
                                    for ds in issued for d in ds)
        obs['composer_now'] = repr(composer.config)[:200]
    except Exception as e:  # noqa
        obs['raised'] = f'{type(e).__name__}: {str(e)[:200]}'
    return obs


def oracle(case, impl):
    if 'harness_exception' in impl:
        return [f'probe-crashed: {impl["harness_exception"]}']
    if impl.get('timeout'):
        return []
    if impl.get('raised'):
        return [f'engine-raised: {impl["raised"]}']
    over = 'm0' if case['override'] == 'first' else 'm1'
    fails = []
    seen = set()
    for t, row in enumerate(impl['rates'], start=1):
        for k, r in sorted(row.items()):
            if k not in seen:
                seen.add(k)
                continue                       # its first row: `rate` is still what it inherited from the mother
            want = case['rate'] if k == over else 1
            if r != want:
                fails.append(f'daughter-dependence: at t={t} compartment {k} grows at rate {r}; it was configured with '
                             f'{want} (the override {case["rate"]} was given to {over} only)')
                break
        if fails:
            break
    if impl.get('updates_intact') is False:
        fails.append('update-modified: the `_divide` update handed to the engine was rewritten (the daughters\' '
                     'steps were merged into their `processes` dictionaries)')
    if not impl['composer_intact']:
        fails.append(f'outside-changed: generating the daughters rewrote the composer\'s own configuration: '
                     f'{impl["composer_now"]}')
    return fails[:3]
