"""Shared machinery for every ./check run: Lean build + axiom audit, the line-protocol
driver, evidence/replay writers, known findings, the impl worker pool and the drift
sentinel.  Python 3.12 (/venv/bin/python), stdlib only besides the repo's own deps."""
import ast
import fcntl
import hashlib
import json
import os
import random
import re
import signal
import subprocess
import sys
import time
import traceback
from concurrent.futures import ProcessPoolExecutor
import multiprocessing

VERIF = os.path.dirname(os.path.dirname(os.path.abspath(__file__)))
LEAN = os.path.join(VERIF, 'lean')
REPO = os.environ.get('VERIF_REPO', '/repo')
# runs against a scratch copy (VERIF_REPO=…, used to test the machinery on mutants) must not overwrite the
# evidence of /repo itself
EVIDENCE = os.path.join(VERIF, 'evidence' if os.path.realpath(REPO) == '/repo' else 'evidence-scratch')
REPLAYS = os.path.join(VERIF, 'replays')
ALLOWED_AXIOMS = {'propext', 'Classical.choice', 'Quot.sound'}
FORBIDDEN = re.compile(
    r'\bsorry\b|\badmit\b|^axiom\s|native_decide|bv_decide|implemented_by|\bunsafe\s|maxHeartbeats\s+0')


class InternalError(Exception):
    pass


class CaseTimeout(BaseException):
    pass


def canon(x):
    return json.dumps(x, sort_keys=True, separators=(',', ':'), default=str)


def case_hash(x):
    return hashlib.sha1(canon(x).encode()).hexdigest()[:12]


# --------------------------------------------------------------------------- Lean side

class _Lock:
    def __enter__(self):
        self.f = open(os.path.join(LEAN, '.build.lock'), 'w')
        fcntl.flock(self.f, fcntl.LOCK_EX)
        return self

    def __exit__(self, *a):
        fcntl.flock(self.f, fcntl.LOCK_UN)
        self.f.close()


def _run(cmd, cwd=LEAN, inp=None, timeout=3600):
    return subprocess.run(cmd, cwd=cwd, input=inp, capture_output=True, text=True,
                          timeout=timeout)


def lake_build(targets, clean=False):
    """Build the given lake targets.  Returns (ok, log)."""
    with _Lock():
        if clean:
            _run(['lake', 'clean'])
        r = _run(['lake', 'build'] + list(targets))
    return r.returncode == 0, (r.stdout + r.stderr)[-6000:]


def strip_lean_comments(src):
    # block comments (nesting is not used in this project) and line comments
    src = re.sub(r'/-.*?-/', lambda m: '\n' * m.group(0).count('\n'), src, flags=re.S)
    src = re.sub(r'--.*', '', src)
    return src


def forbidden_tokens():
    """grep the whole Lean tree for sorry/admit/axiom/native_decide/... outside comments."""
    hits = []
    for root, dirs, files in os.walk(LEAN):
        dirs[:] = [d for d in dirs if d != '.lake']
        for f in files:
            if not f.endswith('.lean') or f == 'VivAudit.lean' or f.startswith('.audit_'):
                continue
            path = os.path.join(root, f)
            src = strip_lean_comments(open(path).read())
            for i, line in enumerate(src.split('\n'), 1):
                if FORBIDDEN.search(line):
                    hits.append(f'{os.path.relpath(path, LEAN)}:{i}: {line.strip()[:120]}')
    return hits


def source_theorems(prop):
    """theorem names in VivProps/<prop>.lean, from the source text (used when the build
    is broken, to know what the obligations would have been)."""
    path = os.path.join(LEAN, 'VivProps', f'{prop}.lean')
    if not os.path.exists(path):
        return []
    src = strip_lean_comments(open(path).read())
    return re.findall(r'^theorem\s+([A-Za-z0-9_\.\']+)', src, flags=re.M)


def audit(prop):
    """Enumerate the theorems of namespace VivProps.<prop> in the *built* environment with
    their axioms.  Returns list of dicts {theorem, axioms, statement}."""
    name = f'.audit_{prop}_{os.getpid()}.lean'
    path = os.path.join(LEAN, name)
    with open(path, 'w') as f:
        f.write(f'import VivProps.{prop}\nimport VivAudit\n#audit_ns VivProps.{prop}\n')
    try:
        r = _run(['lake', 'env', 'lean', name])
    finally:
        os.unlink(path)
    out = []
    for line in r.stdout.split('\n'):
        if line.startswith('AUDIT '):
            d = json.loads(line[6:])
            short = d['theorem'][len(f'VivProps.{prop}.'):]
            # skip auto-generated equation lemmas of definitions in the namespace
            if '.' in short or short.startswith('_') or short.startswith('match_') \
                    or short.startswith('inst'):
                continue
            d['name'] = short
            out.append(d)
    if r.returncode != 0 and not out:
        raise InternalError('audit failed: ' + (r.stdout + r.stderr)[-2000:])
    return out


class Driver:
    """One `lake env lean --run Drivers/<name>.lean` process, JSON line in / line out."""

    def __init__(self, name):
        self.name = name

    def ask(self, requests, timeout=1800):
        if not requests:
            return []
        inp = '\n'.join(json.dumps(r, separators=(',', ':')) for r in requests) + '\n'
        r = _run(['lake', 'env', 'lean', '--run', f'Drivers/{self.name}.lean'], inp=inp,
                 timeout=timeout)
        lines = [l for l in r.stdout.split('\n') if l.strip()]
        if len(lines) != len(requests):
            return DriverFailure((r.stdout[-1500:] + r.stderr[-3000:]), len(lines), len(requests))
        return [json.loads(l) for l in lines]


class DriverFailure(list):
    def __init__(self, log, got, want):
        super().__init__()
        self.log = log
        self.got = got
        self.want = want


# --------------------------------------------------------------------------- impl worker pool

def _alarm(signum, frame):
    raise CaseTimeout()


# a wall-clock limit for the implementation runs of one check (set by the runner): cases that would start after
# it are not run and count as timed out — a change that makes every case slow must not turn a quick check into
# an hour
DEADLINE = None


def _run_cases(args):
    modname, cases, per_case_s = args[:3]
    deadline = args[3] if len(args) > 3 else None
    import importlib
    mod = importlib.import_module(modname)
    # import the implementation before the watchdog is armed: an alarm in the middle of
    # `import vivarium` would leave half-initialised registries behind for later cases
    try:
        import vivarium  # noqa: F401
        import vivarium.core.engine  # noqa: F401
        import vivarium.core.composition  # noqa: F401
    except Exception:  # noqa: a broken tree shows up in the cases themselves
        pass
    out = []
    signal.signal(signal.SIGALRM, _alarm)
    for c in cases:
        if deadline is not None and time.time() > deadline:
            out.append({'timeout': True, 'skipped': 'deadline'})
            continue
        signal.setitimer(signal.ITIMER_REAL, per_case_s)
        try:
            obs = mod.run_impl(c)
        except CaseTimeout:
            obs = {'timeout': True}
        except BaseException as e:  # noqa: an unexpected crash of the probe itself
            obs = {'harness_exception': f'{type(e).__name__}: {e}',
                   'tb': traceback.format_exc()[-1500:]}
        finally:
            signal.setitimer(signal.ITIMER_REAL, 0)
        out.append(obs)
    return out


def run_impl_cases(modname, cases, per_case_s=5.0, workers=None):
    """Run mod.run_impl on every case in forked workers (non-daemonic, so vivarium's own
    multiprocessing still works inside), with a per-case watchdog."""
    if not cases:
        return []
    workers = workers or min(12, max(1, (os.cpu_count() or 2) - 2))
    if len(cases) < 24 or workers == 1:
        chunks = [cases]
    else:
        n = max(8, len(cases) // (workers * 4))
        chunks = [cases[i:i + n] for i in range(0, len(cases), n)]
    if len(chunks) == 1:
        ctx = multiprocessing.get_context('fork')
        with ProcessPoolExecutor(1, mp_context=ctx) as ex:
            return list(ex.map(_run_cases, [(modname, chunks[0], per_case_s, DEADLINE)]))[0]
    ctx = multiprocessing.get_context('fork')
    out = []
    with ProcessPoolExecutor(workers, mp_context=ctx) as ex:
        for res in ex.map(_run_cases, [(modname, ch, per_case_s, DEADLINE) for ch in chunks]):
            out.extend(res)
    return out


# --------------------------------------------------------------------------- drift sentinel

def _norm_ast(node):
    for n in ast.walk(node):
        if isinstance(n, (ast.FunctionDef, ast.AsyncFunctionDef, ast.ClassDef, ast.Module)):
            if n.body and isinstance(n.body[0], ast.Expr) and \
                    isinstance(getattr(n.body[0], 'value', None), ast.Constant) and \
                    isinstance(n.body[0].value.value, str):
                n.body = n.body[1:] or [ast.Pass()]
    return ast.dump(node, include_attributes=False)


def fingerprints(anchors):
    """anchors: list of (relative file, [qualified function names]) -> {name: hash}"""
    out = {}
    for rel, names in anchors:
        path = os.path.join(REPO, rel)
        try:
            tree = ast.parse(open(path).read())
        except Exception as e:  # unreadable source is itself drift
            for nm in names:
                out[f'{rel}::{nm}'] = f'unparsable:{type(e).__name__}'
            continue
        index = {}
        for node in tree.body:
            if isinstance(node, (ast.FunctionDef, ast.AsyncFunctionDef)):
                index[node.name] = node
            elif isinstance(node, ast.ClassDef):
                for sub in node.body:
                    if isinstance(sub, (ast.FunctionDef, ast.AsyncFunctionDef)):
                        index[f'{node.name}.{sub.name}'] = sub
        for nm in names:
            node = index.get(nm)
            out[f'{rel}::{nm}'] = (
                hashlib.sha1(_norm_ast(node).encode()).hexdigest()[:16] if node else 'missing')
    return out


def drift(prop, anchors):
    """Compare with the committed fingerprints (harness/anchors.json). Returns list of
    changed anchors. A changed anchor is not a violation; it raises the budget."""
    path = os.path.join(VERIF, 'harness', 'anchors.json')
    try:
        known = json.load(open(path)).get(prop, {})
    except FileNotFoundError:
        known = {}
    now = fingerprints(anchors)
    return sorted(k for k, v in now.items() if known.get(k) != v), now


# --------------------------------------------------------------------------- known findings

def load_known(prop):
    path = os.path.join(VERIF, 'known_findings.json')
    try:
        data = json.load(open(path))
    except FileNotFoundError:
        return []
    return [e for e in data.get('findings', []) if e.get('property') == prop]


# --------------------------------------------------------------------------- evidence / replay

def write_evidence(prop, data):
    os.makedirs(EVIDENCE, exist_ok=True)
    path = os.path.join(EVIDENCE, f'{prop}.json')
    tmp = path + f'.tmp{os.getpid()}'
    with open(tmp, 'w') as f:
        json.dump(data, f, indent=1, default=str)
        f.write('\n')
    os.replace(tmp, path)
    return path


def write_replay(prop, payload):
    os.makedirs(REPLAYS, exist_ok=True)
    h = case_hash(payload)
    path = os.path.join(REPLAYS, f'{prop}-{h}.json')
    with open(path, 'w') as f:
        json.dump(payload, f, indent=1, default=str)
        f.write('\n')
    return os.path.relpath(path, VERIF)


def rng_for(seed, prop, stream=''):
    return random.Random(f'{seed}/{prop}/{stream}')
