"""Evaluate a seeded mutant delivered by a mutation-seeding sub-agent.

usage: python -m harness.seed_eval <Cxx> <m1|m2|…> [--suite] [--also C01,C02,…] [--tier quick|thorough]

Applies <seed dir>/patch.diff in a scratch worktree of /repo (never in /repo itself), runs the
demonstration with and without the change, optionally the pinned test suite on the mutated tree,
and the property's check (plus others on request) against the mutated tree through VERIF_REPO.
Writes /verif/seeded/<Cxx>-<mk>/{patch.diff, demo.py, README.md, meta.json}."""
import argparse
import json
import os
import shutil
import subprocess
import sys
import time

VERIF = os.path.dirname(os.path.dirname(os.path.abspath(__file__)))
SEED_ROOT = '/tmp/seed'


def sh(cmd, cwd=None, env=None, timeout=3600):
    e = dict(os.environ)
    if env:
        e.update(env)
    r = subprocess.run(cmd, cwd=cwd, env=e, capture_output=True, text=True, timeout=timeout)
    return r.returncode, (r.stdout + r.stderr)


def main():
    ap = argparse.ArgumentParser()
    ap.add_argument('prop')
    ap.add_argument('mutant')
    ap.add_argument('--suite', action='store_true')
    ap.add_argument('--also', default='')
    ap.add_argument('--tier', default='quick')
    ap.add_argument('--src')
    args = ap.parse_args()
    src = args.src or os.path.join(SEED_ROOT, args.prop, 'out', args.mutant)
    name = f'{args.prop}-{args.mutant}'
    out = os.path.join(VERIF, 'seeded', name)
    os.makedirs(out, exist_ok=True)
    ported = os.path.exists(os.path.join(out, 'patch.original.diff'))   # patch.diff was ported by hand: keep it
    for f in ('patch.diff', 'demo.py', 'README.md'):
        if os.path.exists(os.path.join(src, f)) and not (ported and f == 'patch.diff') \
                and os.path.abspath(src) != os.path.abspath(out):
            shutil.copy(os.path.join(src, f), os.path.join(out, f))
    meta_path = os.path.join(out, 'meta.json')
    meta = json.load(open(meta_path)) if os.path.exists(meta_path) else {}
    if ported:
        meta.setdefault('ported', 'patch.diff is the same change ported to the current tree (a later fix rewrote the '
                        "lines); the agent's patch is patch.original.diff")
    meta.update({'id': name, 'property': args.prop, 'source': 'fresh sub-agent given only the property text and a '
                 'scratch worktree of /repo', 'evaluated_at': time.strftime('%Y-%m-%dT%H:%M:%SZ', time.gmtime())})
    wt = f'/tmp/seedcheck-{name}'
    sh(['git', '-C', '/repo', 'worktree', 'remove', '--force', wt])
    rc, o = sh(['git', '-C', '/repo', 'worktree', 'add', '--detach', wt, 'HEAD'])
    if rc != 0:
        print(o)
        return 2
    try:
        head = sh(['git', '-C', '/repo', 'rev-parse', '--short', 'HEAD'])[1].strip()
        meta['repo_head'] = head
        rc, o = sh(['git', '-C', wt, 'apply', os.path.join(out, 'patch.diff')])
        meta['applies'] = rc == 0
        if rc != 0:
            rc3, o3 = sh(['git', '-C', wt, 'apply', '--3way', os.path.join(out, 'patch.diff')])
            meta['applies_3way'] = rc3 == 0
            if rc3 != 0:
                meta['apply_error'] = o[-500:]
                json.dump(meta, open(meta_path, 'w'), indent=1)
                print(name, 'patch does not apply:', o[-300:])
                return 1
        meta['files_changed'] = sh(['git', '-C', wt, 'diff', '--stat'])[1].strip().split('\n')[-1].strip()
        py = '/venv/bin/python'
        rc_m, o_m = sh([py, os.path.join(out, 'demo.py')], cwd=wt, env={'PYTHONPATH': wt}, timeout=600)
        rc_c, o_c = sh([py, os.path.join(out, 'demo.py')], cwd='/repo', env={'PYTHONPATH': '/repo'}, timeout=600)
        meta['demo'] = {'mutated_rc': rc_m, 'mutated_tail': o_m.strip().split('\n')[-1][:300],
                        'clean_rc': rc_c, 'clean_tail': o_c.strip().split('\n')[-1][:300],
                        'confirmed': rc_m != 0 and rc_c == 0}
        if args.suite:
            rc_s, o_s = sh([py, '-m', 'pytest', '-q', '-p', 'no:cacheprovider', '--timeout=900',
                            '--continue-on-collection-errors', '-n', '8'], cwd=wt, env={'PYTHONPATH': wt},
                           timeout=3600)
            line = [l for l in o_s.strip().split('\n') if ' passed' in l or ' failed' in l][-1:]
            meta['suite'] = {'summary': line[0] if line else o_s[-200:], 'ok': bool(line) and '123 passed' in line[0]
                             and '3 failed' in line[0]}
        checks = meta.get('checks', {})
        for prop in [args.prop] + [p for p in args.also.split(',') if p]:
            t0 = time.time()
            rc_k, o_k = sh([os.path.join(VERIF, 'check'), prop, '--tier', args.tier], cwd=VERIF,
                           env={'VERIF_REPO': wt, 'VERIF_SEED': '0'}, timeout=7200)
            viol = [l for l in o_k.split('\n') if l.startswith('VIOLATION')]
            checks[prop] = {'rc': rc_k, 'violation_lines': viol[:3], 'tier': args.tier,
                            'wall_s': round(time.time() - t0, 1)}
            for v in viol[:1]:
                # keep what the check said about its first replay
                rp = v.split('replay=')[1].split()[0]
                try:
                    d = json.load(open(os.path.join(VERIF, rp)))
                    checks[prop]['what'] = str(d.get('what'))[:400]
                    checks[prop]['kind'] = d.get('kind')
                except Exception:
                    pass
        meta['checks'] = checks
        meta['caught_by_target'] = checks[args.prop]['rc'] == 1
        meta['ran'] = [f'git -C <scratch worktree of /repo at {head}> apply patch.diff',
                       'demo.py on the mutated tree and on /repo',
                       f'VERIF_REPO=<scratch> ./check {args.prop} --tier {args.tier}'] + \
                      (['pinned test suite on the mutated tree'] if args.suite else [])
        json.dump(meta, open(meta_path, 'w'), indent=1)
        print(name, 'demo confirmed:', meta['demo']['confirmed'], '| suite:', meta.get('suite', {}).get('summary'),
              '| caught:', {p: c['rc'] for p, c in checks.items()}, '|', checks[args.prop].get('what', '')[:160])
    finally:
        sh(['git', '-C', '/repo', 'worktree', 'remove', '--force', wt])
    return 0


if __name__ == '__main__':
    sys.exit(main())
