"""Common scaffolding for the scheduler properties (C01–C05, C12): each property module supplies
its projection of the trace (what is compared with the model), its oracle, generator options and
texts; everything else is shared."""
from collections import Counter

from harness import sched_common as sc

ENGINE_ANCHORS = [
    ('vivarium/core/engine.py', ['Engine.run_for', 'Engine.update', 'Engine._send_updates',
                                 'Engine.apply_update', 'Engine._check_complete', 'empty_front',
                                 'Engine._remove_deleted_processes', '_process_update',
                                 '_invoke_process', 'Defer.get', 'EmptyDefer.get',
                                 'Engine._calculate_update', 'Engine._process_state',
                                 'Engine.run_steps', 'Engine._emit_store_data',
                                 'Engine._emit_configuration']),
]


def P(name, ts, cond=None, extra=None, base_delta=1):
    return {'pid': [name], 'ts': {'script': ts}, 'cond': cond or {'script': [True]},
            'upd': [{'var': sc.tok(name), 'a': 1, 'b': 0, 'c': 1, 'src': '', 'd': 0},
                    {'var': 'x0', 'a': base_delta, 'b': 0, 'c': 0, 'src': '', 'd': 0}] + (extra or []),
            'parallel': False}


def S(procs, calls, steps=None, step_deps=None, **kw):
    d = {'steps': steps or [], 'stepDeps': step_deps or [], 'unit': 1, 'prec': None,
         'emit_ticks': None, 't0': 0, 'procs': procs, 'calls': calls}
    d['store'] = [['x0', 0]] + [[sc.tok(p['pid'][0]), 0] for p in procs + (steps or [])]
    d.update(kw)
    return d


def scheduler_corpus():
    """pre-fix witnesses of F1–F4, F13, F22, F24, F30 and a few hand-made schedules"""
    return [
        S([P('p0', [3])], [[10, True]]),                                         # F1
        S([P('p0', [1], {'script': [False]})], [[5, True]]),                     # F2
        S([P('p0', [5]), P('p1', [1], {'script': [False, False, True]})],
          [[2, False], [2, False], [4, True]]),                                  # F3
        S([P('p0', [5, 1])], [[2, False], [2, False], [3, True]]),               # F4
        S([P('p0', [5, 1]), P('p1', [2])], [[2, False], [2, False], [3, True]], unit=0.5),
        S([P('p0', [5])], [[10, True]], emit_ticks=2),                           # F13
        S([P('p0', [2])], [[5, True], [7, True]], unit=0.01, prec=2),            # F22
        S([P('p0', [2, 7])], [[9, True]], unit=0.1, prec=1),                     # F24
        S([P('p0', [17, 28])], [[15, False], [28, True]], unit=0.01, prec=2),    # F30
        S([P('p0', [3]), P('p1', [1])], [[2, False], [4, True]], t0=4),          # an engine resumed at t0 = 4
        # a fractional emit step on the precision grid: the emit schedule stays on the grid over many steps
        S([P('p0', [1])], [[15, True]], unit=0.1, prec=1, emit_ticks=1),
        S([P('p0', [1])], [[16, True]], unit=0.1, prec=1, emit_ticks=2),
        S([P('p0', [5])], [[160, True]], unit=0.01, prec=2, emit_ticks=10),
        S([P('p0', [1]), P('p1', [3])], [[7, False], [9, True]], unit=0.1, prec=1, emit_ticks=3),
        S([P('p0', [2])], [[1, False], [2, True]], unit=0.1, prec=1, t0=1),      # 0.1 + 0.1 + 0.2 on the grid
        S([P('p0', [2]), P('p1', [3]), P('p2', [7])], [[5, False], [4, False], [6, True]]),
        S([P('p0', [4]), P('p1', [4])], [[8, True]]),
        # two processes quiet in the same pass while nothing else runs (the clock jumps), woken by the next call; and
        # quiet together while a third process runs past the interval
        S([P('p0', [2], {'script': [False, True]}), P('p1', [2], {'script': [False, True]})],
          [[3, False], [6, True]]),
        S([P('p0', [2], {'script': [False, True]}), P('p1', [3], {'script': [False, True]}), P('p2', [5])],
          [[3, False], [7, True]]),
        # the initial state names an undeclared variable ahead of the declared ones; defaults differ from it
        S([P('p0', [2]), P('p1', [3])], [[6, True]], surplus=0, default_shift=3),
    ]


def zero_length_corpus():
    """a forced completion of length 0 lets the process left behind by the unforced calls catch up and leaves the
    complete ones alone (F50); used by C02 and C03 only: the catch-up re-emits a row for the same time, which the
    row properties (C01, C04, C12) exclude — noted edge"""
    return [
        S([P('p0', [2]), P('p1', [5])], [[2, False], [2, False], [0, True]]),
        S([P('p0', [2])], [[0, True], [2, True], [0, True]]),
    ]


def common_compare_guard(impl, model):
    if 'nonterminating' in model or 'graphError' in model:
        return f'model: {model}'
    if 'harness_exception' in impl:
        return f'probe crashed: {impl["harness_exception"]}'
    return None


def shrink(case):
    for i in range(len(case['procs'])):
        c = dict(case)
        c['procs'] = case['procs'][:i] + case['procs'][i + 1:]
        gone = sc.tok(case['procs'][i]['pid'][0])
        c['store'] = [e for e in case['store'] if e[0] != gone]
        if c['procs'] or c['steps']:
            yield c
    for i in range(len(case['steps'])):
        name = case['steps'][i]['pid']
        c = dict(case)
        c['steps'] = case['steps'][:i] + case['steps'][i + 1:]
        c['stepDeps'] = [
            {'p': sd['p'], 'deps': None if sd['deps'] is None else [d for d in sd['deps'] if d != name]}
            for j, sd in enumerate(case['stepDeps']) if j != i]
        c['store'] = [e for e in case['store'] if e[0] != sc.tok(name[0])]
        if c['procs'] or c['steps']:
            yield c
    for i in range(len(case['calls'])):
        if len(case['calls']) > 1:
            c = dict(case)
            c['calls'] = case['calls'][:i] + case['calls'][i + 1:]
            yield c
    for i, (iv, f) in enumerate(case['calls']):
        if iv > 1:
            c = dict(case)
            c['calls'] = [list(x) for x in case['calls']]
            c['calls'][i][0] = iv - 1
            yield c
    if case['unit'] != 1:
        c = dict(case)
        c['unit'] = 1
        c['prec'] = None
        yield c


def stats(results):
    c = Counter()
    for r in results:
        case = r['case']
        c['procs=%d' % len(case['procs'])] += 1
        c['steps=%d' % len(case['steps'])] += 1
        c['calls=%d' % len(case['calls'])] += 1
        c['unit=%s' % case['unit']] += 1
        log = r['impl'].get('log', []) if isinstance(r['impl'], dict) else []
        if any(ev['e'] == 'askCond' and not ev['ans'] for ev in log):
            c['has_quiet'] += 1
        if any(not f for _, f in case['calls']):
            c['has_unforced_call'] += 1
        if case['emit_ticks'] is not None:
            c['emit_step_variant'] += 1
        c['applies'] += sum(1 for ev in log if ev['e'] == 'apply')
        c['step_runs'] += sum(1 for ev in log if ev['e'] == 'stepInvoke')
        c['emits'] += sum(1 for ev in log if ev['e'] == 'emit')
    return dict(c)


def install(g, prop, view, oracle, gen_opts, budget, rule, level_text, level_note, technique,
            required=(), extra_corpus=(), nontrivial=None, extra_anchors=(), trusted=(),
            assumptions=()):
    g['PROP'] = prop
    g['LEAN_TARGETS'] = [f'VivProps.{prop}']
    g['DRIVER'] = 'Sched'
    g['REQUIRED_THEOREMS'] = list(required)
    g['ANCHORS'] = ENGINE_ANCHORS + list(extra_anchors)
    g['BUDGET'] = budget
    g['RULE'] = rule
    g['TRUSTED'] = ['IEEE float arithmetic of global_time (modelled as integer ticks; every observed '
                    'time must lie exactly on the tick grid of the scenario)'] + list(trusted)
    g['ASSUMPTIONS'] = ['processes request positive timesteps; callbacks terminate, do not raise and do '
                        'not mutate their arguments'] + list(assumptions)
    g['CASE_TIMEOUT'] = 20.0
    g['LEVEL_TEXT'] = level_text
    g['LEVEL_NOTE'] = level_note
    g['TECHNIQUE'] = technique
    g['corpus'] = lambda: scheduler_corpus() + list(extra_corpus)
    g['generate'] = lambda rng, n, tier: [sc.gen_scenario(rng, **gen_opts) for _ in range(n)]
    g['run_impl'] = sc.run_engine
    g['model_requests'] = lambda case: [sc.model_request(case)]
    g['model_obs'] = lambda case, ans: ans[0]

    def compare(case, impl, model):
        guard = common_compare_guard(impl, model)
        if guard:
            return guard
        a = view(case, impl.get('log', []), impl)
        mi = {'gt': model['gt'], 'complete': model['complete'], 'store': sorted(model['store'])}
        b = view(case, sc.model_events(model), mi)
        for k in b:
            if a.get(k) != b[k]:
                return f'{k}: impl={str(a.get(k))[:500]} model={str(b[k])[:500]}'
        return None
    g['compare'] = compare

    def _oracle(case, impl):
        if 'harness_exception' in impl:
            return [f'probe-crashed: {impl["harness_exception"]}']
        return list(oracle(case, impl))[:6]
    g['oracle'] = _oracle
    g['nontrivial'] = nontrivial or (lambda case, impl: len(case['procs']) + len(case['steps']) >= 2
                                     and len(impl.get('log', [])) >= 12)
    g['stats'] = stats
    g['classify'] = lambda case, failure: None
    g['shrink'] = shrink
