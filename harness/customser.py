"""A user-defined serializer registered under a main key and an alternate key (scenario family of C14).

`serializer_registry.register(str(Fraction), FractionSerializer(), alternate_keys=['verif_frac'])`: values of
the type — and of a subclass, found through the search over the listed serializers — serialize to plain JSON
data and come back equal, at any depth of lists and dictionaries; the alternate key looks the serializer up
and is *not* listed (`Registry.list()`), so the serializer is found once, not twice.

Oracle: the serialized form is plain; deserialize(serialize(x)) == x; the registry lists the main key once."""
import itertools
import re

_ids = itertools.count()
_REGEX = re.compile(r'^!verif_frac\[(-?\d+)/(\d+)\]$')


def gen_case(rng):
    def frac():
        return [rng.randrange(-9, 10), rng.choice([1, 2, 3, 7])]
    shape = rng.choice(['bare', 'list', 'dict', 'nested'])
    return {'kind': 'customser', 'shape': shape, 'fracs': [frac() for _ in range(rng.choice([1, 2, 3]))],
            'subclass': rng.random() < 0.4}


def corpus():
    return [{'kind': 'customser', 'shape': 'nested', 'fracs': [[3, 4], [0, 1]], 'subclass': False},
            {'kind': 'customser', 'shape': 'list', 'fracs': [[-1, 3]], 'subclass': True}]


def _setup():
    from fractions import Fraction
    from vivarium.core.registry import serializer_registry, Serializer

    class FractionSerializer(Serializer):
        python_type = Fraction

        def serialize(self, data):
            return f'!verif_frac[{data.numerator}/{data.denominator}]'

        def can_deserialize(self, data):
            return isinstance(data, str) and bool(_REGEX.match(data))

        def deserialize(self, data):
            m = _REGEX.match(data)
            return Fraction(int(m.group(1)), int(m.group(2)))
    key = str(Fraction)
    if serializer_registry.access(key) is None:
        serializer_registry.register(key, FractionSerializer(), alternate_keys=['verif_frac'])
    return serializer_registry, key


def run_impl(case):
    import warnings
    warnings.simplefilter('ignore')
    from fractions import Fraction
    from vivarium.core.serialize import serialize_value, deserialize_value

    class MyFraction(Fraction):
        pass
    obs = {}
    try:
        reg, key = _setup()
        listed = reg.list()
        obs['listed_main'] = listed.count(key)
        obs['listed_alt'] = listed.count('verif_frac')
        obs['alt_same'] = reg.access('verif_frac') is reg.access(key)
        cls = MyFraction if case['subclass'] else Fraction
        fr = [cls(n, d) for n, d in case['fracs']]
        value = {'bare': fr[0], 'list': list(fr), 'dict': {f'k{i}': f for i, f in enumerate(fr)},
                 'nested': {'a': [{'b': f, 'n': i} for i, f in enumerate(fr)], 'plain': 'x'}}[case['shape']]
        ser = serialize_value(value)
        obs['ser'] = repr(ser)
        back = deserialize_value(ser)
        want = {'bare': Fraction(*case['fracs'][0]), 'list': [Fraction(n, d) for n, d in case['fracs']],
                'dict': {f'k{i}': Fraction(n, d) for i, (n, d) in enumerate(case['fracs'])},
                'nested': {'a': [{'b': Fraction(n, d), 'n': i} for i, (n, d) in enumerate(case['fracs'])],
                           'plain': 'x'}}[case['shape']]
        obs['equal'] = back == want
        obs['back'] = repr(back)[:200]
    except Exception as e:  # noqa
        obs['raised'] = f'{type(e).__name__}: {str(e)[:200]}'
    return obs


def oracle(case, impl):
    if 'harness_exception' in impl:
        return [f'probe-crashed: {impl["harness_exception"]}']
    if impl.get('timeout'):
        return []
    if impl.get('raised'):
        return [f'custom-serializer: a value holding Fractions ({case["shape"]}, subclass: {case["subclass"]}) with a '
                f'serializer registered under a main and an alternate key: {impl["raised"]}']
    fails = []
    if impl['listed_main'] != 1 or impl['listed_alt'] != 0 or not impl['alt_same']:
        fails.append(f'registry-list: the main key is listed {impl["listed_main"]} time(s), the alternate key '
                     f'{impl["listed_alt"]} time(s) (alternate keys look an item up and are not listed)')
    if not impl['equal']:
        fails.append(f'roundtrip: {impl["ser"][:200]} came back as {impl["back"]}')
    return fails
