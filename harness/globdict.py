"""Updates through a glob port that is wired with a dictionary topology (scenario family of C01 and C06).

A process has one top-level glob port (`ports_schema = {'*': {…}}`) wired as
`{'*': {'_path': ('agents',), 'x': ('x',), 'y': ('y',)}}`: it sees every child of `agents` and returns, at every
call, an update of `x` and `y` for each of them.  Every one of these updates is applied, once, to the node the
process reads — at the first call and at every later one (the topology the engine holds is the same after it
was used).

Oracle: after tick k every child holds its initial value plus k times the increment; what the process is shown
is what the nodes hold."""
import itertools

_ids = itertools.count()


def gen_case(rng):
    return {'kind': 'globdict', 'ticks': rng.choice([3, 4]), 'dx': rng.choice([1, 2]), 'dy': rng.choice([10, 0]),
            'children': rng.choice([['a'], ['a', 'b'], ['a', 'b', 'c']]), 'parallel': rng.random() < 0.15,
            'rename': False}


def corpus():
    return [{'kind': 'globdict', 'ticks': 3, 'dx': 1, 'dy': 10, 'children': ['a', 'b'], 'parallel': False,
             'rename': False}]


def run_impl(case):
    import warnings
    warnings.simplefilter('ignore')
    from vivarium.core.engine import Engine
    from harness.globdict_procs import Feeder
    obs = {}
    eng = None
    try:
        sub = {'_path': ('agents',), 'x': ('x',), 'y': ('why',) if case['rename'] else ('y',), 'seen': ('seen',)}
        yname = 'why' if case['rename'] else 'y'
        eng = Engine(processes={'feeder': Feeder({'dx': case['dx'], 'dy': case['dy'], '_parallel': case['parallel']})},
                     topology={'feeder': {'*': sub}},
                     initial_state={'agents': {c: {'x': 5 * i, yname: 100 * i} for i, c in enumerate(case['children'])}},
                     emitter={'type': 'null'}, display_info=False, progress_bar=False)
        rows = []
        for _ in range(case['ticks']):
            eng.update(1)
            st = eng.state.get_value()['agents']
            rows.append({c: [st[c]['x'], st[c][yname], st[c]['seen']] for c in case['children']})
        obs['rows'] = rows
    except Exception as e:  # noqa
        obs['raised'] = f'{type(e).__name__}: {str(e)[:200]}'
    finally:
        if eng is not None:
            try:
                eng.end()
            except Exception:  # noqa
                pass
    return obs


def oracle(case, impl):
    if 'harness_exception' in impl:
        return [f'probe-crashed: {impl["harness_exception"]}']
    if impl.get('timeout'):
        return []
    if impl.get('raised'):
        return [f'engine-raised: {impl["raised"]}']
    for k, row in enumerate(impl['rows'], 1):
        for i, c in enumerate(case['children']):
            want = [5 * i + k * case['dx'], 100 * i + k * case['dy'], 5 * i + (k - 1) * case['dx']]
            if row[c] != want:
                return [f'glob-dict-update: after tick {k} child {c} (reached through a glob port wired with a '
                        f'dictionary topology) holds x, y, and the x the process was shown = {row[c]}; every update '
                        f'applied once gives {want}']
    return []
