"""Shared by harness/props/c06.py and c07.py: encodings of schema / topology / hierarchy for the
`Topo` driver, probe processes for the REAL engine, world generator.

JSON encodings (ordered, same as lean/Drivers/Topo.lean):
  topology: ["a","b"] (tuple path) | {"t": [[key, topology], ...]}
  schema:   {"leaf": enc(dict)} | "**" | {"out": bool, "s": [[key, schema], ...]}
  tree:     {"leaf": bool, "v": enc(value), "sub": bool, "k": [[key, tree], ...]}
"""
import copy

from harness.val import enc, dec, exc_name

PROC = '<proc>'
COMPARTMENTS = ['c1', 'c2', 'c3']
STORES = ['A', 'B', 'C']
VARS = ['x', 'y', 'z', 'w']
KIDS = ['k1', 'k2', 'k3']


# ------------------------------------------------------------------ encodings

def py_schema(js):
    if js == '**':
        return '**'
    if 'leaf' in js:
        return dec(js['leaf'])
    d = {}
    if js['out']:
        d['_output'] = True
    for k, s in js['s']:
        d[k] = py_schema(s)
    return d


def py_topo(js):
    if isinstance(js, list):
        return tuple(js)
    return {k: py_topo(t) for k, t in js['t']}


def leaf_schema(default, extra=None):
    d = {'_default': default}
    d.update(extra or {})
    return {'leaf': enc(d)}


def dict_schema(entries, out=False):
    return {'out': out, 's': [[k, s] for k, s in entries]}


def dict_topo(entries):
    return {'t': [[k, t] for k, t in entries]}


def nest(path, u):
    for k in reversed(path):
        u = {k: u}
    return u


def deep_merge_plain(a, b):
    for k, v in b.items():
        if k in a and isinstance(a[k], dict) and isinstance(v, dict):
            deep_merge_plain(a[k], v)
        else:
            a[k] = v
    return a


# ------------------------------------------------------------------ implementation side

def canon(v):
    """get_value()/states → plain data; process objects (and (process, topology) pairs) → PROC"""
    from vivarium.core.process import Process
    if isinstance(v, Process):
        return PROC
    if isinstance(v, tuple) and v and isinstance(v[0], Process):
        return PROC
    if isinstance(v, dict):
        return {k: canon(x) for k, x in v.items()}
    if isinstance(v, (list, tuple)):
        return [canon(x) for x in v]
    return v


def snapshot(store):
    """the hierarchy as the model's `Tree`"""
    return {'leaf': bool(store.leaf), 'v': enc(canon(store.value)), 'sub': bool(store.subschema),
            'k': [[k, snapshot(c)] for k, c in store.inner.items()]}


def flatten(v, prefix=()):
    """{path: leaf value}; an empty dict counts as a leaf value"""
    out = {}
    if isinstance(v, dict) and v:
        for k, x in v.items():
            out.update(flatten(x, prefix + (k,)))
    else:
        out[prefix] = v
    return out


def get_in(d, path):
    for k in path:
        if not isinstance(d, dict) or k not in d:
            return _MISSING
        d = d[k]
    return d


class _Missing:
    def __repr__(self):
        return '<missing>'


_MISSING = _Missing()


def probe_class():
    from vivarium.core.process import Process

    class Probe(Process):
        """scripted process: returns script[i] at its i-th next_update and records every `states`
        argument it is handed (calculate_timestep, update_condition, next_update)"""
        defaults = {}

        def __init__(self, schema, script, on_call=None):
            super().__init__({})
            self._schema = schema
            self.script = script
            self.step = 0
            self.seen = []
            self.on_call = on_call

        def ports_schema(self):
            return copy.deepcopy(self._schema)

        def _record(self, kind, states):
            rec = {'kind': kind, 'step': self.step, 'states': enc(canon(states))}
            if self.on_call is not None:
                self.on_call(rec, states)
            self.seen.append(rec)

        def calculate_timestep(self, states):
            self._record('calculate_timestep', states)
            return 1

        def update_condition(self, timestep, states):
            self._record('update_condition', states)
            return True

        def next_update(self, timestep, states):
            self._record('next_update', states)
            u = self.script[self.step] if self.step < len(self.script) else {}
            self.step += 1
            return copy.deepcopy(u)

    return Probe


def build_engine(case, scripts, on_call=None):
    """case['procs'] = [{'at': [...], 'name': str, 'schema': js, 'topo': js}], case['init'] = enc(dict).
    scripts: {proc index: [update, ...]}.  Returns (engine, [process objects])."""
    from vivarium.core.engine import Engine
    Probe = probe_class()
    processes, topology, objs = {}, {}, []
    for i, p in enumerate(case['procs']):
        obj = Probe(py_schema(p['schema']), scripts.get(i, []),
                    on_call if i == case.get('probe', 0) else None)
        objs.append(obj)
        dp, dt = processes, topology
        for c in p['at']:
            dp = dp.setdefault(c, {})
            dt = dt.setdefault(c, {})
        dp[p['name']] = obj
        dt[p['name']] = py_topo(p['topo'])
    eng = Engine(processes=processes, topology=topology, initial_state=dec(case['init']),
                 display_info=False, emitter='null')
    return eng, objs


# ------------------------------------------------------------------ independent projection (C07 oracle)

def project(root_value, outer, schema, topo):
    """The specification of what a process at `outer` sees, evaluated on `get_value()` of the
    whole hierarchy: declared variable ↦ value of the node its path resolves to (lexically),
    `*` ↦ one entry per current child restricted to the sub-schema, `**` ↦ the subtree,
    `_output` ↦ {}, nothing else.  Written against the documentation, not against store.py:
    it never navigates Store objects."""
    def norm(p):
        out = []
        for s in p:
            if s == '..':
                if not out:
                    raise KeyError('above root')
                out.pop()
            else:
                out.append(s)
        return tuple(out)

    def value_at(p):
        v = get_in(root_value, p)
        if v is _MISSING:
            raise KeyError(p)
        return v

    def is_variable(s):
        return isinstance(s, dict) and any(k in s for k in (
            '_default', '_updater', '_value', '_properties', '_emit', '_serializer'))

    def go(pos, s, t):
        # pos: absolute position (tuple) of the store this (sub)schema is wired to
        if s == '**' or is_variable(s):
            return value_at(pos)
        value_at(pos)                       # the store must exist
        if s.get('_output'):
            return {}
        out = {}
        for key, sub in s.items():
            if key in ('_output', '_divider'):
                continue
            path = t.get(key) if isinstance(t, dict) else None
            if key == '*':
                if isinstance(path, dict):
                    path = dict(path)
                    node = norm(pos + tuple(path.pop('_path', ())))
                    subt = path
                elif path is None:
                    node, subt = pos, {}
                else:
                    node, subt = norm(pos + tuple(path)), {}
                children = value_at(node)
                for child in (children if isinstance(children, dict) else {}):
                    out[child] = go(node + (child,), sub, subt)
            elif isinstance(path, dict):
                path = dict(path)
                node = norm(pos + tuple(path.pop('_path', ())))
                out[key] = go(node, sub, path)
            else:
                node = norm(pos + (tuple(path) if path is not None else (key,)))
                out[key] = go(node, sub, {})
        return out

    return go(tuple(outer), schema, topo)


# ------------------------------------------------------------------ world generator

def rel_path(rng, frm, to, detour=0.25):
    """a relative path from absolute `frm` to absolute `to`; sometimes climbs higher than needed
    (through nodes that exist: the ancestors of `frm`)"""
    frm, to = list(frm), list(to)
    i = 0
    while i < len(frm) and i < len(to) and frm[i] == to[i]:
        i += 1
    while i > 0 and rng.random() < detour:
        i -= 1
    return ['..'] * (len(frm) - i) + to[i:]


class World:
    """design of a hierarchy: stores (branch nodes) with variables, glob stores with children"""

    def __init__(self, rng, depth=None):
        self.rng = rng
        d = rng.choice([0, 1, 1, 2, 2, 3]) if depth is None else depth
        self.loc = COMPARTMENTS[:d]
        self.stores = []
        for _ in range(rng.choice([1, 2, 2, 3])):
            base = self.loc[:rng.randrange(0, d + 1)]
            s = base + [rng.choice(STORES)]
            if rng.random() < 0.3:
                s.append(rng.choice(STORES))
            if s not in self.stores:
                self.stores.append(s)
        self.marker = {}

    def default(self, node):
        """one default per variable node (conflicting defaults are another property's business)"""
        node = tuple(node)
        if node not in self.marker:
            self.marker[node] = 1000 * (len(self.marker) + 1)
        return self.marker[node]
