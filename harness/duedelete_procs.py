"""Processes of the `duedelete` family (module level: they are pickled into workers)."""
from vivarium.core.process import Process


class Secrete(Process):
    """lives in a compartment; adds `rate` per time unit to its own mass and to a pool outside the compartment"""
    name = 'duedelete-secrete'
    defaults = {'rate': 10.0}

    def ports_schema(self):
        return {'own': {'mass': {'_default': 1.0, '_emit': True, '_divider': 'split'}},
                'pool': {'total': {'_default': 0.0, '_emit': True}}}

    def next_update(self, timestep, states):
        # the process reads its own schema (assigned by the store at construction; in a worker: forwarded to it)
        known = 1.0 if self.schema else 0.0
        return {'own': {'mass': timestep * known}, 'pool': {'total': self.parameters['rate'] * timestep}}


class Reaper(Process):
    """at its `at`-th call deletes (or divides) compartment `m`"""
    name = 'duedelete-reaper'
    defaults = {'at': 2, 'how': 'delete', 'rate': 10.0}

    def __init__(self, parameters=None):
        super().__init__(parameters)
        self.n = 0

    def ports_schema(self):
        return {'agents': {'*': {'own': {'mass': {'_default': 1.0, '_divider': 'split'}}}}}

    def next_update(self, timestep, states):
        self.n += 1
        if self.n == self.parameters['at'] and 'm' in states['agents']:
            if self.parameters['how'] == 'delete':
                return {'agents': {'_delete': ['m']}}
            topo = {'secrete': {'own': ('own',), 'pool': ('..', '..', 'pool')}}
            return {'agents': {'_divide': {'mother': 'm', 'daughters': [
                {'key': k, 'processes': {'secrete': Secrete({'rate': self.parameters['rate'],
                                                             'timestep': self.parameters['ts']})},
                 'topology': dict(topo)} for k in ('m0', 'm1')]}}}
        return {}
