"""A process that returns the same update object from every call (scenario family of C06 and C08).

Several ports of the process are wired to one store node; the update it returns is one nested
dictionary kept by the process (a constant), not a fresh one per call.  Every port's update must be
applied on every call (C06), the declared updater combines them one after the other (C08), and the
engine must leave the update object as it was (C08): an engine that merges the ports' updates
*into* the process's own dictionaries applies more and more with every call (finding F35).

Oracle: after call i the variable holds `initial + i * (sum of the ports' deltas)`, and the update
object still equals a deep copy taken before the run."""
import copy
import itertools

_ids = itertools.count()


def gen_case(rng):
    nports = rng.choice([2, 2, 3])
    return {'kind': 'reuseupd', 'deltas': [rng.choice([1, 2, 10, 100]) for _ in range(nports)],
            'depth': rng.choice([0, 1, 1, 2]), 'ticks': rng.choice([3, 4]), 'init': rng.choice([0, 5]),
            'glob': rng.random() < 0.3, 'leafports': rng.random() < 0.25,
            'ordered': rng.random() < 0.3, 'reverse_ports': rng.random() < 0.5}


def corpus():
    return [{'kind': 'reuseupd', 'deltas': [1, 10], 'depth': 1, 'ticks': 4, 'init': 0, 'glob': False},
            {'kind': 'reuseupd', 'deltas': [1, 10, 100], 'depth': 2, 'ticks': 3, 'init': 5, 'glob': False},
            {'kind': 'reuseupd', 'deltas': [2, 10], 'depth': 1, 'ticks': 3, 'init': 0, 'glob': True},
            {'kind': 'reuseupd', 'deltas': [1, 10], 'depth': 1, 'ticks': 4, 'init': 0, 'glob': False, 'ordered': True},
            # leaf ports wired straight to one variable directly below the root
            {'kind': 'reuseupd', 'deltas': [3, 10, 100], 'depth': 0, 'ticks': 3, 'init': 0, 'glob': False,
             'leafports': True},
            # three ports meet two levels below the node they are wired to, listed in reverse
            {'kind': 'reuseupd', 'deltas': [1, 2, 4], 'depth': 2, 'ticks': 3, 'init': 0, 'glob': False,
             'reverse_ports': True}]


def _nest(depth, leaf):
    d = leaf
    for seg in (['grp', 'sub'][:depth])[::-1]:
        d = {seg: d}
    return d


def run_impl(case):
    from vivarium.core.engine import Engine
    from vivarium.core.process import Process
    ports = [f'p{i}' for i in range(len(case['deltas']))]
    deltas = list(case['deltas'])
    if case.get('reverse_ports'):
        # the ports are listed the other way round (schema, update and topology): the result is the same sum
        ports, deltas = ports[::-1], deltas[::-1]
    depth = case['depth']
    wires = None
    if case.get('leafports'):
        # every port IS a variable, and all of them are wired to the top-level variable `x`
        schema = {p: {'_default': 0, '_emit': True} for p in ports}
        UPD = {p: d for p, d in zip(ports, deltas)}
        init = {'x': case['init']}
        wires = {p: ('x',) for p in ports}

        def read(state):
            return state['x']
    elif case['glob']:
        schema = {p: {'*': _nest(depth, {'x': {'_default': 0, '_emit': True}})} for p in ports}
        UPD = {p: {'c0': _nest(depth, {'x': d})} for p, d in zip(ports, deltas)}
        init = {'pool': {'c0': _nest(depth, {'x': case['init']})}}

        def read(state):
            node = state['pool']['c0']
            for seg in ['grp', 'sub'][:depth]:
                node = node[seg]
            return node['x']
    else:
        schema = {p: _nest(depth, {'x': {'_default': 0, '_emit': True}}) for p in ports}
        UPD = {p: _nest(depth, {'x': d}) for p, d in zip(ports, deltas)}
        init = {'pool': _nest(depth, {'x': case['init']})}

        def read(state):
            node = state['pool']
            for seg in ['grp', 'sub'][:depth]:
                node = node[seg]
            return node['x']
    if case.get('ordered'):
        # the update is built from a dict subclass (F39)
        from collections import OrderedDict

        def od(x):
            return OrderedDict((k, od(v)) for k, v in x.items()) if isinstance(x, dict) else x
        UPD = od(UPD)
    before = copy.deepcopy(UPD)

    class Const(Process):
        def ports_schema(self):
            return schema

        def next_update(self, timestep, states):
            return UPD            # the same object, every time

    obs = {}
    try:
        eng = Engine(processes={'p': Const()}, topology={'p': wires or {p: ('pool',) for p in ports}},
                     initial_state=init,
                     emitter={'type': 'null'}, display_info=False, progress_bar=False)
        vals = []
        for _ in range(case['ticks']):
            eng.update(1)
            vals.append(read(eng.state.get_value()))
        obs['values'] = vals
        obs['update_intact'] = (UPD == before)
        obs['update_now'] = repr(UPD)[:300]
    except Exception as e:  # noqa
        obs['raised'] = f'{type(e).__name__}: {str(e)[:200]}'
    return obs


def oracle(case, impl):
    if 'harness_exception' in impl:
        return [f'probe-crashed: {impl["harness_exception"]}']
    if impl.get('timeout'):
        return []
    if impl.get('raised'):
        return [f'engine-raised: {impl["raised"]}']
    fails = []
    want = [case['init'] + (i + 1) * sum(case['deltas']) for i in range(case['ticks'])]
    if impl['values'] != want:
        fails.append(f'every-port-once: {len(case["deltas"])} ports on one node add {case["deltas"]} per call; the '
                     f'variable goes {impl["values"]}, expected {want}')
    if not impl['update_intact']:
        fails.append(f'update-modified: the update object the process returns was rewritten to {impl["update_now"]}')
    return fails
