"""Process of the `globdict` family (module level: it is pickled into workers)."""
from vivarium.core.process import Process


class Feeder(Process):
    name = 'globdict-feeder'
    defaults = {'dx': 1, 'dy': 10}

    def ports_schema(self):
        return {'*': {'x': {'_default': 0}, 'y': {'_default': 0}, 'seen': {'_default': -1, '_updater': 'set'}}}

    def next_update(self, timestep, states):
        return {child: {'x': self.parameters['dx'], 'y': self.parameters['dy'], 'seen': values['x']}
                for child, values in states.items()}
