"""Decimal timesteps without `global_time_precision` (scenario family of C03).

Processes with timesteps such as 0.1, 0.3, 0.7 are driven by unforced `run_for()` calls of decimal lengths.
Without a precision the clock values are whatever the float additions give — but every call must still return
with the clock exactly on `start + interval` (the float the engine itself computes for the end of the call),
the clock must never pass that value on the way, and the emitted rows must carry strictly increasing times that
never lie beyond the clock.  (Forced completion is left out: a float residue at the end of a forced call is a
noted edge of the unchanged tree.)"""
import itertools

_ids = itertools.count()
CTX = {}
STEPS = [0.1, 0.2, 0.3, 0.7, 0.25, 0.4, 1.1]
LENGTHS = [0.3, 0.9, 0.5, 1.0, 0.7, 1.3, 0.1]


def gen_case(rng):
    n = rng.choice([1, 2, 2, 3])
    return {'kind': 'noprec', 'ts': [rng.choice(STEPS) for _ in range(n)],
            'calls': [rng.choice(LENGTHS) for _ in range(rng.choice([1, 2, 3, 4]))],
            't0': rng.choice([0.0, 0.0, 0.7, 100.3])}


def corpus():
    return [{'kind': 'noprec', 'ts': [0.1], 'calls': [0.3], 't0': 0.0},
            {'kind': 'noprec', 'ts': [0.3, 0.7], 'calls': [0.9, 0.5], 't0': 0.0},
            {'kind': 'noprec', 'ts': [0.1, 0.25], 'calls': [0.3, 0.3, 0.3], 't0': 0.7}]


def run_impl(case):
    from vivarium.core.engine import Engine
    from vivarium.core.process import Process
    from vivarium.core.emitter import Emitter
    from vivarium.core.registry import emitter_registry
    key = f'np-{next(_ids)}'
    rows = []
    CTX[key] = rows

    class Tick(Process):
        defaults = {'ts': 1.0, 'var': 'x'}

        def ports_schema(self):
            return {'vars': {self.parameters['var']: {'_default': 0.0, '_emit': True}}}

        def calculate_timestep(self, states):
            return self.parameters['ts']

        def next_update(self, timestep, states):
            return {'vars': {self.parameters['var']: timestep}}

    class RowEmitter(Emitter):
        def emit(self, data):
            r = CTX.get(self.config.get('ctx_key'))
            if r is not None and data['table'] == 'history':
                r.append(float(data['data']['time']))
    if emitter_registry.access('verif_np') is None:
        emitter_registry.register('verif_np', RowEmitter)
    obs = {'calls': []}
    try:
        procs = {f'p{i}': Tick({'ts': ts, 'var': f'x{i}'}) for i, ts in enumerate(case['ts'])}
        eng = Engine(processes=procs, topology={k: {'vars': ('vars',)} for k in procs},
                     initial_global_time=case['t0'], emitter={'type': 'verif_np', 'ctx_key': key},
                     display_info=False, progress_bar=False)
        for iv in case['calls']:
            start = eng.global_time
            n0 = len(rows)
            eng.run_for(iv)
            obs['calls'].append({'start': start, 'interval': iv, 'end': start + iv, 'clock': eng.global_time,
                                 'rows': list(rows[n0:])})
        obs['rows'] = list(rows)
    except Exception as e:  # noqa
        obs['raised'] = f'{type(e).__name__}: {str(e)[:200]}'
    finally:
        CTX.pop(key, None)
    return obs


def oracle(case, impl):
    if 'harness_exception' in impl:
        return [f'probe-crashed: {impl["harness_exception"]}']
    if impl.get('timeout'):
        return [f'returns: run_for() calls {case["calls"]} with timesteps {case["ts"]} (no precision) did not return']
    if impl.get('raised'):
        return [f'engine-raised: {impl["raised"]}']
    for c in impl['calls']:
        if c['clock'] != c['end']:
            return [f'lands: run_for({c["interval"]}) from {c["start"]!r} returned with the clock at {c["clock"]!r}, '
                    f'the end of the call is {c["end"]!r}']
        for t in c['rows']:
            if t > c['end']:
                return [f'bound: a row for time {t!r} was emitted during run_for({c["interval"]}) from {c["start"]!r}, '
                        f'beyond the end of the call {c["end"]!r}']
    rows = impl['rows']
    for a, b in zip(rows, rows[1:]):
        if not a < b:
            return [f'monotone: row times {a!r} then {b!r} (time keys must increase strictly)']
    return []
