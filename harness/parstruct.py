"""Parallel processes and steps created at run time, then a second structural change (scenario family of C13).

A serial process generates, at run time, two compartments: `g` holds a process and a step that keep private
state (each writes the number of times it was called), `h` holds a process without any port and a long timestep.
Later the compartment `g` is moved to another store (or a plain child is added): the views are rebuilt while the
port-less process of `h` has an update in flight, and the moved step goes on from its private state.

The scenario is run twice, once with none and once with all of the generated processes / steps marked
`_parallel`.  Oracle: both runs complete, and they emit the same rows (C13: marking any subset parallel changes
nothing observable; the engine never sends a command to a process that still has one pending)."""
import itertools

from vivarium.core.process import Process, Step

_ids = itertools.count()
CTX = {}


class Counter(Step):
    """writes the number of times it ran (private state)"""
    defaults = {'var': 'calls'}

    def __init__(self, parameters=None):
        super().__init__(parameters)
        self.n = 0

    def ports_schema(self):
        return {'vars': {self.parameters['var']: {'_default': 0, '_updater': 'set', '_emit': True}}}

    def next_update(self, timestep, states):
        self.n += 1
        return {'vars': {self.parameters['var']: self.n}}


class CountProc(Process):
    """writes the number of times it was called (private state), every `ts`"""
    defaults = {'var': 'n', 'ts': 1}

    def __init__(self, parameters=None):
        super().__init__(parameters)
        self.n = 0

    def ports_schema(self):
        return {'vars': {self.parameters['var']: {'_default': 0, '_updater': 'set', '_emit': True}}}

    def calculate_timestep(self, states):
        return self.parameters['ts']

    def next_update(self, timestep, states):
        self.n += 1
        return {'vars': {self.parameters['var']: self.n}}


class Idle(Process):
    """a process without any port"""
    defaults = {'ts': 5}

    def ports_schema(self):
        return {}

    def calculate_timestep(self, states):
        return self.parameters['ts']

    def next_update(self, timestep, states):
        return {}


class Maker(Process):
    defaults = {'gen_at': 1, 'then': 'move', 'then_at': 3, 'par': False, 'flow': True, 'idle_ts': 5}

    def __init__(self, parameters=None):
        super().__init__(parameters)
        self.n = 0

    def ports_schema(self):
        return {'agents': {'*': {}}, 'agents2': {'*': {}}}

    def calculate_timestep(self, states):
        return 1

    def next_update(self, timestep, states):
        self.n += 1
        p = self.parameters
        mark = {'_parallel': True} if p['par'] else {}
        if self.n == p['gen_at']:
            g = {'key': 'g', 'processes': {'grow': CountProc(dict(mark, var='n', ts=1))},
                 'steps': {'count': Counter(dict(mark))},
                 'topology': {'grow': {'vars': ('vars',)}, 'count': {'vars': ('vars',)}}, 'initial_state': {}}
            if p['flow']:
                g['flow'] = {'count': []}
            h = {'key': 'h', 'processes': {'idle': Idle(dict(mark, ts=p['idle_ts'])),
                                           'tick': CountProc(dict(mark, var='m', ts=2))},
                 'topology': {'idle': {}, 'tick': {'vars': ('vars',)}}, 'initial_state': {}}
            return {'agents': {'_generate': [g, h]}}
        if self.n == p['then_at']:
            if p['then'] == 'move':
                return {'agents': {'_move': [{'source': ('g',), 'target': 'agents2'}]}}
            if p['then'] == 'add':
                return {'agents': {'_add': [{'key': 'plain', 'state': {}}]}}
        return {}


def gen_case(rng):
    gen_at = rng.choice([1, 2])
    return {'kind': 'parstruct', 'gen_at': gen_at, 'then': rng.choice(['move', 'move', 'add', 'none']),
            'then_at': gen_at + rng.choice([1, 2, 3]), 'flow': rng.random() < 0.7, 'idle_ts': rng.choice([3, 5]),
            'ticks': gen_at + rng.choice([4, 5, 6])}


def corpus():
    return [{'kind': 'parstruct', 'gen_at': 1, 'then': 'move', 'then_at': 3, 'flow': True, 'idle_ts': 5, 'ticks': 6},
            {'kind': 'parstruct', 'gen_at': 2, 'then': 'add', 'then_at': 3, 'flow': False, 'idle_ts': 5, 'ticks': 6}]


def _run(case, par):
    from vivarium.core.engine import Engine
    from vivarium.core.emitter import Emitter
    from vivarium.core.registry import emitter_registry
    from harness.probes import TickProcess
    key = f'ps-{next(_ids)}'
    rows = []
    CTX[key] = rows

    class RowEmitter(Emitter):
        def emit(self, data):
            r = CTX.get(self.config.get('ctx_key'))
            if r is not None and data['table'] == 'history':
                d = data['data']
                r.append({'t': float(d['time']),
                          'agents': {k: dict(v.get('vars') or {}) for k, v in sorted((d.get('agents') or {}).items())},
                          'agents2': {k: dict(v.get('vars') or {})
                                      for k, v in sorted((d.get('agents2') or {}).items())}})
    if emitter_registry.access('verif_ps') is None:
        emitter_registry.register('verif_ps', RowEmitter)
    obs = {}
    eng = None
    try:
        maker = Maker({'gen_at': case['gen_at'], 'then': case['then'], 'then_at': case['then_at'], 'par': par,
                       'flow': case['flow'], 'idle_ts': case['idle_ts']})
        eng = Engine(processes={'maker': maker, 'agents': {'a': {'p': TickProcess({'ts': 1})}},
                                'agents2': {'keep': {'p': TickProcess({'ts': 1, 'var': 'k'})}}},
                     topology={'maker': {'agents': ('agents',), 'agents2': ('agents2',)},
                               'agents': {'a': {'p': {'vars': ('vars',)}}},
                               'agents2': {'keep': {'p': {'vars': ('vars',)}}}},
                     emitter={'type': 'verif_ps', 'ctx_key': key}, display_info=False, progress_bar=False)
        eng.update(case['ticks'])
        obs['rows'] = list(rows)
    except Exception as e:  # noqa
        obs['raised'] = f'{type(e).__name__}: {str(e)[:200]}'
        obs['rows'] = list(rows)
    finally:
        CTX.pop(key, None)
        if eng is not None:
            try:
                eng.end()
            except Exception as e:  # noqa
                obs.setdefault('raised', f'end(): {type(e).__name__}: {str(e)[:160]}')
    return obs


def run_impl(case):
    return {'serial': _run(case, False), 'parallel': _run(case, True)}


def oracle(case, impl):
    if 'harness_exception' in impl:
        return [f'probe-crashed: {impl["harness_exception"]}']
    if impl.get('timeout'):
        return []
    s, p = impl['serial'], impl['parallel']
    if s.get('raised'):
        return [f'engine-raised: the serial run raised {s["raised"]}']
    if p.get('raised'):
        return [f'engine-raised: with the generated processes marked parallel the run raised {p["raised"]}; the '
                f'serial run of the same composite completes']
    if len(s['rows']) < 1 + case['ticks']:
        return [f'row: {len(s["rows"])} rows for {case["ticks"]} batches']
    for a, b in zip(s['rows'], p['rows']):
        if a != b:
            return [f'transparent: at t={a["t"]} the serial run emits {a}, the run with the generated processes and '
                    f'steps marked parallel emits {b}']
    if len(s['rows']) != len(p['rows']):
        return [f'transparent: {len(s["rows"])} rows serial, {len(p["rows"])} rows parallel']
    return []
