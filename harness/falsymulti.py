"""Several ports of one process on one node, falsy updates among them (scenario family of C06 and C08).

The ports `p0 … pk` of one process are wired to the same variable.  The update of the process names a
value for each of them; the engine carries them together (`_multi_update`) and the node applies each of
them — whatever the value is: `0`, `False`, `''`, `0.0` are updates like any other.  With the `set`
updater the node then holds one of the values handed in (the same falsy value through every port: that
value) and the process is shown it at its next call; a recording updater (the node keeps the list of what
it was handed) shows every one; an accumulating one their sum.  (C06 does not fix the order in which the
ports' updates are applied, so the oracle does not depend on it.)

Oracle: after each tick the node holds what applying every port's value, in some order, gives."""
import itertools

_ids = itertools.count()
FALSY = [0, False, '', 0.0]
TRUTHY = [5, 'x', True, 2.5]


def gen_case(rng):
    leaf = rng.random() < 0.35           # the ports are wired to the variable itself (a one-level ports schema)
    n = rng.choice([1, 1, 2]) if leaf else rng.choice([2, 2, 3])
    how = rng.choice(['set', 'record', 'accumulate'])
    def val():
        if how == 'accumulate':
            return rng.choice([0, 0, 3, -2, 7])
        return rng.choice(FALSY) if rng.random() < 0.5 else rng.choice(TRUTHY)
    def tick():
        if how == 'set' and rng.random() < 0.6:
            return [val()] * n                       # the same value through every port
        return [val() for _ in range(n)]
    return {'kind': 'falsymulti', 'n': n, 'how': how, 'depth': 0 if leaf else rng.choice([0, 1]), 'leaf': leaf,
            'ticks': [tick() for _ in range(rng.choice([2, 3]))],
            'other': rng.random() < 0.5}


def corpus():
    return [
        {'kind': 'falsymulti', 'n': 2, 'how': 'set', 'depth': 0, 'ticks': [[5, 5], [0, 0], ['x', 'y'], ['', '']],
         'other': False},
        {'kind': 'falsymulti', 'n': 3, 'how': 'record', 'depth': 1, 'ticks': [[0, 5, False], ['', 0, 0]], 'other': True},
        {'kind': 'falsymulti', 'n': 2, 'how': 'accumulate', 'depth': 0, 'ticks': [[0, 3], [4, 0]], 'other': False},
        # a port wired to the variable itself: the update for the port is the value
        {'kind': 'falsymulti', 'n': 1, 'how': 'set', 'depth': 0, 'leaf': True, 'ticks': [[5], [0], [False], ['']],
         'other': True},
        {'kind': 'falsymulti', 'n': 2, 'how': 'record', 'depth': 0, 'leaf': True, 'ticks': [[0, 5], ['', 0]],
         'other': False},
    ]


def _record(current, update):
    return list(current) + [update]


def _enc(v):
    if isinstance(v, list):
        return [_enc(x) for x in v]
    return [type(v).__name__, v]


def _key(v):
    return repr(v)


def accepts(case, values):
    """does the sequence of node values (one per tick) follow from applying, at every tick, every port's value in
    some order?"""
    how = case['how']
    cur = [] if how == 'record' else (0 if how == 'accumulate' else 'init')
    for vals, got in zip(case['ticks'], values):
        if how == 'set':
            if got not in [_enc(v) for v in vals]:
                return False
        elif how == 'record':
            if not isinstance(got, list) or got[:len(cur)] != cur or \
                    sorted(map(_key, got[len(cur):])) != sorted(_key(_enc(v)) for v in vals):
                return False
        else:
            if got != _enc(dec_sum(cur, vals)):
                return False
        cur = got if how != 'accumulate' else dec_sum(cur, vals)
    return len(values) == len(case['ticks'])


def dec_sum(cur, vals):
    base = cur[1] if isinstance(cur, list) else cur
    return base + sum(vals)


def run_impl(case):
    import copy
    import warnings
    warnings.simplefilter('ignore')
    from vivarium.core.engine import Engine
    from vivarium.core.process import Process
    how = case['how']
    decl = {'set': {'_default': 'init', '_updater': 'set'},
            'record': {'_default': [], '_updater': _record},
            'accumulate': {'_default': 0}}[how]
    n = case['n']
    script = [list(v) for v in case['ticks']]
    seen = []

    class Many(Process):
        name = f'falsymulti-{next(_ids)}'

        def ports_schema(self):
            if case.get('leaf'):
                return {f'p{i}': dict(decl) for i in range(n)}
            if case['depth']:
                return {f'p{i}': {'sub': {'v': dict(decl)}} for i in range(n)}
            return {f'p{i}': {'v': dict(decl)} for i in range(n)}

        def next_update(self, timestep, states):
            seen.append(copy.deepcopy(states))
            if not script:
                return {}
            vals = script.pop(0)
            if case.get('leaf'):
                return {f'p{i}': vals[i] for i in range(n)}
            if case['depth']:
                return {f'p{i}': {'sub': {'v': vals[i]}} for i in range(n)}
            return {f'p{i}': {'v': vals[i]} for i in range(n)}

    class Other(Process):
        name = f'falsymulti-o-{next(_ids)}'

        def ports_schema(self):
            return {'w': {'z': {'_default': 1}}}

        def next_update(self, timestep, states):
            return {'w': {'z': 1}}

    obs = {}
    try:
        procs = {'many': Many({})}
        topo = {'many': {f'p{i}': ('store', 'v') if case.get('leaf') else ('store',) for i in range(n)}}
        if case['other']:
            procs['other'] = Other({})
            topo['other'] = {'w': ('elsewhere',)}
        eng = Engine(processes=procs, topology=topo, emitter={'type': 'null'}, display_info=False,
                     progress_bar=False)
        got = []
        for _ in case['ticks']:
            eng.update(1)
            st = eng.state.get_value()['store']
            got.append(_enc(st['sub']['v'] if case['depth'] else st['v']))
        eng.update(1)
        obs['values'] = got
        shown = []
        for s in seen[1:]:
            row = [s[f'p{i}'] if case.get('leaf') else (s[f'p{i}']['sub']['v'] if case['depth'] else s[f'p{i}']['v'])
                   for i in range(n)]
            shown.append([_enc(x) for x in row])
        obs['shown'] = shown
        if case['other']:
            obs['elsewhere'] = eng.state.get_value()['elsewhere']['z']
    except Exception as e:  # noqa
        obs['raised'] = f'{type(e).__name__}: {str(e)[:200]}'
    return obs


def oracle(case, impl):
    if 'harness_exception' in impl:
        return [f'probe-crashed: {impl["harness_exception"]}']
    if impl.get('timeout'):
        return []
    if impl.get('raised'):
        return [f'multi-raised: {impl["raised"]}']
    fails = []
    if not accepts(case, impl['values']):
        fails.append(f'multi-falsy: the node shared by {case["n"]} ports ({case["how"]}) holds {impl["values"]} after '
                     f'the ticks writing {case["ticks"]}: not what applying every one of the values gives')
    shown = [[w] * case['n'] for w in impl['values']]
    if impl['shown'][:len(shown)] != shown:
        fails.append(f'multi-shown: the process is shown {impl["shown"]} through its ports, the node held '
                     f'{impl["values"]}')
    if case['other'] and impl.get('elsewhere') != 1 + len(case['ticks']) + 1:
        fails.append(f'multi-frame: an unrelated variable holds {impl.get("elsewhere")}')
    return fails
