"""Emit flags of processes that share one schema object (scenario family of C12; the view side of the
same sharing is C07's schemaleak family).

A process class whose `ports_schema()` returns one class-level dictionary; two instances in two
compartments, one of them carrying a `_schema` override of the `_emit` flags; optionally a third
compartment with a plain instance generated at run time.  Every row must contain, per compartment,
exactly the variables *that* instance flagged."""
import itertools

_ids = itertools.count()
CTX = {}


def gen_case(rng):
    if rng.random() < 0.08:
        return {'kind': 'emitleak', 'mode': 'timevar', 'start': rng.choice([10, 0, 100]), 'ticks': rng.choice([3, 4]),
                'flagged': rng.random() < 0.7}
    if rng.random() < 0.12:
        return {'kind': 'emitleak', 'mode': 'schemaless', 'at': rng.choice([1, 2]), 'ticks': rng.choice([3, 4]),
                'state': rng.choice(['hello', 5, 0])}
    if rng.random() < 0.3:
        return {'kind': 'emitleak', 'mode': 'globs', 'order': rng.choice(['mass-first', 'volume-first']),
                'late': rng.random() < 0.6, 'ticks': rng.choice([2, 3]), 'depth': rng.choice([1, 1, 2])}
    return {'kind': 'emitleak', 'order': rng.choice(['over-first', 'plain-first']),
            'late': rng.random() < 0.5, 'ticks': rng.choice([2, 3]),
            'via': rng.choice(['_schema', '_schema', 'merge', 'merge2', 'reuse', 'revise', 'revise_param'])}


def corpus():
    return [{'kind': 'emitleak', 'order': 'over-first', 'late': True, 'ticks': 3},
            {'kind': 'emitleak', 'order': 'plain-first', 'late': False, 'ticks': 2},
            # the flags are switched by Composite.merge(schema_override=…): in the last merge, or one merge earlier
            {'kind': 'emitleak', 'order': 'over-first', 'late': False, 'ticks': 2, 'via': 'merge'},
            {'kind': 'emitleak', 'order': 'over-first', 'late': False, 'ticks': 2, 'via': 'merge2'},
            # the composite was used once (a store generated from it) before the flags were merged in
            {'kind': 'emitleak', 'order': 'over-first', 'late': False, 'ticks': 2, 'via': 'reuse'},
            # a later assignment of the flags revises an earlier one (given by an earlier merge, or by the process's
            # own `_schema` parameter): the later one holds
            {'kind': 'emitleak', 'order': 'over-first', 'late': False, 'ticks': 2, 'via': 'revise'},
            {'kind': 'emitleak', 'order': 'plain-first', 'late': False, 'ticks': 2, 'via': 'revise_param'},
            # a variable without any schema (created by `_add` into a store that has no glob schema) is not flagged
            {'kind': 'emitleak', 'mode': 'schemaless', 'at': 1, 'ticks': 3, 'state': 'hello'},
            # a flagged variable at the top of the hierarchy is called `time`: every row is still keyed by the time of
            # its snapshot
            {'kind': 'emitleak', 'mode': 'timevar', 'start': 10, 'ticks': 3, 'flagged': True},
            # two glob declarations on one store flag different variables below the same nested key
            {'kind': 'emitleak', 'mode': 'globs', 'order': 'mass-first', 'late': True, 'ticks': 3, 'depth': 1},
            {'kind': 'emitleak', 'mode': 'globs', 'order': 'volume-first', 'late': False, 'ticks': 2, 'depth': 2}]


def _run_schemaless(case):
    from vivarium.core.engine import Engine
    from vivarium.core.process import Process

    class Noter(Process):
        def __init__(self, parameters=None):
            super().__init__(parameters)
            self.n = 0

        def ports_schema(self):
            return {'s': {'a': {'_default': 1.0, '_emit': True}, 'quiet': {'_default': 2.0, '_emit': False}}}

        def next_update(self, timestep, states):
            self.n += 1
            upd = {'a': 1.0}
            if self.n == case['at']:
                upd['_add'] = [{'key': 'note', 'state': case['state']}]
            return {'s': upd}
    obs = {}
    try:
        eng = Engine(processes={'noter': Noter()}, topology={'noter': {'s': ('s',)}}, display_info=False,
                     progress_bar=False)
        eng.update(case['ticks'])
        obs['rows'] = [[float(t), r] for t, r in sorted(eng.emitter.get_data().items())]
        obs['held'] = sorted((eng.state.get_value().get('s') or {}).keys())
    except Exception as e:  # noqa
        obs['raised'] = f'{type(e).__name__}: {str(e)[:200]}'
    return obs


def _run_timevar(case):
    from vivarium.core.engine import Engine
    from vivarium.core.process import Process

    class Countdown(Process):
        def ports_schema(self):
            return {'top': {'time': {'_default': case['start'], '_emit': case['flagged']},
                            'n': {'_default': 0, '_emit': True}}}

        def next_update(self, timestep, states):
            return {'top': {'time': -1, 'n': 1}}
    obs = {}
    try:
        eng = Engine(processes={'countdown': Countdown()}, topology={'countdown': {'top': ()}}, display_info=False,
                     progress_bar=False)
        eng.update(case['ticks'])
        obs['rows'] = [[float(t), r.get('n')] for t, r in sorted(eng.emitter.get_data().items())]
    except Exception as e:  # noqa
        obs['raised'] = f'{type(e).__name__}: {str(e)[:200]}'
    return obs


def _run_globs(case, key, rows):
    from vivarium.core.engine import Engine
    from vivarium.core.process import Process

    def nest(leafs):
        d = leafs
        for seg in ['boundary', 'shell'][:case['depth']][::-1]:
            d = {seg: d}
        return d

    class Decl(Process):
        defaults = {'leafs': {}, 'add': False}

        def __init__(self, parameters=None):
            super().__init__(parameters)
            self.n = 0

        def ports_schema(self):
            return {'cells': {'*': {'v': nest({n: {'_default': d, '_emit': e}
                                               for n, (d, e) in self.parameters['leafs'].items()})}}}

        def next_update(self, timestep, states):
            self.n += 1
            if self.parameters['add'] and self.n == 1:
                return {'cells': {'_add': [{'key': 'c', 'state': {}}]}}
            return {}
    mass = Decl({'leafs': {'mass': (1, True), 'hidden': (5, False)}, 'add': case['late']})
    volume = Decl({'leafs': {'volume': (2, True)}})
    procs = {'mass': mass, 'volume': volume} if case['order'] == 'mass-first' else {'volume': volume, 'mass': mass}
    eng = Engine(processes=procs, topology={k: {'cells': ('cells',)} for k in procs},
                 initial_state={'cells': {'a': {}, 'b': {}}},
                 emitter={'type': 'verif_el', 'ctx_key': key}, display_info=False, progress_bar=False)
    eng.update(case['ticks'])


def run_impl(case):
    from vivarium.core.engine import Engine
    from vivarium.core.process import Process
    from vivarium.core.emitter import Emitter
    from vivarium.core.registry import emitter_registry
    if case.get('mode') == 'timevar':
        return _run_timevar(case)
    key = f'el-{next(_ids)}'
    rows = []
    CTX[key] = rows
    SHARED = {'v': {'level': {'_default': 0, '_emit': False}, 'raw': {'_default': 0, '_emit': True}}}

    class Cell(Process):
        def ports_schema(self):
            return SHARED                   # one object for every instance, on every call

        def next_update(self, timestep, states):
            return {'v': {'level': 1, 'raw': 2}}

    class Maker(Process):
        def __init__(self, parameters=None):
            super().__init__(parameters)
            self.n = 0

        def ports_schema(self):
            return {'cells': {'*': {}}}

        def next_update(self, timestep, states):
            self.n += 1
            if self.n == 1:
                return {'cells': {'_generate': [{'key': 'c', 'processes': {'cell': Cell()},
                                                 'topology': {'cell': {'v': ('v',)}}, 'initial_state': {}}]}}
            return {}

    class RowEmitter(Emitter):
        def emit(self, data):
            r = CTX.get(self.config.get('ctx_key'))
            if r is not None and data['table'] == 'history':
                cells = data['data'].get('cells') or {}

                def leafs(v):
                    while isinstance(v, dict) and set(v) & {'boundary', 'shell'}:
                        v = v.get('boundary', v.get('shell'))
                    return sorted((v or {}).keys())
                r.append({'t': float(data['data']['time']),
                          'cells': {k: leafs(v.get('v')) for k, v in cells.items()}})
    if emitter_registry.access('verif_el') is None:
        emitter_registry.register('verif_el', RowEmitter)
    obs = {'rows': rows}
    if case.get('mode') == 'schemaless':
        CTX.pop(key, None)
        return _run_schemaless(case)
    if case.get('mode') == 'globs':
        try:
            _run_globs(case, key, rows)
            obs['rows'] = list(rows)
        except Exception as e:  # noqa
            obs['raised'] = f'{type(e).__name__}: {str(e)[:200]}'
            obs['rows'] = []
        finally:
            CTX.pop(key, None)
        return obs
    try:
        flags = {'v': {'level': {'_emit': True}, 'raw': {'_emit': False}}}
        via = case.get('via', '_schema')
        earlier = {'v': {'level': {'_emit': False}, 'raw': {'_emit': True}}}
        over = Cell({'_schema': flags}) if via == '_schema' else (
            Cell({'_schema': earlier}) if via == 'revise_param' else Cell())
        plain = Cell()
        cells = {'a': {'cell': over}, 'b': {'cell': plain}} if case['order'] == 'over-first' else \
            {'b': {'cell': plain}, 'a': {'cell': over}}
        processes = {'cells': cells}
        topology = {'cells': {k: {'cell': {'v': ('v',)}} for k in cells}}
        if case['late']:
            processes['maker'] = Maker()
            topology['maker'] = {'cells': ('cells',)}
        if via == '_schema':
            eng = Engine(processes=processes, topology=topology, emitter={'type': 'verif_el', 'ctx_key': key},
                         display_info=False, progress_bar=False)
        else:
            from vivarium.core.composer import Composite
            comp = Composite({'processes': processes, 'topology': topology})
            if via == 'reuse':
                comp.generate_store()         # a first use of the process objects, before the override exists
            if via == 'revise':
                comp.merge(schema_override={'cells': {'a': {'cell': earlier}}})
            comp.merge(schema_override={'cells': {'a': {'cell': flags}}})
            if via == 'merge2':
                comp.merge(state={'marker': {'m': 1}})        # a later merge that carries no override
            eng = Engine(composite=comp, emitter={'type': 'verif_el', 'ctx_key': key},
                         display_info=False, progress_bar=False)
        eng.update(case['ticks'])
        obs['rows'] = list(rows)
        obs['shared_intact'] = SHARED == {'v': {'level': {'_default': 0, '_emit': False},
                                                'raw': {'_default': 0, '_emit': True}}}
    except Exception as e:  # noqa
        obs['raised'] = f'{type(e).__name__}: {str(e)[:200]}'
        obs['rows'] = []
    finally:
        CTX.pop(key, None)
    return obs


def oracle(case, impl):
    if 'harness_exception' in impl:
        return [f'probe-crashed: {impl["harness_exception"]}']
    if impl.get('timeout'):
        return []
    if impl.get('raised'):
        return [f'engine-raised: {impl["raised"]}']
    if case.get('mode') == 'timevar':
        want = [[float(t), t] for t in range(case['ticks'] + 1)]
        if impl['rows'] != want:
            return [f'row-times: a top-level variable is called `time` (starting at {case["start"]}, '
                    f'{"flagged" if case["flagged"] else "not flagged"}): the rows are keyed {impl["rows"]} (time, n); '
                    f'every row is keyed by the time of its snapshot: {want}']
        return []
    if case.get('mode') == 'schemaless':
        for t, row in impl['rows']:
            want = {'s': {'a': 1.0 + t}}
            if row != want:
                return [f'row: at {t} the row is {row}; the flagged variables hold {want} (a variable created at run '
                        f'time without any schema carries no emit flag; the hierarchy holds {impl["held"]})']
        if len(impl['rows']) != 1 + case['ticks']:
            return [f'row: {len(impl["rows"])} rows for {case["ticks"]} batches']
        return []
    if case.get('mode') == 'globs':
        for r in impl['rows']:
            for k, got in sorted(r['cells'].items()):
                if got != ['mass', 'volume']:
                    return [f'row: at {r["t"]} child {k} of the glob store emits {got}; two glob declarations flagged '
                            f'mass and volume (and not `hidden`) for every child']
        if len(impl['rows']) < 1 + case['ticks']:
            return [f'row: {len(impl["rows"])} rows for {case["ticks"]} batches']
        if sorted(impl['rows'][-1]['cells']) != (['a', 'b', 'c'] if case['late'] else ['a', 'b']):
            return [f'row: the last row lists the children {sorted(impl["rows"][-1]["cells"])}']
        return []
    want = {'a': ['level'], 'b': ['raw'], 'c': ['raw']}
    for r in impl['rows']:
        for k, got in sorted(r['cells'].items()):
            if got != want.get(k, got):
                return [f'row: at {r["t"]} compartment {k} emits {got}; its process flagged exactly {want[k]}']
    if len(impl['rows']) < 1 + case['ticks']:
        return [f'row: {len(impl["rows"])} rows for {case["ticks"]} batches']
    if case['late'] and 'c' not in impl['rows'][-1]['cells']:
        return ['row: the compartment generated at run time is not in the last row']
    return []
