"""Rewiring one variable of a port with `Store.connect` (scenario family of C17).

`p.connect((port, var), target)` records, below the port's own path, the relative path from the port's store to
the target: one `'..'` per segment of the port's path, then `path_to(target)` from the process's parent.
Following the recorded path from the port's store reaches the target, reading `(port, var)` through the process
store gives the target, and no store is created on the way — for port paths of 1–3 segments and processes at
depth 0–2."""
import itertools

_ids = itertools.count()
SEGS = ['stores', 'deep', 'C']


def gen_case(rng):
    return {'kind': 'connectpath', 'port_len': rng.choice([1, 2, 2, 3]), 'depth': rng.choice([0, 1, 2]),
            'target': rng.choice([['other', 'x'], ['x'], ['far', 'away', 'x']])}


def corpus():
    return [{'kind': 'connectpath', 'port_len': 1, 'depth': 0, 'target': ['other', 'x']},
            {'kind': 'connectpath', 'port_len': 2, 'depth': 1, 'target': ['other', 'x']},
            {'kind': 'connectpath', 'port_len': 3, 'depth': 2, 'target': ['far', 'away', 'x']}]


def run_impl(case):
    from vivarium.core.process import Process
    from vivarium.core.store import Store

    class Toy(Process):
        name = 'toy_connectpath'

        def ports_schema(self):
            return {'port': {'var_a': {'_default': 1.0}, 'var_b': {'_default': 2.0}}}

        def next_update(self, timestep, states):
            return {}
    obs = {}
    try:
        port_path = tuple(SEGS[:case['port_len']])
        prefix = tuple(['outer', 'inner'][:case['depth']])
        root = Store({})
        root.generate(prefix, {'p': Toy()}, {}, {}, {'p': {'port': port_path}}, {})
        here = root.get_path(prefix)
        other = here.create(tuple(case['target']), 5.0)
        pstore = here.get_path(('p',))
        port_store = here.get_path(port_path)
        before = set(path for path, _ in root.depth())
        pstore.connect(('port', 'var_a'), other)
        recorded = pstore.topology['port']
        obs['recorded'] = list(recorded['var_a']) if isinstance(recorded, dict) and 'var_a' in recorded else None
        obs['expected'] = ['..'] * len(port_path) + list(here.path_to(other))
        try:
            reached = port_store.get_path(tuple(obs['recorded']))
            obs['reaches_target'] = reached is other
            obs['reached'] = list(reached.path_for())
        except Exception as e:  # noqa
            obs['reaches_target'] = False
            obs['reached'] = f'{type(e).__name__}'
        try:
            obs['through_process'] = pstore.get_path(('port', 'var_a')) is other
        except Exception as e:  # noqa
            obs['through_process'] = False
        after = set(path for path, _ in root.depth())
        # a variable of the port that the rewiring did not name is still reached below the port's own path
        try:
            obs['other_var'] = pstore.get_path(('port', 'var_b')) is port_store.get_path(('var_b',))
        except Exception as e:  # noqa
            obs['other_var'] = f'{type(e).__name__}'
        obs['created'] = sorted(list(p) for p in after - before)
        # the item syntax with a bare key is the path of that one key — whatever the key (the empty string included)
        blank = here.create(('',), 7.0)
        item = {}
        for k, node in (('', blank), (case['target'][0], here.get_path((case['target'][0],)))):
            got = here[k]
            item[repr(k)] = [got is node, list(here.path_to(got))]
        obs['item'] = item
        obs['target_path'] = list(other.path_for())
    except Exception as e:  # noqa
        obs['raised'] = f'{type(e).__name__}: {str(e)[:200]}'
    return obs


def oracle(case, impl):
    if 'harness_exception' in impl:
        return [f'probe-crashed: {impl["harness_exception"]}']
    if impl.get('timeout'):
        return []
    if impl.get('raised'):
        return [f'connect-raised: {impl["raised"]}']
    who = f'port wired to a path of {case["port_len"]} segment(s), process at depth {case["depth"]}'
    if impl['recorded'] != impl['expected'] or not impl['reaches_target']:
        return [f'connect: {who}: connect((port, var_a), target) recorded {impl["recorded"]}; followed from the port\'s '
                f'store it reaches {impl["reached"]}, the target is {impl["target_path"]} (one ".." per segment of the '
                f'port path, then path_to(target): {impl["expected"]})']
    if not impl['through_process']:
        return [f'connect: {who}: reading (port, var_a) through the process store does not give the target']
    if impl.get('other_var') is not True:
        return [f'connect: {who}: after rewiring var_a, (port, var_b) read through the process store is not the '
                f'variable var_b of the port\'s store ({impl.get("other_var")})']
    if impl['created']:
        return [f'connect: {who}: stores {impl["created"]} were created']
    for k, (same, path) in impl.get('item', {}).items():
        if not same:
            return [f'item-syntax: store[{k}] is the node at {path}, get_path(({k},)) is the child with that key']
    return []
