"""Emission through units and custom serializers (shared scenario family of C12; oracle-driven:
"each row contains … the values the hierarchy held at that time … (units and custom serializers
applied)").  Variables: a quantity with a default unit, a quantity with declared `_units` different
from the unit its default is written in, a unit-less variable with a custom `_serializer`, a
quantity with a custom `_serializer`, a flagged and an unflagged integer; optionally a second
process declaring the same variables again (without serializer), listed after the first: the other
order is an incompatible declaration of serializers, which construction rejects (C15)."""
import itertools

_ids = itertools.count()
CTX = {}


def gen_case(rng):
    return {'kind': 'emitser', 'second_declarer': rng.random() < 0.5, 'order': 'last',
            'ticks': rng.choice([1, 2, 3]), 'step': rng.choice([1, 2]), 'init_units': rng.random() < 0.5}


def corpus():
    return [{'kind': 'emitser', 'second_declarer': True, 'order': 'last', 'ticks': 2, 'step': 1},
            {'kind': 'emitser', 'second_declarer': False, 'order': 'first', 'ticks': 1, 'step': 1},
            # the initial state is given in another (compatible) unit than the declared one
            {'kind': 'emitser', 'second_declarer': False, 'order': 'last', 'ticks': 2, 'step': 1, 'init_units': True}]


def run_impl(case):
    from vivarium.core.engine import Engine
    from vivarium.core.process import Process
    from vivarium.core.emitter import Emitter
    from vivarium.core.registry import emitter_registry, Serializer
    from vivarium.library.units import units
    import numpy as np
    key = f'es-{next(_ids)}'
    rows = []
    CTX[key] = rows

    class Milli(Serializer):
        """a custom serializer: thousand-fold magnitude as a plain number"""
        def serialize(self, data):
            mag = getattr(data, 'magnitude', data)
            return ['milli', float(mag) * 1000.0]

    milli = Milli()

    class Main(Process):
        defaults = {'with_serializers': True}

        def ports_schema(self):
            w = self.parameters['with_serializers']
            s = {
                'q': {'_default': 1.5 * units.um, '_emit': True},
                'u': {'_default': 2.0 * units.mm, '_units': units.um, '_emit': True},
                'c': {'_default': 3, '_emit': True},
                'qc': {'_default': 0.5 * units.um, '_emit': True},
                'n': {'_default': 7, '_emit': True},
                'hidden': {'_default': 9, '_emit': False},
                # an array quantity: every element is written with the unit
                'qa': {'_default': np.array([1.0, 2.0]) * units.mM, '_emit': True},
            }
            if w:
                s['c']['_serializer'] = milli
                s['qc']['_serializer'] = milli
            return {'v': s}

        def next_update(self, timestep, states):
            if not self.parameters['with_serializers']:
                return {}
            return {'v': {'q': 0.5 * units.um, 'u': 1.0 * units.um, 'c': 1, 'qc': 0.25 * units.um, 'n': 1,
                          'qa': np.array([1.0, 0.5]) * units.mM}}

    class RowEmitter(Emitter):
        def emit(self, data):
            r = CTX.get(self.config.get('ctx_key'))
            if r is not None and data['table'] == 'history':
                r.append({'t': data['data']['time'], 'v': data['data'].get('v')})
    if emitter_registry.access('verif_rows') is None:
        emitter_registry.register('verif_rows', RowEmitter)
    obs = {'rows': rows}
    try:
        procs = {'main': Main({'time_step': case['step']})}
        if case['second_declarer']:
            second = Main({'with_serializers': False, 'time_step': 1})
            procs = {'second': second, 'main': procs['main']} if case['order'] == 'first' else \
                {'main': procs['main'], 'second': second}
        topology = {name: {'v': ('v',)} for name in procs}
        init = None
        if case.get('init_units'):
            # the same values as the defaults, written in nanometres: rows show them in the declared units
            init = {'v': {'q': 1500.0 * units.nm, 'qc': 500.0 * units.nm}}
        eng = Engine(processes=procs, topology=topology, emitter={'type': 'verif_rows', 'ctx_key': key},
                     initial_state=init, display_info=False, progress_bar=False)
        eng.update(case['ticks'] * case['step'])
        # canonicalise rows for JSON
        obs['rows'] = [{'t': float(r['t']), 'v': {k: (x if not hasattr(x, 'magnitude') else repr(x))
                                                   for k, x in (r['v'] or {}).items()}} for r in rows]
        for r in obs['rows']:
            if isinstance(r['v'].get('qa'), (list, tuple)):
                r['v']['qa'] = [str(x) for x in r['v']['qa']]
    except Exception as e:  # noqa
        obs['raised'] = f'{type(e).__name__}: {str(e)[:200]}'
        obs['rows'] = []
    finally:
        CTX.pop(key, None)
    return obs


def _same_quantity(a, b):
    """'!units[<magnitude> <unit>]' strings with equal units and magnitudes equal up to float noise"""
    import re
    ma, mb = re.fullmatch(r'!units\[(\S+) (.*)\]', a), re.fullmatch(r'!units\[(\S+) (.*)\]', b)
    if not ma or not mb or ma.group(2) != mb.group(2):
        return False
    try:
        return abs(float(ma.group(1)) - float(mb.group(1))) < 1e-9 * max(1.0, abs(float(mb.group(1))))
    except ValueError:
        return False


def oracle(case, impl):
    if 'harness_exception' in impl:
        return [f'probe-crashed: {impl["harness_exception"]}']
    if impl.get('timeout'):
        return []
    if impl.get('raised'):
        return [f'engine-raised: {impl["raised"]}']
    rows = impl['rows']
    step = case['step']
    for i, r in enumerate(rows):
        k = round(r['t'] / step)       # number of updates of `main` applied so far
        if abs(r['t'] - k * step) > 1e-9:
            continue                   # a row of the second declarer's own tick
        want = {
            'q': f'!units[{1.5 + 0.5 * k} micrometer]',
            'u': f'!units[{2000.0 + 1.0 * k} micrometer]',
            'c': ['milli', (3 + k) * 1000.0],
            'qc': ['milli', (0.5 + 0.25 * k) * 1000.0],
            'n': 7 + k,
        }
        qa = got_qa = r['v'].get('qa')
        want_qa = [f'!units[{1.0 + 1.0 * k} millimolar]', f'!units[{2.0 + 0.5 * k} millimolar]']
        if not (isinstance(got_qa, list) and len(got_qa) == 2
                and all(_same_quantity(g, w) for g, w in zip(got_qa, want_qa))):
            return [f'row: at {r["t"]} the array quantity qa is emitted as {qa!r}; element by element with its unit '
                    f'it is {want_qa!r}']
        got = r['v']
        if 'hidden' in got:
            return [f'row: the unflagged variable is in the row at {r["t"]}']
        for name, w in want.items():
            if w is None:
                continue
            g = got.get(name)
            if isinstance(w, list) and isinstance(g, list) and len(g) == 2 and g[0] == w[0] \
                    and abs(g[1] - w[1]) < 1e-6:
                continue
            if isinstance(w, str) and isinstance(g, str) and _same_quantity(g, w):
                continue
            if g != w:
                return [f'row: at {r["t"]} variable {name} is emitted as {g!r}; its value through its units / '
                        f'serializer is {w!r}']
    if len(rows) < 1 + case['ticks']:
        return [f'row: {len(rows)} rows for {case["ticks"]} batches']
    return []
