"""Daughters that start from one shared dictionary value and then go their own ways (scenario family
of C11).

A two-level dictionary variable with the `merge` updater and the default (`set`) divider: both
daughters start from the mother's value.  Afterwards only one of them sends `merge` updates into a
nested entry.  The other daughter — and the values emitted for the mother before the division —
must not change: nothing done to one daughter afterwards changes the other."""
import copy
import itertools

_ids = itertools.count()


def gen_case(rng):
    return {'kind': 'mergediv', 'divide_at': rng.choice([1, 2]), 'ticks': rng.choice([4, 5]),
            'gain': rng.choice([1, 3, 10]), 'second_generation': rng.random() < 0.5,
            'explicit': rng.random() < 0.5}


def corpus():
    return [{'kind': 'mergediv', 'divide_at': 1, 'ticks': 4, 'gain': 3, 'second_generation': True},
            # F45: an explicit initial state for the working daughter only
            {'kind': 'mergediv', 'divide_at': 1, 'ticks': 3, 'gain': 1, 'second_generation': False, 'explicit': True}]


def run_impl(case):
    from vivarium.core.engine import Engine
    from vivarium.core.process import Process
    INV = {'glucose': {'n': 1, 'owner': 'm'}, 'atp': {'n': 5, 'owner': 'm'}}

    class Work(Process):
        defaults = {'active': False, 'gain': 1, 'me': ''}

        def ports_schema(self):
            return {'vars': {'inventory': {'_default': copy.deepcopy(INV), '_updater': 'merge', '_emit': True}}}

        def next_update(self, timestep, states):
            if not self.parameters['active']:
                return {}
            n = states['vars']['inventory']['glucose']['n']
            return {'vars': {'inventory': {'glucose': {'n': n + self.parameters['gain'],
                                                       'owner': self.parameters['me']}}}}

    class Trigger(Process):
        def __init__(self, parameters=None):
            super().__init__(parameters)
            self.n = 0

        def ports_schema(self):
            return {'agents': {'*': {'vars': {'mark': {'_default': 0}}}}}

        def _split(self, mother):
            ds = []
            for i, k in enumerate((mother + '0', mother + '1')):
                ds.append({'key': k, 'processes': {'work': Work({'active': i == 0, 'gain': case['gain'], 'me': k})},
                           'topology': {'work': {'vars': ('vars',)}}})
                if case.get('explicit') and i == 0:
                    # only this daughter is given a starting value of her own
                    ds[-1]['initial_state'] = {'vars': {'inventory': {'atp': {'n': 77}}}}
            return {'agents': {'_divide': {'mother': mother, 'daughters': ds}}}

        def next_update(self, timestep, states):
            self.n += 1
            if self.n == case['divide_at'] and 'm' in states['agents']:
                return self._split('m')
            if case['second_generation'] and self.n == case['divide_at'] + 2 and 'm1' in states['agents']:
                return self._split('m1')
            return {}

    obs = {}
    try:
        eng = Engine(processes={'agents': {'m': {'work': Work({'active': False, 'me': 'm'})}}, 'trigger': Trigger()},
                     topology={'agents': {'m': {'work': {'vars': ('vars',)}}}, 'trigger': {'agents': ('agents',)}},
                     emitter={'type': 'null'}, display_info=False, progress_bar=False)
        rows = []
        for _ in range(case['ticks']):
            eng.update(1)
            agents = eng.state.get_value().get('agents') or {}
            rows.append({k: copy.deepcopy(v['vars']['inventory']) for k, v in agents.items()})
        obs['rows'] = rows
    except Exception as e:  # noqa
        obs['raised'] = f'{type(e).__name__}: {str(e)[:200]}'
    return obs


def oracle(case, impl):
    if 'harness_exception' in impl:
        return [f'probe-crashed: {impl["harness_exception"]}']
    if impl.get('timeout'):
        return []
    if impl.get('raised'):
        return [f'engine-raised: {impl["raised"]}']
    base = {'glucose': {'n': 1, 'owner': 'm'}, 'atp': {'n': 5, 'owner': 'm'}}
    for t, row in enumerate(impl['rows'], start=1):
        for k, inv in sorted(row.items()):
            active = k.endswith('0')
            if not active and k != 'm':
                # an idle daughter keeps what she inherited; her own ancestors that worked were '…0' cells, and
                # she descends from idle ones only
                lineage_idle = all(ch == '1' for ch in k[1:])
                if lineage_idle and inv != base:
                    return [f'daughter-dependence: at t={t} the idle daughter {k} holds {inv}; she inherited {base} '
                            f'and nothing was sent to her (her sister works on her own copy)']
            if k == 'm' and inv != base:
                return [f'outside-changed: at t={t} the mother holds {inv} before any division']
    return []
