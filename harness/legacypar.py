"""Legacy derivers among the processes, serial or parallel (scenario family of C05, also C13).

A legacy deriver is a `Process` subclass that declares itself a step by overriding `is_step()` (or the older
`is_deriver()`); it is listed in the `processes` dictionary.  Whether or not it is marked `_parallel`, it runs in
every step phase — at construction and after every batch of process updates — with timestep 0, after the
batch's updates were applied: `d = 2 x` holds in every emitted row, `e = d + 1` (a second deriver declared after
the first reads what the first wrote)."""
import itertools

from vivarium.core.process import Process, Step

_ids = itertools.count()


class Grow(Process):
    def ports_schema(self):
        return {'vars': {'x': {'_default': 1, '_emit': True}}}

    def next_update(self, timestep, states):
        return {'vars': {'x': 1}}


class Doubler(Process):
    """legacy deriver via is_step()"""
    def is_step(self):
        return True

    def ports_schema(self):
        return {'vars': {'x': {'_default': 1}, 'd': {'_default': 0, '_updater': 'set', '_emit': True},
                         'ts_seen': {'_default': -1, '_updater': 'set', '_emit': True}}}

    def next_update(self, timestep, states):
        return {'vars': {'d': 2 * states['vars']['x'], 'ts_seen': timestep}}


class PlusOne(Process):
    """legacy deriver via the deprecated is_deriver()"""
    def is_deriver(self):
        return True

    def ports_schema(self):
        return {'vars': {'d': {'_default': 0}, 'e': {'_default': 0, '_updater': 'set', '_emit': True}}}

    def next_update(self, timestep, states):
        return {'vars': {'e': states['vars']['d'] + 1}}


class PlusOneStep(Step):
    """the same as a Step listed in the `steps` dictionary without a flow entry (it runs as a legacy deriver, after
    the derivers given among the processes: processes are registered first)"""
    def ports_schema(self):
        return {'vars': {'d': {'_default': 0}, 'e': {'_default': 0, '_updater': 'set', '_emit': True}}}

    def next_update(self, timestep, states):
        return {'vars': {'e': states['vars']['d'] + 1}}


def gen_case(rng):
    return {'kind': 'legacypar', 'parallel': rng.choice([[], ['doubler'], ['plusone'], ['doubler', 'plusone']]),
            'ticks': rng.choice([2, 3, 4]), 'grow_first': rng.random() < 0.5, 'split': rng.random() < 0.3}


def corpus():
    return [{'kind': 'legacypar', 'parallel': [], 'ticks': 3, 'grow_first': True},
            {'kind': 'legacypar', 'parallel': ['doubler'], 'ticks': 3, 'grow_first': True},
            {'kind': 'legacypar', 'parallel': ['doubler', 'plusone'], 'ticks': 2, 'grow_first': False},
            # the second deriver is a Step in the `steps` dictionary (no flow entry), the first one among the processes
            {'kind': 'legacypar', 'parallel': [], 'ticks': 3, 'grow_first': True, 'split': True}]


def run_impl(case):
    import warnings
    warnings.simplefilter('ignore')
    from vivarium.core.engine import Engine
    obs = {}
    eng = None
    try:
        par = lambda n: {'_parallel': True} if n in case['parallel'] else {}   # noqa: E731
        procs = {'grow': Grow()} if case['grow_first'] else {}
        procs['doubler'] = Doubler(par('doubler'))
        steps = {}
        if case.get('split'):
            steps['plusone'] = PlusOneStep(par('plusone'))
        else:
            procs['plusone'] = PlusOne(par('plusone'))
        if not case['grow_first']:
            procs['grow'] = Grow()
        eng = Engine(processes=procs, steps=steps, topology={n: {'vars': ('vars',)} for n in list(procs) + list(steps)},
                     display_info=False, progress_bar=False)
        eng.update(case['ticks'])
        obs['rows'] = [[float(t), dict(r.get('vars') or {})] for t, r in sorted(eng.emitter.get_data().items())]
        obs['process_paths'] = sorted(list(p) for p in eng.process_paths)
    except Exception as e:  # noqa
        obs['raised'] = f'{type(e).__name__}: {str(e)[:200]}'
    finally:
        if eng is not None:
            try:
                eng.end()
            except Exception:  # noqa
                pass
    return obs


def oracle(case, impl):
    if 'harness_exception' in impl:
        return [f'probe-crashed: {impl["harness_exception"]}']
    if impl.get('timeout'):
        return []
    if impl.get('raised'):
        return [f'engine-raised: {impl["raised"]}']
    who = f'(parallel: {case["parallel"] or "none"})'
    if impl['process_paths'] != [['grow']]:
        return [f'deriver-as-process: the engine schedules {impl["process_paths"]} as processes {who}; the legacy '
                f'derivers are steps']
    if len(impl['rows']) != 1 + case['ticks']:
        return [f'rows: {len(impl["rows"])} rows for {case["ticks"]} batches']
    for t, v in impl['rows']:
        if v.get('x') != 1 + int(t) or v.get('d') != 2 * v.get('x') or v.get('e') != v.get('d') + 1 \
                or v.get('ts_seen') != 0:
            return [f'phase: at t={t} the row holds {v} {who}: after every batch (and at construction) the derivers '
                    f'run once, in declaration order, with timestep 0, on the state after the batch (d = 2 x, e = d + 1)']
    return []
