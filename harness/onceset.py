"""One update that names its own updater, among ordinary ones (scenario family of C01 and C08).

A variable with the default (`accumulate`) updater receives an increment every tick; once, another
process overrides the updater for a single update (`{'_value': V, '_updater': 'set'}`, the form
timeline events use).  The override holds for that update only: before it and after it the declared
updater combines the increments (C08), so the variable is its value after the override plus the sum
of the updates applied since (C01).  A falsy override value (0) is a value, not "absent"."""
import itertools

_ids = itertools.count()


def gen_case(rng):
    if rng.random() < 0.15:
        return {'kind': 'onceset', 'altkey': rng.choice(['main', 'alt1', 'alt2']), 'ups': [rng.randrange(1, 9) for _ in range(4)]}
    return {'kind': 'onceset', 'k': rng.choice([1, 2, 10]), 'at': rng.choice([1, 2, 3]),
            'value': rng.choice([0, 500, -7]), 'how': rng.choice(['set', 'set', 'accumulate', 'null']),
            'ticks': rng.choice([4, 5, 6]), 'init': rng.choice([0, 3]), 'default': rng.choice([0, 9]),
            'reduce': rng.random() < 0.3}


def corpus():
    return [{'kind': 'onceset', 'k': 10, 'at': 2, 'value': 500, 'how': 'set', 'ticks': 5, 'init': 0, 'default': 0},
            {'kind': 'onceset', 'k': 2, 'at': 1, 'value': 0, 'how': 'set', 'ticks': 4, 'init': 3, 'default': 9},
            # an updater registered under a main key and alternate keys is the same updater under every one of them
            {'kind': 'onceset', 'altkey': 'alt1', 'ups': [7, 3, 9, 2]},
            # the overriding update is a `_reduce` over another subtree that names `set` for its result
            {'kind': 'onceset', 'k': 10, 'at': 2, 'value': 500, 'how': 'set', 'ticks': 5, 'init': 0, 'default': 0,
             'reduce': True}]


def _sum_leaves(value, path, node):
    return value + node.value if node.leaf and isinstance(node.value, (int, float)) else value


def reference(case):
    level = case['init']
    out = []
    for t in range(1, case['ticks'] + 1):
        level += case['k']
        if t == case['at']:
            if case['how'] == 'set':
                level = case['value']
            elif case['how'] == 'accumulate':
                level += case['value']
        out.append(level)
    return out


def _vmax(current, update):
    return max(current, update)


def _run_altkey(case):
    from vivarium.core.engine import Engine
    from vivarium.core.process import Process
    from vivarium.core.registry import updater_registry
    if updater_registry.access('verif_vmax') is None:
        updater_registry.register('verif_vmax', _vmax, alternate_keys=['verif_vmax_a', 'verif_vmax_b'])
    name = {'main': 'verif_vmax', 'alt1': 'verif_vmax_a', 'alt2': 'verif_vmax_b'}[case['altkey']]
    ups = case['ups']

    class High(Process):
        def __init__(self, parameters=None):
            super().__init__(parameters)
            self.n = 0

        def ports_schema(self):
            return {'s': {'high': {'_default': 0, '_updater': name, '_emit': True}}}

        def next_update(self, timestep, states):
            self.n += 1
            return {'s': {'high': ups[(self.n - 1) % len(ups)]}}
    obs = {}
    try:
        eng = Engine(processes={'h': High()}, topology={'h': {'s': ('s',)}}, emitter={'type': 'null'},
                     display_info=False, progress_bar=False)
        vals = []
        for _ in range(len(ups)):
            eng.update(1)
            vals.append(eng.state.get_value()['s']['high'])
        obs['values'] = vals
    except Exception as e:  # noqa
        obs['raised'] = f'{type(e).__name__}: {str(e)[:200]}'
    return obs


def run_impl(case):
    if case.get('altkey'):
        return _run_altkey(case)
    from vivarium.core.engine import Engine
    from vivarium.core.process import Process

    class Inflow(Process):
        def ports_schema(self):
            return {'tank': {'level': {'_default': case['default'], '_emit': True}}}

        def next_update(self, timestep, states):
            return {'tank': {'level': case['k']}}

    class Once(Process):
        def __init__(self, parameters=None):
            super().__init__(parameters)
            self.n = 0

        def ports_schema(self):
            return {'tank': {'level': {'_default': case['default']}},
                    'parts': {'a': {'_default': 0}, 'b': {'c': {'_default': 0}}}}

        def next_update(self, timestep, states):
            self.n += 1
            if self.n == case['at']:
                if case.get('reduce'):
                    # the value is the result of a reduction over the subtree `parts` (its leaves sum to it)
                    return {'tank': {'level': {'_reduce': {'reducer': _sum_leaves, 'from': ('..', '..', 'parts'),
                                                           'initial': 0}, '_updater': case['how']}}}
                return {'tank': {'level': {'_value': case['value'], '_updater': case['how']}}}
            return {}

    obs = {}
    try:
        eng = Engine(processes={'inflow': Inflow(), 'once': Once()},
                     topology={'inflow': {'tank': ('tank',)}, 'once': {'tank': ('tank',), 'parts': ('parts',)}},
                     initial_state={'tank': {'level': case['init']},
                                    'parts': {'a': case['value'] - 3, 'b': {'c': 3}}}, emitter={'type': 'null'},
                     display_info=False, progress_bar=False)
        vals = []
        for _ in range(case['ticks']):
            eng.update(1)
            vals.append(eng.state.get_value()['tank']['level'])
        obs['values'] = vals
    except Exception as e:  # noqa
        obs['raised'] = f'{type(e).__name__}: {str(e)[:200]}'
    return obs


def oracle(case, impl):
    if 'harness_exception' in impl:
        return [f'probe-crashed: {impl["harness_exception"]}']
    if impl.get('timeout'):
        return []
    if impl.get('raised'):
        return [f'engine-raised: {impl["raised"]}']
    if case.get('altkey'):
        want, m = [], 0
        for u in case['ups']:
            m = max(m, u)
            want.append(m)
        if impl['values'] != want:
            return [f'registered-name: an updater (max) registered with alternate keys and declared through its '
                    f'{case["altkey"]} key: updates {case["ups"]} leave {impl["values"]}, the updater gives {want}']
        return []
    want = reference(case)
    if impl['values'] != want:
        return [f'override-once: +{case["k"]} per tick, at tick {case["at"]} one update {{_value: {case["value"]}, '
                f'_updater: {case["how"]!r}}}; the variable goes {impl["values"]}, its declared updater gives {want}']
    return []
