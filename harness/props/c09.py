"""C09 — structural updates change the hierarchy exactly as specified and nothing else.

Correspondence: random hierarchies (nested compartments, glob ports, steps with flow) and
histories of structural updates applied through the REAL `Store.apply_update` — directly and
issued by real probe processes / steps inside an `Engine` — vs `VivModel/StoreOps.lean`
(full tree dump, report tuple after every update).
Oracle: the property's clauses evaluated on the implementation alone: per operation effect
(`_add`, `_delete`, `_move`, `_generate`, `_divide`), rejection of existing keys, and the frame —
every `Store` node outside the paths the update names keeps its `id()` and its value."""
import copy
import json

from harness.val import exc_name

PROP = 'C09'
LEAN_TARGETS = ['VivProps.C09']
DRIVER = 'Struct'
REQUIRED_THEOREMS = [
    'generate_reports_flow_at_any_depth', 
    'frame', 'frame_history', 'history_log', 'history_invariant',
    'add_rejects_existing', 'add_creates', 'add_plain_exact', 'add_list_repeated_key_rejected',
    'add_list_later_existing_rejected', 'move_exact_two', 'divide_flow_rule', 'split_dict_shares_partition',
    'delete_partial', 'delete_frame', 'delete_keys', 'delete_by_path_witness',
    'delete_tuple_key_deletes_nothing', 'divide_removes_mother', 'move_exact',
    'order_table', 'order_sequential', 'order_add_then_delete',
]
ANCHORS = [
    ('vivarium/core/store.py', [
        'Store.apply_update', 'Store.add', 'Store.delete', 'Store._delete_path', 'Store.move',
        'Store.add_node', 'Store.insert', 'Store.generate', 'Store.divide', 'Store._generate_paths',
        'Store._topology_ports', 'Store._establish_path', 'Store._apply_config',
        'Store._apply_subschema', 'Store._apply_subschemas', 'Store._apply_subschema_path',
        'Store.set_value', 'Store.apply_defaults', 'Store.get_value', 'Store.divide_value',
        'Store.get_processes', 'Store.get_topology', 'Store.get_flow', 'Store.depth',
        'Store.get_path', 'Store._get_divider']),
    ('vivarium/library/dict_utils.py', ['deep_merge', 'deep_merge_check']),
    ('vivarium/library/topology.py', ['dict_to_paths']),
    ('vivarium/core/engine.py', ['Engine.apply_update']),
]
BUDGET = {'quick': 900, 'thorough': 8000}
DRIFT_FACTOR = 2
CASE_TIMEOUT = 30.0
RULE = ('a case is an initial composite (nested compartments ≤ depth 4, 1–6 probe processes/steps with '
        '1–3 ports each: variable ports, glob ports `*`, nested ports, ports reaching up with `..`, '
        'steps with flow) plus a history of 1–12 updates of ≤ 3 operations each (_add/_delete/_move/'
        '_generate/_divide/value updates, nested under the paths of existing branches; keys chosen '
        'from the current shape — tracked by a shadow Store inside the generator — so that most '
        'operations are valid, with deliberate collisions, missing keys, tuple-path deletes (F7) '
        'and a malformed stream). kind=direct applies `store.apply_update(update, state)`; '
        'kind=engine lets a scripted probe Process or Step emit the update through a port of a '
        'real Engine at times k·dt. Non-trivial: ≥ 1 structural operation succeeded and changed '
        'the tree. Distinct by canonical JSON.')
TRUSTED = ['CPython dict ordering, `copy.deepcopy` of probe processes (modelled, not verified)',
           'Engine plumbing between a probe\'s `next_update` and `Store.apply_update` '
           '(`inverse_topology` of a single port; property C06/C10 cover it)']
ASSUMPTIONS = [
    'topologies map ports to tuple paths (no `_path` dictionaries); paths do not lead through '
    'process nodes',
    'port schemas use _default/_updater/_divider/`*` only; updaters accumulate/set/null on '
    'integers; dividers set/zero/null/no_divide (the random ones are C11\'s)',
    'a moved subtree that collides with an existing key at the target holds no process',
    'no `initial_state` for the daughters of a `_divide` whose mother holds a dict-valued variable '
    '(F12, recorded for C11: both daughters share that object and one daughter\'s initial_state '
    'leaks into the other; the model has no sharing)',
    'histories end at the first update that raises (Python leaves a partially applied update '
    'behind; the model returns no tree for it)',
]

FUEL = 64


# ------------------------------------------------------------------ encoding

def _probe_classes():
    from vivarium.core.process import Process, Step
    global _PROBES
    try:
        return _PROBES
    except NameError:
        pass

    class ProbeProcess(Process):
        _ports = {}
        _script = None
        _calls = 0

        def ports_schema(self):
            return copy.deepcopy(self._ports)

        def next_update(self, timestep, states):
            i = self._calls
            self._calls += 1
            if self._script is not None and i < len(self._script):
                return self._script[i]
            return {}

    class ProbeStep(Step):
        _ports = {}
        _script = None
        _calls = 0

        def ports_schema(self):
            return copy.deepcopy(self._ports)

        def next_update(self, timestep, states):
            i = self._calls
            self._calls += 1
            if self._script is not None and i < len(self._script):
                return self._script[i]
            return {}

    _PROBES = (ProbeProcess, ProbeStep)
    return _PROBES


def make_proc(name, is_step, schema, timestep=1):
    P, S = _probe_classes()
    p = (S if is_step else P)({'name': name, 'timestep': timestep})
    p._ports = schema
    return p


def is_marker(j):
    return isinstance(j, dict) and 'd' in j and any(kv[0] == '__proc__' for kv in j['d'])


def dec_x(j, procs=None):
    """JSON value -> Python value with tuples for lists and real probe processes for markers.
    `procs` memoises processes by name so that one marker is one object."""
    if j is None or isinstance(j, (bool, int, str)):
        return j
    if isinstance(j, dict):
        if 'l' in j:
            return tuple(dec_x(x, procs) for x in j['l'])
        if 'L' in j:
            return [dec_x(x, procs) for x in j['L']]
        if 'd' in j:
            if is_marker(j):
                d = {k: v for k, v in j['d']}
                name = d['__proc__']
                if procs is not None and name in procs:
                    return procs[name]
                p = make_proc(name, bool(d.get('is_step')), dec_x(d.get('schema', {'d': []})),
                              d.get('timestep', 1))
                if procs is not None:
                    procs[name] = p
                return p
            return {k: dec_x(v, procs) for k, v in j['d']}
    raise ValueError(f'cannot decode {j!r}')


def enc_x(v, with_schema=False):
    """Python value -> JSON value of the Lean driver (tuples and lists are both `l`)."""
    from vivarium.core.process import Process
    if v is None or isinstance(v, (bool, str)):
        return v
    if isinstance(v, int):
        return v
    if isinstance(v, float):
        return int(v) if v == int(v) else {'opaque': repr(v)}
    if isinstance(v, Process):
        d = [['__proc__', getattr(v, 'name', '?')], ['is_step', bool(v.is_step())]]
        if with_schema:
            d.append(['schema', enc_x(getattr(v, '_ports', {}))])
        return {'d': d}
    if isinstance(v, (list, tuple)):
        return {'l': [enc_x(x, with_schema) for x in v]}
    if isinstance(v, dict):
        return {'d': [[k if isinstance(k, str) else repr(k), enc_x(x, with_schema)]
                      for k, x in v.items()]}
    return {'opaque': type(v).__name__}


def to_model(j):
    """case JSON -> driver JSON: Python lists (`L`) become `l`, timesteps are dropped."""
    if isinstance(j, dict):
        if 'L' in j:
            return {'l': [to_model(x) for x in j['L']]}
        if 'l' in j:
            return {'l': [to_model(x) for x in j['l']]}
        if 'd' in j:
            return {'d': [[k, to_model(v)] for k, v in j['d'] if not (k == 'timestep' and is_marker(j))]}
    return j


def _fname(reg, f):
    if f is None or isinstance(f, str):
        return f
    for k, v in reg.registry.items():
        if v is f:
            return k
    return {'opaque': 'function'}


class Cyclic(Exception):
    pass


def dump(s, depth=0):
    from vivarium.core.registry import updater_registry, divider_registry
    if depth > 60:
        raise Cyclic('hierarchy deeper than 60: cyclic')
    return {'v': enc_x(s.value), 'def': enc_x(s.default), 'upd': _fname(updater_registry, s.updater),
            'div': _fname(divider_registry, s.divider), 'sub': enc_x(s.subschema),
            'topo': enc_x(s.topology), 'flow': enc_x(s.flow),
            'inner': [[k, dump(c, depth + 1)] for k, c in s.inner.items()]}


def strip_leaf(t):
    if isinstance(t, dict) and 'inner' in t:
        return {k: ([[kk, strip_leaf(c)] for kk, c in v] if k == 'inner' else v)
                for k, v in t.items() if k != 'leaf'}
    return t


def idmap(s, path=()):
    out = {path: s}
    for k, c in s.inner.items():
        out.update(idmap(c, path + (k,)))
    return out


def snapshot(root):
    """path -> (id, attrs-dump, subtree-dump) of every node (one bottom-up pass)"""
    from vivarium.core.registry import updater_registry, divider_registry
    snap = {}

    def rec(s, path, depth):
        if depth > 60:
            raise Cyclic('hierarchy deeper than 60: cyclic')
        attrs = {'v': enc_x(s.value), 'def': enc_x(s.default), 'upd': _fname(updater_registry, s.updater),
                 'div': _fname(divider_registry, s.divider), 'sub': enc_x(s.subschema),
                 'topo': enc_x(s.topology), 'flow': enc_x(s.flow)}
        d = dict(attrs)
        d['inner'] = [[k, rec(c, path + (k,), depth + 1)] for k, c in s.inner.items()]
        snap[path] = (id(s), attrs, d)
        return d
    rec(root, (), 0)
    return snap


def enc_report(r):
    if r is None or all(x is None for x in r):
        return None
    topo, procs, steps, flow, dels, ve = r
    pl = lambda l: [[enc_x(tuple(p)), enc_x(v)] for p, v in (l or [])]
    return {'topology': pl(topo), 'processes': pl(procs), 'steps': pl(steps), 'flow': pl(flow),
            'deletions': [enc_x(tuple(d)) for d in (dels or [])], 'view_expire': bool(ve)}


# ------------------------------------------------------------------ the oracle (implementation only)

def norm(path):
    out = []
    for s in path:
        if s == '..':
            if out:
                out.pop()
            else:
                return None
        else:
            out.append(s)
    return tuple(out)


def is_prefix(p, q):
    return len(p) <= len(q) and tuple(q[:len(p)]) == tuple(p)


def proc_port_targets(base, processes, topology):
    """absolute paths named by the ports of the processes of a `_generate`-like directive"""
    from vivarium.core.process import Process
    out = []
    if not isinstance(processes, dict):
        return out
    for k, sub in processes.items():
        tp = topology.get(k) if isinstance(topology, dict) else None
        if isinstance(sub, Process):
            out.append(base + (k,))
            wired = dict(tp) if isinstance(tp, dict) else {}
            try:
                for port in sub.ports_schema():
                    wired.setdefault(port, (port,))     # a port without topology entry: (port,)
            except Exception:
                pass
            for port, path in wired.items():
                if isinstance(path, tuple):
                    n = norm(base + path)
                    if n is not None:
                        out.append(n)
        elif isinstance(sub, dict):
            out.extend(proc_port_targets(base + (k,), sub, tp))
    return out


class Notes(list):
    """per-operation expectations; `own[i]` are the paths operation i itself names"""
    def __init__(self):
        super().__init__()
        self.own = []

    def add(self, note, own):
        self.append(note)
        self.own.append(list(own))


def _seq(x):
    return list(x) if isinstance(x, (list, tuple)) else []


def named_paths(root, here, upd, ps_path, notes):
    """The absolute paths an update names (spec level): everything outside them must be untouched.
    Also collects per-operation expectations into `notes`."""
    out = []
    if not isinstance(upd, dict):
        out.append(tuple(here))
        return out
    if '_multi_update' in upd and isinstance(upd['_multi_update'], list):
        for u in upd['_multi_update']:
            out.extend(named_paths(root, here, u, ps_path, notes))
        return out
    try:
        node = root.get_path(tuple(here))
    except Exception:
        return out
    if not (node.inner or node.subschema):
        out.append(tuple(here))
        return out
    here = tuple(here)
    for e in _seq(upd.get('_add')):
        if isinstance(e, dict) and isinstance(e.get('key'), str):
            out.append(here + (e['key'],))
            notes.add(('add', here, e['key'], e.get('state'), e['key'] in node.inner,
                       bool(node.subschema)), [here + (e['key'],)])
    for k in _seq(upd.get('_delete')):
        if isinstance(k, str):
            out.append(here + (k,))
            notes.add(('delete', here, k), [here + (k,)])
        elif isinstance(k, tuple) and k and all(isinstance(x, str) for x in k):
            notes.add(('delete-path', here, k), [])
    for m in _seq(upd.get('_move')):
        if not isinstance(m, dict):
            continue
        src = m.get('source')
        src = (src,) if isinstance(src, str) else src
        tgt = m.get('target')
        port, ext = (tgt, ()) if isinstance(tgt, str) else \
            ((tgt[0], tuple(tgt[1:])) if isinstance(tgt, tuple) and tgt else (None, ()))
        if not isinstance(src, tuple) or ps_path is None:
            continue
        out.append(here + src)
        try:
            pstore = root.get_path(tuple(ps_path))
            tpath = norm(tuple(ps_path[:-1]) + tuple(pstore.topology[port]) + ext)
        except Exception:
            tpath = None
        if tpath is not None:
            out.append(tpath + src)
            own = [here + src, tpath + src]
            if 'update' in m:
                own.extend(named_paths(root, here + src, m['update'], ps_path, Notes()))
                out.extend(own[2:])
            notes.add(('move', here + src, tpath + src, 'update' in m), own)
    for g in _seq(upd.get('_generate')):
        if not isinstance(g, dict):
            continue
        key = g.get('key')
        base = here + ((key,) if key else ())
        out.append(base)       # without a key the whole branch is (re)generated: sub-schemas and
        #                        defaults are applied to everything below it
        own = [base] + proc_port_targets(base, g.get('processes'), g.get('topology')) \
            + proc_port_targets(base, g.get('steps'), g.get('topology'))
        out.extend(own[1:])
        notes.add(('generate', base, g), own)
    dv = upd.get('_divide')
    if isinstance(dv, dict) and isinstance(dv.get('mother'), str):
        mother = here + (dv['mother'],)
        out.append(mother)
        n0 = len(out) - 1
        keys = []
        try:
            mnode = root.get_path(mother)
            mprocs, mtopo = mnode.get_processes() or {}, mnode.get_topology() or {}
            msteps = mnode.get_steps() or {}
            if isinstance(mprocs, dict) and isinstance(msteps, dict):
                # a daughter that names no processes inherits the mother's processes and steps
                mprocs = dict(mprocs, **msteps)
        except Exception:
            mprocs, mtopo = {}, {}
        for d in _seq(dv.get('daughters'))[:2]:
            if isinstance(d, dict) and isinstance(d.get('key'), str):
                base = here + (d['key'],)
                keys.append(d['key'])
                out.append(base)
                procs = d.get('processes') if ('processes' in d or 'steps' in d) else mprocs
                topo = d.get('topology', mtopo)
                out.extend(proc_port_targets(base, procs, topo))
                out.extend(proc_port_targets(base, d.get('steps'), topo))
        notes.add(('divide', here, dv['mother'], keys), out[n0:])
    for k, v in upd.items():
        if k in ('_add', '_delete', '_move', '_generate', '_divide'):
            continue
        if k in node.inner:
            out.extend(named_paths(root, here + (k,), v, ps_path, notes))
    return out


def live_notes(notes, named):
    """Operations that can be judged on their own: their place is not removed by another part of the
    same update (move/division/deletion of an ancestor) and no other part of the update names a
    path overlapping theirs (e.g. a port of a generated process re-creating a moved store)."""
    removers = []
    for i, m in enumerate(notes):
        if m[0] == 'move':
            removers.append((i, m[1]))
        elif m[0] == 'divide':
            removers.append((i, m[1] + (m[2],)))
        elif m[0] == 'delete':
            removers.append((i, m[1] + (m[2],)))
    out = []
    for i, n in enumerate(notes):
        if n[0] in ('add', 'delete', 'divide', 'delete-path'):
            places = [n[1]]
        elif n[0] == 'move':
            places = [n[1][:-1], n[2][:-1]]
        else:
            places = [n[1]]
        if any(j != i and is_prefix(r, p) for j, r in removers for p in places):
            continue
        others = list(named)
        for p in notes.own[i]:
            if p in others:
                others.remove(p)
        if n[0] in ('add', 'delete'):
            keyp = [n[1] + (n[2],)]
        elif n[0] == 'move':
            keyp = [n[1], n[2]]
        elif n[0] == 'generate':
            keyp = [n[1]]
        elif n[0] == 'divide':
            keyp = [n[1] + (n[2],)] + [n[1] + (k,) for k in n[3]]
        else:
            keyp = []
        if n[0] != 'add' or not any(m[0] == 'delete' and m[1] == n[1] and m[2] == n[2] for m in notes):
            if any(is_prefix(p, o) or is_prefix(o, p) for p in others for o in keyp):
                continue
        out.append(n)
    return out


def check_step(before, root, here, upd, ps_path, named, notes, err, fails):
    """before: snapshot taken before the update; root: the live tree after it."""
    after = snapshot(root)
    tag = 'after-error ' if err else ''
    # ---- frame: nodes outside the named paths keep identity and value
    for q, (ident, attrs, sub) in before.items():
        if any(is_prefix(p, q) for p in named):
            continue            # at or below a named path
        if q not in after:
            fails.append(f'{tag}frame: node {q} outside the named paths {sorted(set(named))[:4]} disappeared')
            return
        if after[q][0] != ident:
            fails.append(f'{tag}frame: node {q} outside the named paths was replaced by another object')
            return
        if after[q][1] != attrs:
            fails.append(f'{tag}frame: attributes of node {q} outside the named paths changed: '
                         f'{attrs} -> {after[q][1]}')
            return
        if not any(is_prefix(q, p) for p in named) and after[q][2] != sub:
            fails.append(f'{tag}frame: subtree {q} apart from the named paths changed')
            return
    for q in after:
        if q not in before and not any(is_prefix(p, q) for p in named):
            # new nodes may only appear on the way to a named path
            if not any(is_prefix(q, p) for p in named):
                fails.append(f'{tag}frame: node {q} appeared outside the named paths')
                return
    if err:
        return
    # ---- per-operation effects (an operation whose place is removed by an earlier part of the
    # same update — a move, a division — is not carried out on that place: skipped here)
    for n in live_notes(notes, named):
        if n[0] == 'add':
            _, b, key, state, existed, has_sub = n
            if existed:
                fails.append(f'add: key {key!r} already present at {b} but the update was accepted')
                continue
            deleted_again = any(m[0] == 'delete' and m[1] == b and m[2] == key for m in notes)
            if deleted_again:
                continue
            if b + (key,) not in after:
                fails.append(f'add: child {key!r} missing at {b} after _add')
                continue
            child = root.get_path(b + (key,))
            if not has_sub:
                if child.get_value() != state and not (child.inner or child.subschema):
                    fails.append(f'add: child {key!r} at {b} holds {child.get_value()!r}, not the given state {state!r}')
            elif isinstance(state, dict):
                val = child.get_value()
                for k, v in state.items():
                    if isinstance(val, dict) and k in val and not isinstance(v, dict) and val[k] != v:
                        fails.append(f'add: variable {k!r} of new child {key!r} is {val[k]!r}, given {v!r}')
        elif n[0] == 'delete':
            _, b, key = n
            if b + (key,) in after:
                fails.append(f'delete: child {key!r} still present at {b}')
        elif n[0] == 'delete-path':
            _, b, path = n
            if b + path in before and b + path in after and after[b + path][0] == before[b + path][0]:
                fails.append(f'F7 delete-by-path: _delete entry {path!r} at {b} names an existing node '
                             f'but nothing was deleted')
        elif n[0] == 'move':
            _, src, dst, has_update = n
            if src not in before:
                continue
            collided = dst in before
            if src != dst and src in after and not is_prefix(src, dst):
                fails.append(f'move: source {src} still present')
            if is_prefix(src, dst) and src != dst:
                continue
            if dst not in after:
                if src != dst:
                    fails.append(f'move: nothing at the target {dst}')
                continue
            if not collided and src != dst:
                if after[dst][0] != before[src][0]:
                    fails.append(f'move: node at {dst} is not the node that was at {src}')
                elif not has_update and after[dst][2] != before[src][2] and not any(
                        p not in (src, dst) and (is_prefix(src, p) or is_prefix(dst, p)
                                                 or is_prefix(p, src) or is_prefix(p, dst))
                        for p in named):
                    fails.append(f'move: contents changed while moving {src} to {dst}: '
                                 + tree_diff(before[src][2], after[dst][2]))
                else:
                    for q, (ident, _, _) in before.items():
                        if is_prefix(src, q) and q != src:
                            q2 = dst + q[len(src):]
                            if q2 not in after or after[q2][0] != ident:
                                fails.append(f'move: inner node {q} did not arrive intact at {q2}')
                                break
        elif n[0] == 'generate':
            _, base, g = n
            if base not in after:
                fails.append(f'generate: nothing at {base}')
                continue
            from vivarium.core.process import Process

            def placed(procs, topo, at):
                for k, sub in (procs or {}).items():
                    if isinstance(sub, Process):
                        p = at + (k,)
                        if p not in after:
                            fails.append(f'generate: process {k!r} missing at {at}')
                        else:
                            st = root.get_path(p)
                            if st.value is not sub:
                                fails.append(f'generate: node {p} does not hold the given process')
                            elif st.topology != topo.get(k):
                                fails.append(f'generate: process {p} wired {st.topology}, given {topo.get(k)}')
                    elif isinstance(sub, dict):
                        placed(sub, (topo or {}).get(k, {}), at + (k,))
            placed(g.get('processes'), g.get('topology') or {}, base)
            placed(g.get('steps'), g.get('topology') or {}, base)
        elif n[0] == 'divide':
            _, b, mother, keys = n
            if b + (mother,) in after and mother not in keys:
                fails.append(f'divide: mother {mother!r} still present at {b}')
            for k in keys:
                if b + (k,) not in after:
                    fails.append(f'divide: daughter {k!r} missing at {b}')
            now = set(root.get_path(b).inner.keys())
            was = {k[-1] for k in before if len(k) == len(b) + 1 and is_prefix(b, k)}
            extra = now - was - set(keys)
            named_here = {p[len(b)] for p in named if len(p) > len(b) and is_prefix(b, p)}
            if extra - named_here and not any(is_prefix(p, b) for p in named):
                fails.append(f'divide: unexpected new children {sorted(extra - named_here)} at {b}')


# ------------------------------------------------------------------ implementation side

def build_init(case, procs):
    init = case['init']
    return (dec_x(init['processes'], procs), dec_x(init['steps'], procs),
            dec_x(init['flow'], procs) if init.get('flow') is not None else None,
            dec_x(init['topology'], procs), dec_x(init['state'], procs))


def run_impl(case):
    import warnings
    warnings.simplefilter('ignore')
    from vivarium.core.store import Store
    procs = {}
    fails = []
    obs = {'init': None, 'steps': []}
    processes, steps, flow, topology, state = build_init(case, procs)
    if case['kind'] == 'engine':
        return run_engine(case, procs, processes, steps, flow, topology, state)
    root = Store({})
    try:
        root.generate((), processes, steps, flow, topology, state)
    except Exception as e:  # noqa
        obs['init'] = {'err': exc_name(e)}
        return {'obs': obs, 'fails': fails}
    obs['init'] = {'ok': dump(root)}
    for u in case['updates']:
        upd = dec_x(u['upd'], procs)
        here = tuple(u['here'])
        ps_path = tuple(u['ps']) if u.get('ps') is not None else None
        before = snapshot(root)
        notes = Notes()
        try:
            node = root.get_path(here)
            ps = root.get_path(ps_path) if ps_path is not None else None
            named = named_paths(root, here, upd, ps_path, notes)
        except Exception as e:  # noqa
            obs['steps'].append({'err': 'bad-address'})
            break
        try:
            r = node.apply_update(upd, ps)
        except Exception as e:  # noqa
            obs['steps'].append({'err': exc_name(e)})
            try:
                check_step(before, root, here, upd, ps_path, named, notes, True, fails)
            except Cyclic:
                obs['steps'][-1] = {'err': 'cyclic-hierarchy'}
                break
            single = (isinstance(upd, dict) and set(upd) == {'_add'} and isinstance(upd['_add'], list)
                      and len(upd['_add']) == 1)
            if single and notes and notes[0][0] == 'add' and notes[0][4] and dump(root) != before[()][2]:
                fails.append('add: rejected _add of an existing key changed the tree')
            break
        obs['steps'].append({'ok': {'tree': dump(root), 'report': enc_report(r)}})
        check_step(before, root, here, upd, ps_path, named, notes, False, fails)
        check_report(r, notes, fails, named)
    return {'obs': obs, 'fails': fails}


def check_report(r, notes, fails, named=()):
    if r is None or all(x is None for x in r):
        return
    dels = [tuple(d) for d in (r[4] or [])]
    for n in live_notes(notes, named):
        if n[0] == 'delete' and n[1] + (n[2],) not in dels:
            fails.append(f'report: deletion of {n[1] + (n[2],)} not reported')
        if n[0] == 'move' and n[1] not in dels:
            fails.append(f'report: move away from {n[1]} not reported as deletion')
        if n[0] == 'divide' and n[1] + (n[2],) not in dels:
            fails.append(f'report: removal of mother {n[1] + (n[2],)} not reported')
    if notes and not r[5] and any(n[0] in ('add', 'delete', 'move', 'divide', 'generate') for n in notes):
        fails.append('report: structural change without view_expire')


def nest(path, upd):
    for k in reversed(path):
        upd = {k: upd}
    return upd


def run_engine(case, procs, processes, steps, flow, topology, state):
    """A scripted probe (process or step) emits the updates through its ports inside a real
    Engine; every non-empty application is observed by wrapping the instance's apply_update."""
    from vivarium.core.engine import Engine
    fails = []
    obs = {'init': None, 'steps': []}
    drv = case['driver']
    script = [({drv['port_of'][i]: dec_x(u['upd_rel'], procs)} if u.get('upd_rel') is not None else {})
              for i, u in enumerate(case['updates'])]
    dpath = tuple(drv['path'])
    d = procs[drv['name']]
    d._script = ([{}] if drv['is_step'] else []) + script
    try:
        eng = Engine(processes=processes, steps=steps, flow=flow, topology=topology,
                     initial_state=state, emitter={'type': 'null'}, display_info=False,
                     progress_bar=False)
    except Exception as e:  # noqa
        obs['init'] = {'err': exc_name(e)}
        return {'obs': obs, 'fails': fails}
    root = eng.state
    obs['init'] = {'ok': dump(root)}
    orig_store_apply = root.apply_update
    last = {}

    def store_apply(update, st=None):
        r = orig_store_apply(update, st)
        last['report'] = r
        return r
    root.apply_update = store_apply
    orig = eng.apply_update
    pending = [u for u in case['updates']]
    state_box = {'i': 0, 'stop': False}

    def wrapped(update, st):
        if not update or state_box['stop']:
            return orig(update, st)
        i = state_box['i']
        state_box['i'] += 1
        before = snapshot(root)
        notes = Notes()
        named = named_paths(root, (), update, dpath, notes)
        last.pop('report', None)
        try:
            r = orig(update, st)
        except Exception as e:  # noqa
            state_box['stop'] = True
            if 'report' in last:
                # Store.apply_update completed; the Engine's own bookkeeping raised afterwards
                obs['steps'].append({'ok': {'tree': dump(root), 'report': enc_report(last['report'])}})
                check_step(before, root, (), update, dpath, named, notes, False, fails)
                check_report(last['report'], notes, fails, named)
                obs['engine_stopped'] = exc_name(e)
                raise
            obs['steps'].append({'err': exc_name(e)})
            check_step(before, root, (), update, dpath, named, notes, True, fails)
            raise
        obs['steps'].append({'ok': {'tree': dump(root), 'report': enc_report(last.get('report'))}})
        check_step(before, root, (), update, dpath, named, notes, False, fails)
        if 'report' in last:
            check_report(last['report'], notes, fails, named)
        return r
    eng.apply_update = wrapped
    dt = drv['timestep']
    try:
        for _ in range(len(script)):
            eng.update(dt)
            if state_box['stop']:
                break
    except Exception as e:  # noqa
        obs['engine_stopped'] = exc_name(e)
    try:
        eng.end()
    except Exception:
        pass
    return {'obs': obs, 'fails': fails}


# ------------------------------------------------------------------ model side

def model_requests(case):
    ups = []
    for i, u in enumerate(case['updates']):
        if case['kind'] == 'engine':
            if u.get('upd_rel') is None:
                continue
            ups.append({'here': [], 'upd': to_model(u['upd_abs']), 'ps': case['driver']['path']})
        else:
            ups.append({'here': u['here'], 'upd': to_model(u['upd']), 'ps': u.get('ps')})
    init = {k: to_model(v) for k, v in case['init'].items() if v is not None}
    return [{'op': 'history', 'fuel': FUEL, 'init': init, 'updates': ups}]


def model_obs(case, ans):
    a = ans[0]
    if 'bad' in a:
        return {'bad': a['bad']}
    return {'init': a['init'], 'steps': a['steps']}


def canon_tree(t):
    return strip_leaf(t)


def canon_report(r):
    return r


_RERUN = {}


def _settled(case, impl):
    """A watchdog timeout of the forked worker is re-examined once in this process, measured in
    CPU time (the wall-clock watchdog fires for millisecond cases when the machine is saturated by
    other checks); a case that really hangs burns CPU, times out again and is reported."""
    if not (isinstance(impl, dict) and impl.get('timeout')):
        return impl
    key = json.dumps(case, sort_keys=True, default=str)
    if key not in _RERUN:
        import signal

        def _alarm(signum, frame):
            raise TimeoutError()
        # CPU time of this process (a stalled machine does not count), wall clock only as backstop
        old = signal.signal(signal.SIGALRM, _alarm)
        oldp = signal.signal(signal.SIGPROF, _alarm)
        # (four times the per-case budget, in CPU time: on a saturated machine the kernel share of a millisecond
        # case has been seen to grow past the single budget — a thorough run next to three suite runs)
        signal.setitimer(signal.ITIMER_PROF, 4 * CASE_TIMEOUT)
        signal.setitimer(signal.ITIMER_REAL, 40 * CASE_TIMEOUT)
        try:
            _RERUN[key] = run_impl(case)
        except BaseException as e:  # noqa
            _RERUN[key] = {'timeout': True, 'again': type(e).__name__}
        finally:
            signal.setitimer(signal.ITIMER_PROF, 0)
            signal.setitimer(signal.ITIMER_REAL, 0)
            signal.signal(signal.SIGALRM, old)
            signal.signal(signal.SIGPROF, oldp)
    return _RERUN[key]


def compare(case, impl, model):
    impl = _settled(case, impl)
    io = impl.get('obs') if isinstance(impl, dict) else None
    if io is None:
        return f'implementation probe failed: {_short(impl)}'
    if 'bad' in model:
        return f'model driver rejected the request: {model["bad"]}'
    mi, ii = model['init'], io['init']
    if ('err' in mi) != ('err' in ii):
        return f'init: impl={_short(ii)} model={_short(mi)}'
    if 'err' in mi:
        return None if mi['err'] == ii['err'] else f'init error: impl={ii["err"]} model={mi["err"]}'
    if canon_tree(mi['ok']) != canon_tree(ii['ok']):
        return 'init tree: ' + tree_diff(canon_tree(ii['ok']), canon_tree(mi['ok']))
    ms, is_ = model['steps'], io['steps']
    for k, (a, b) in enumerate(zip(is_, ms)):
        if ('err' in a) != ('err' in b):
            return f'update {k}: impl={_short(a)} model={_short(b)}'
        if 'err' in a:
            if a['err'] != b['err']:
                return f'update {k}: impl raised {a["err"]}, model {b["err"]}'
            return None
        ta, tb = canon_tree(a['ok']['tree']), canon_tree(b['ok']['tree'])
        if ta != tb:
            return f'update {k} tree: ' + tree_diff(ta, tb)
        if a['ok']['report'] != b['ok']['report']:
            return f'update {k} report: impl={_short(a["ok"]["report"])} model={_short(b["ok"]["report"])}'
    if len(is_) != len(ms):
        if case['kind'] == 'engine' and io.get('engine_stopped') and len(is_) < len(ms):
            return None     # the engine itself stopped after an update (views on deleted stores)
        if is_ and 'err' in is_[-1] and is_[-1]['err'] == 'bad-address' and len(is_) <= len(ms):
            return None
        return f'history length: impl applied {len(is_)} updates, model {len(ms)}'
    return None


def tree_diff(a, b, path=()):
    """first difference between two dumps (impl a, model b)"""
    for k in ('v', 'def', 'upd', 'div', 'sub', 'topo', 'flow'):
        if a.get(k) != b.get(k):
            return f'at {list(path)} field {k}: impl={_short(a.get(k))} model={_short(b.get(k))}'
    ka, kb = [k for k, _ in a['inner']], [k for k, _ in b['inner']]
    if ka != kb:
        return f'at {list(path)} children: impl={ka} model={kb}'
    for (k, ca), (_, cb) in zip(a['inner'], b['inner']):
        d = tree_diff(ca, cb, path + (k,))
        if d:
            return d
    return ''


def _short(x):
    s = json.dumps(x, default=str)
    return s if len(s) < 400 else s[:400] + '…'


def oracle(case, impl):
    impl = _settled(case, impl)
    if not isinstance(impl, dict) or 'fails' not in impl:
        return [f'probe-crashed: {_short(impl)}']
    return impl['fails']


def classify(case, failure):
    if failure.startswith('F7 delete-by-path'):
        return 'F7'
    return None


def nontrivial(case, impl):
    impl = _settled(case, impl)
    if not isinstance(impl, dict) or 'obs' not in impl:
        return False
    steps = impl['obs'].get('steps') or []
    init = impl['obs'].get('init') or {}
    prev = init.get('ok')
    for s in steps:
        if 'ok' in s:
            if s['ok']['tree'] != prev and s['ok']['report'] is not None and s['ok']['report']['view_expire']:
                return True
            prev = s['ok']['tree']
    return False


def stats(results):
    from collections import Counter
    kinds = Counter(r['case']['kind'] for r in results)
    ops = Counter()
    errs = Counter()
    applied = 0
    init_err = 0
    depth = Counter()
    for r in results:
        for u in r['case']['updates']:
            for o in u.get('ops', []):
                ops[o] += 1
        io = r['impl'].get('obs') if isinstance(r['impl'], dict) else None
        if not io:
            continue
        if io.get('init') and 'err' in io['init']:
            init_err += 1
        for s in io.get('steps', []):
            if 'err' in s:
                errs[s['err']] += 1
            else:
                applied += 1
        if io.get('init') and 'ok' in io['init']:
            depth[_depth(io['init']['ok'])] += 1
    return {'kinds': dict(kinds), 'operations': dict(ops), 'updates_applied': applied,
            'updates_raising': dict(errs), 'init_errors': init_err,
            'initial_tree_depth': {str(k): v for k, v in sorted(depth.items())}}


def _depth(t):
    return 1 + max([_depth(c) for _, c in t['inner']] or [0])


def shrink(case):
    ups = case['updates']
    if case['kind'] == 'engine':
        return
    for i in range(len(ups) - 1, -1, -1):
        c = dict(case)
        c['updates'] = ups[:i] + ups[i + 1:]
        yield c
    for i, u in enumerate(ups):
        if isinstance(u['upd'], dict) and 'd' in u['upd'] and len(u['upd']['d']) > 1:
            for j in range(len(u['upd']['d'])):
                c = dict(case)
                nu = dict(u)
                nu['upd'] = {'d': u['upd']['d'][:j] + u['upd']['d'][j + 1:]}
                c['updates'] = ups[:i] + [nu] + ups[i + 1:]
                yield c


# ------------------------------------------------------------------ generators

from harness.props.gen_c09 import generate, corpus  # noqa: E402  (generators live in their own file)


LEVEL_TEXT = ('Lean 4 theorems over an executable tree model of Store (every mutation goes through two '
              'primitives whose frame lemma is proved once; every operation is built in a monad that '
              'carries the frame proof): for ALL trees, updates and histories the nodes apart from the '
              'logged paths are identical subtrees and the nodes not below them keep their attributes; '
              '_add rejects an existing key and otherwise appends exactly the child; _delete of string '
              'keys removes exactly the subtree; _move re-attaches the identical subtree; _divide removes '
              'the mother; the processing order table extracted from the source puts additions and moves '
              'before deletions and the update is the sequential composition in that order. The model is '
              'tied to the code by differential runs on random hierarchies and histories (direct and '
              'through a real Engine) comparing the full tree and the report tuple after every update.')
LEVEL_NOTE = ('Trusted: Lean kernel; axioms ⊆ {propext, Classical.choice, Quot.sound}; the hand-written '
              'model of store.py, validated by the differential runs. Partial: `delete_partial` covers '
              'string keys only — a tuple path deletes nothing (known finding F7, witness proved); the '
              '_generate/_divide theorems state the frame, the report and the removal of the mother, '
              'the placement of generated processes is checked by the oracle on the implementation, '
              'not proved. Updates that raise leave a partially applied update behind in Python; the '
              'model returns no tree for them and histories end there.')
TECHNIQUE = 'Lean 4 proof (frame by construction + induction over paths/histories) + model/code correspondence (differential)'


# a process deleted while its update is in flight: nothing of it arrives afterwards, anywhere
from harness import deadwriter as _dw                   # noqa: E402
from harness.mixins import add_family as _add_family    # noqa: E402
_add_family(globals(), _dw, 'deadwriter', _dw.oracle, share=0.02)
