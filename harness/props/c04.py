"""C04 — processes started together see one committed snapshot; listing order is moot."""
import copy
import random

from harness import sched_common as sc
from harness import sched_prop

PROP = 'C04'
LEAN_TARGETS = ['VivProps.C04']
DRIVER = 'Sched'
REQUIRED_THEOREMS = ['pass_invocations_see_loop_head_state', 'no_apply_between_invocations',
                     'listing_order_is_moot', 'pass_order_independent', 'accumulating_updates_commute']
ANCHORS = sched_prop.ENGINE_ANCHORS
BUDGET = {'quick': 150, 'thorough': 4000}
RULE = ('each scheduler scenario (1–4 processes, 0–3 steps, state-dependent timesteps/conditions/updates, all '
        'updates accumulating) is run twice on the real engine: as listed, and with the dictionaries of '
        'processes, steps (legacy derivers keep their relative order — it is semantic by C05), topology, ports and '
        'initial state listed in a random other order. Non-trivial: ≥ 2 processes actually permuted and ≥ 12 '
        'trace events.')
TRUSTED = ['IEEE float arithmetic of global_time (integer ticks in the model)']
ASSUMPTIONS = ['updates commute: every updater in the scenarios is accumulate on integers',
               'callbacks terminate, do not raise, do not mutate their arguments']
CASE_TIMEOUT = 30.0


def permute(case):
    rng = random.Random(case['perm_seed'])
    c = copy.deepcopy(case)
    rng.shuffle(c['procs'])
    # steps: shuffle, then restore the relative order of the derivers
    pairs = list(zip(c['steps'], c['stepDeps']))
    deriv = [p for p in pairs if p[1]['deps'] is None]
    rng.shuffle(pairs)
    it = iter(deriv)
    pairs = [next(it) if p[1]['deps'] is None else p for p in pairs]
    c['steps'] = [p[0] for p in pairs]
    c['stepDeps'] = [p[1] for p in pairs]
    rng.shuffle(c['store'])
    return c


def corpus():
    out = []
    for i, c in enumerate(sched_prop.scheduler_corpus()[-4:]):
        c = dict(c)
        c['perm_seed'] = i + 1
        out.append(c)
    return out


def generate(rng, n, tier):
    out = []
    for _ in range(n):
        c = sc.gen_scenario(rng, max_procs=4, allow_empty=False, p_quiet=0.2, emit_variants=False)
        c['perm_seed'] = rng.randrange(1 << 30)
        out.append(c)
    return out


def run_impl(case):
    a = sc.run_engine(case)
    b = sc.run_engine(permute(case))
    return {'a': a, 'b': b}


def model_requests(case):
    return [sc.model_request(case), sc.model_request(permute(case))]


def model_obs(case, ans):
    return {'a': ans[0], 'b': ans[1]}


def _snap(events):
    inv = sorted(([ev['gt'], ev['p'], ev['n'], ev['view']] for ev in events if ev['e'] == 'invoke'),
                 key=lambda x: (x[0], x[1]))
    stp = [[ev['t'], ev['p'], ev['k'], ev['view']] for ev in events if ev['e'] == 'stepInvoke']
    rows = [[ev['t'], ev['row']] for ev in events if ev['e'] == 'emit']
    return {'invoke_views': inv, 'step_views': stp, 'rows': rows}


def compare(case, impl, model):
    for side in ('a', 'b'):
        m = model[side]
        guard = sched_prop.common_compare_guard(impl[side], m)
        if guard:
            return f'{side}: {guard}'
        x = _snap(impl[side].get('log', []))
        y = _snap(sc.model_events(m))
        for k in y:
            if x[k] != y[k]:
                return f'{side}.{k}: impl={str(x[k])[:400]} model={str(y[k])[:400]}'
        if impl[side].get('raised'):
            return f'{side}: engine raised {impl[side]["raised"]}'
    return None


def oracle(case, impl):
    fails = []
    for side in ('a', 'b'):
        r = impl[side]
        if 'harness_exception' in r:
            return [f'probe-crashed: {r["harness_exception"]}']
        if r.get('timeout'):
            return []
        log = r.get('log', [])
        # one snapshot per instant, no application in between
        cur_gt, cur_view, seen_invoke = None, None, False
        for ev in log:
            if ev['e'] == 'invoke':
                if cur_gt == ev['gt'] and cur_view is not None and ev['view'] != cur_view:
                    fails.append(f'snapshot: processes started at {ev["gt"]} saw different states')
                    break
                if cur_gt != ev['gt']:
                    cur_gt, cur_view = ev['gt'], ev['view']
                seen_invoke = True
            elif ev['e'] in ('apply', 'stepApply'):
                if seen_invoke and cur_gt is not None and ev['t'] == cur_gt:
                    # an application at the same instant *after* an invocation of that instant
                    later = [e2 for e2 in log[log.index(ev):] if e2['e'] == 'invoke' and e2['gt'] == cur_gt]
                    if later:
                        fails.append(f'snapshot: an update was applied between invocations at {cur_gt}')
                        break
                cur_view = None
                seen_invoke = False
        # the snapshot is the committed state: equal to the state recorded at the last emit before it
        last_actual = None
        for ev in log:
            if ev['e'] == 'emit' and ev.get('actual') is not None:
                last_actual = (ev['t'], ev['actual'])
            elif ev['e'] == 'invoke' and last_actual is not None and last_actual[0] == ev['gt']:
                if ev['view'] != last_actual[1]:
                    fails.append(f'snapshot: at {ev["gt"]} a process saw a state different from the committed one')
                    break
    if fails:
        return fails[:3]
    a, b = impl['a'], impl['b']
    if a.get('raised') or b.get('raised'):
        return [f'engine-raised: {a.get("raised")} / {b.get("raised")}']
    ra = [[ev['t'], ev['row']] for ev in a['log'] if ev['e'] == 'emit']
    rb = [[ev['t'], ev['row']] for ev in b['log'] if ev['e'] == 'emit']
    if ra != rb:
        for x, y in zip(ra, rb):
            if x != y:
                fails.append(f'order: listing order changed the trajectory: row {x} vs {y}')
                break
        else:
            fails.append(f'order: listing order changed the number of rows: {len(ra)} vs {len(rb)}')
    if a.get('store') != b.get('store'):
        fails.append('order: listing order changed the final state')
    return fails[:3]


def nontrivial(case, impl):
    p = permute(case)
    return len(case['procs']) >= 2 and [x['pid'] for x in p['procs']] != [x['pid'] for x in case['procs']] \
        and len(impl['a'].get('log', [])) >= 12


def stats(results):
    from collections import Counter
    c = Counter()
    for r in results:
        case = r['case']
        c['procs=%d' % len(case['procs'])] += 1
        c['steps=%d' % len(case['steps'])] += 1
        p = permute(case)
        if [x['pid'] for x in p['procs']] != [x['pid'] for x in case['procs']]:
            c['process_order_changed'] += 1
        if [x['pid'] for x in p['steps']] != [x['pid'] for x in case['steps']]:
            c['step_order_changed'] += 1
    return dict(c)


def classify(case, failure):
    return None


def shrink(case):
    for c in sched_prop.shrink(case):
        c = dict(c)
        c['perm_seed'] = case['perm_seed']
        yield c


LEVEL_TEXT = ('Lean 4 theorems over the scheduler model: every next_update issued in one pass of the loop carries '
              'the loop-head state (the committed state) and no application happens before all of them are issued; '
              'accumulating updates to declared variables commute; hence for any permutation of the process list, any '
              'oracle, step set and call sequence, the clock, the state, the step bookkeeping and the emitted rows '
              'are identical (proved by a permutation-invariant simulation relation lifted through loop, run_for and '
              'call sequences). Tied to engine.py by running every scenario in two listing orders.')
LEVEL_NOTE = ('Trusted: Lean kernel + standard axioms; scheduler model ~ Engine.run_for via trace correspondence. The '
              'theorem permutes the process listing; permutations of steps within a flow, ports, topology entries and '
              'initial-state keys are covered by the metamorphic oracle on the implementation (layers are sorted by '
              'path, C05). set-updates to distinct variables are covered by the oracle only.')
TECHNIQUE = 'Lean 4 simulation-relation proof (permutation invariance) + metamorphic correspondence'


# structural updates issued by steps: all viewers started at one instant see one committed state
from harness import structstep as _ss          # noqa: E402
from harness.mixins import add_family as _add_family   # noqa: E402
_add_family(globals(), _ss, 'structstep', lambda case, impl: _ss.oracle(case, impl, who=('snapshot', 'viewer', 'census')))

# container-valued variables: a view/update computed from the committed snapshot must not change afterwards
from harness import valuesnap as _vs               # noqa: E402
_add_family(globals(), _vs, 'valuesnap', _vs.oracle, share=0.15)

# steps of compartments that reach the engine through Composite.merge / Composer.generate / a store: the steps of
# one dependency layer still see one state and the result does not depend on the declaration order
from harness import dynflow as _df                  # noqa: E402
_add_family(globals(), _df, 'dynflow', lambda case, impl: _df.oracle(case, impl, who=('values',)), share=0.06)
# processes sharing one schema object, one of them with an override: listing order must not matter
from harness import schemaleak as _sl               # noqa: E402
_add_family(globals(), _sl, 'schemaleak', lambda case, impl: _sl.oracle(case, impl, who=('values',)), share=0.04)


# several ports of one process meeting on one variable, at any depth below the node they are wired to and in
# either listing order: every port's update counts (the listing order of ports is moot)
from harness import reuseupd as _ru                     # noqa: E402
_add_family(globals(), _ru, 'reuseupd', _ru.oracle, share=0.05)


# compatible declarations of one variable (an updater named by the writer only) in every listing order
from harness import declorder as _do                    # noqa: E402
from harness.mixins import add_family as _add_family    # noqa: E402,F811
_add_family(globals(), _do, 'declorder', _do.oracle, share=0.04)


# initial values proposed by the processes of a composite: a function of the composite, not of listing order
from harness import initorder as _io                    # noqa: E402
_add_family(globals(), _io, 'initorder', _io.oracle, share=0.03)
