"""C12 — the emitted history is a faithful, ordered sequence of state snapshots."""
from harness import sched_common as sc
from harness.sched_prop import install, P, S


def view(case, events, info):
    seq = []
    for ev in events:
        if ev['e'] == 'config':
            seq.append(['config'])
        elif ev['e'] == 'emit':
            seq.append(['emit', ev['t'], [k for k, _ in ev['row']]])
        elif ev['e'] in ('apply', 'stepApply'):
            # position of rows relative to the batches: collapse each run of applications
            if not seq or seq[-1][0] != 'batch' or seq[-1][1] != ev['t']:
                seq.append(['batch', ev['t']])
    return {'sequence': seq, 'abnormal': info.get('raised')}


def oracle(case, impl):
    fails = []
    if impl.get('timeout'):
        return []
    log = impl['log']
    kinds = [ev['e'] for ev in log if ev['e'] in ('config', 'emit')]
    if kinds.count('config') != 1:
        fails.append(f'config: {kinds.count("config")} configuration records')
    if kinds and kinds[0] != 'config':
        fails.append('config: a history row precedes the configuration record')
    emits = [ev for ev in log if ev['e'] == 'emit']
    if not emits or emits[0]['t'] != case['t0']:
        fails.append('initial: no history row for the initial time')
    for a, b in zip(emits, emits[1:]):
        if b['t'] <= a['t']:
            fails.append(f'order: rows at {a["t"]} then {b["t"]} (time keys must increase strictly)')
            break
    noemit = set(case.get('noemit', []))
    for ev in emits:
        if ev.get('actual') is None:
            continue
        expect = sorted([k, v] for k, v in ev['actual'] if k not in noemit)
        if ev['row'] != expect:
            fails.append(f'row: row at {ev["t"]} is {ev["row"]} but the flagged variables hold {expect}')
            break
        if ev['extra_keys']:
            fails.append(f'row: unexpected top-level keys {ev["extra_keys"]}')
            break
    # one row per applied batch (emit_step 1), after that batch's steps; rows ⊆ batch times otherwise
    batch_times = []
    for ev in log:
        if ev['e'] == 'apply' and (not batch_times or batch_times[-1] != ev['t']):
            batch_times.append(ev['t'])
    _, ticks, every = sc.emit_params(case)
    row_times = [ev['t'] for ev in emits[1:]]
    if every:
        # quiet-only advances produce no batch; every *batch* must have its row
        missing = [t for t in batch_times if t not in row_times]
        if missing and not impl.get('raised'):
            fails.append(f'missing: no row for the batches at {missing[:4]}')
    # the initial row comes after the initial step phase
    idx_first_emit = next((i for i, ev in enumerate(log) if ev['e'] == 'emit'), None)
    if idx_first_emit is not None:
        late_steps = [ev for ev in log[idx_first_emit:] if ev['e'].startswith('step') and ev['t'] == case['t0']
                      and not any(e2['e'] == 'apply' for e2 in log[:log.index(ev)])]
        if late_steps:
            fails.append('initial: the initial step phase ran after the first history row')
    # each row comes after the steps of its batch
    for i, ev in enumerate(log):
        if ev['e'] == 'emit':
            for later in log[i + 1:]:
                if later['e'] in ('askTs', 'askCond', 'invoke', 'emit', 'apply'):
                    break
                if later['e'].startswith('step') and later['t'] == ev['t']:
                    fails.append(f'placement: steps ran after the row at {ev["t"]} was emitted')
                    break
    return fails


def _extra():
    return [
        S([P('p0', [5])], [[10, True]], emit_ticks=2),
        S([P('p0', [1])], [[6, True]], emit_ticks=3),
        S([P('p0', [2]), P('p1', [3])], [[7, False], [5, True]], emit_ticks=4, unit=0.25),
        # a branch-level flag and more specific flags below it in the same `store_schema` dictionary
        # a zero-length forced call when everybody is complete: no second row for that time
        S([P('p0', [1])], [[2, True], [0, True], [1, True]]),
        S([P('p0', [1]), P('p1', [2])], [[4, True]], noemit=['x0'], emit_via='mixed_on'),
        S([P('p0', [1]), P('p1', [2])], [[4, True]], noemit=['x0', 'tok_p1'], emit_via='mixed_off'),
    ]


install(globals(), 'C12', view, oracle,
        gen_opts=dict(emit_flags=True, emit_variants=True, zero_calls='after_forced'),
        budget={'quick': 250, 'thorough': 6000},
        rule='scheduler scenarios × emit-flag assignments (each variable flagged or not) × emit_step ∈ {1 time '
             'unit, 1–5 ticks} × steps; a spy Emitter registered through the emitter registry records every emit '
             'call together with the state the hierarchy holds at that moment. Non-trivial: ≥ 2 processes/steps and '
             '≥ 12 trace events.',
        level_text='Lean 4 theorems over the scheduler model: the log starts with the initial step phase, one '
                   'configuration record and the row for the initial time; with emit_step 1 every applied batch is '
                   'followed by its step phase and then exactly one row; row times are strictly increasing; a row is '
                   'the flagged part of the state at that moment — globally: every row of every reachable history is '
                   'the flagged replay of exactly the applications before it, all at times <= its key and every '
                   'later application strictly later; with larger emit_step rows are emitted at most '
                   'once per batch. Tied to engine.py by the emit/batch sequence correspondence; row fidelity is '
                   'checked directly on the implementation.',
        level_note='Trusted: Lean kernel + standard axioms; scheduler model ~ Engine.run_for via trace '
                   'correspondence. Units and custom serializers on emission (Store.emit_data) are covered by the '
                   'oracle-only emitser family (quantities, serializer objects and names), not by a theorem; '
                   'branch-level _emit / store_schema: theorems over the Init model (`branch_emit_acts_on_whole_branch`, '
                   '`store_schema_branch_emit`) plus the store_schema variants of the scheduler scenarios; emission '
                   'through changing hierarchy shapes is covered by the C09/C10 checks of the hierarchy itself.',
        technique='Lean 4 invariant proof over the scheduler log + emit-sequence correspondence',
        extra_corpus=_extra(),
        required=['emit_times_strict', 'row_is_flagged_state', 'one_row_per_batch', 'initial_prefix', 'at_most_one_row_per_pass', 'row_contents',
                  'every_row_is_the_state_at_its_time', 'branch_emit_acts_on_whole_branch',
                  'store_schema_branch_emit', 'branch_flag_then_specific'])


# emission through units and custom serializers
from harness import emitser as _es             # noqa: E402
from harness.mixins import add_family as _add_family   # noqa: E402
_add_family(globals(), _es, 'emitser', _es.oracle, share=0.05)


# emit flags of processes sharing one schema object (one instance carries an `_emit` override)
from harness import emitleak as _el                     # noqa: E402
_add_family(globals(), _el, 'emitleak', _el.oracle, share=0.03)


# rows emitted for a variable whose default is a list of quantities: in the declared units
from harness import listunits as _lu                    # noqa: E402
_add_family(globals(), _lu, 'listunits', _lu.oracle, share=0.02)
