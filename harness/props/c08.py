"""C08 — updates are combined with the current value by the declared updater.

Correspondence: every registered updater as a function, and real `Store.apply_update` on stores
built with `Store(config)` / `generate_state` vs `VivModel/Registry.lean` + `VivModel/Store.lean`.
Oracle: the property's laws (precedence carried > declared > accumulate, left fold of a
`_multi_update`, frame, caller's update untouched, declared units, per-updater laws) evaluated on the
implementation's before/after values by an independent spec written on encoded values."""
import copy
from fractions import Fraction

from harness.val import exc_name
from harness.props import _reg
from harness.props._reg import enc2, dec2, E, tag_of, CONV, UNIT_ORDER

try:  # imported before the workers fork, so that no case pays (or is interrupted in) the import
    import vivarium  # noqa: F401
    import vivarium.core.store  # noqa: F401
except Exception:  # pragma: no cover - e.g. manifest generation without the repo on the path
    pass

PROP = 'C08'
LEAN_TARGETS = ['VivProps.C08']
DRIVER = 'Registry'
REQUIRED_THEOREMS = ['default_updater_as_in_source', 
    'table_total', 'table_as_modelled', 'leaf_updater_choice', 'leaf_value', 'multi_is_fold',
    'frame', 'units_declared', 'set_law', 'null_law', 'accumulate_int', 'accumulate_array',
    'nonneg_int', 'nonneg_array', 'merge_lookup', 'merge_keys', 'dict_value_add',
    'dict_value_delete', 'dict_value_inner',
]
ANCHORS = [
    ('vivarium/core/registry.py', ['update_merge', 'update_set', 'update_null', 'update_accumulate',
                                   'update_nonnegative_accumulate', 'update_dictionary',
                                   'Registry.access', 'Registry.register']),
    ('vivarium/core/store.py', ['Store._get_updater', 'Store.apply_update', 'Store._apply_config',
                                'Store._check_schema_support_defaults', 'Store.get_value',
                                'Store.apply_defaults', 'Store.set_value']),
    ('vivarium/library/dict_utils.py', ['deep_merge']),
]
BUDGET = {'quick': 1400, 'thorough': 40000}
RULE = ('cases: (a) one registered updater applied as a function to (current, update) drawn from its '
        'domain (ints incl. huge/negative, bools, dyadic floats, int arrays, quantities in mm/cm/m, '
        'strings, lists, nested dicts) plus a malformed stream of type mixes; (b) a store of depth <= 3 '
        'built from a random schema (declared updaters incl. unknown names and user functions, '
        'quantity defaults) and 1-3 batches, each mentioning a subset of the variables with 1-4 '
        'updates per variable (`_multi_update`), carried `_updater`/`_value`, unknown keys, empty '
        'structural lists. Non-trivial: a store batch touching >= 2 variables or a multi-update, or a '
        'function case whose result differs from both arguments. Distinct by canonical JSON.')
TRUSTED = ['CPython/numpy/pint arithmetic on the sampled values (modelled, not verified)',
           'pint unit conversion, given to the model as the integer table mm<-cm<-m']
ASSUMPTIONS = [
    'numpy arrays are one-dimensional int64 with entries below 2^40; quantities have integer '
    'magnitudes and are only converted towards the smaller unit (mm <- cm <- m)',
    'type mixes numpy-array/list, quantity/number and float/array are not generated (numpy and pint '
    'coercions outside the model)',
    '`_reduce`, non-empty `_add/_move/_generate/_delete`, subschemas are other properties',
]
CASE_TIMEOUT = 30.0

UPDATERS = ['accumulate', 'set', 'null', 'merge', 'nonnegative_accumulate', 'dict_value']
KEYS = ['a', 'b', 'c', 'd']


# ------------------------------------------------------------------ canonical form

def canon(j):
    """forget dict insertion order"""
    if isinstance(j, dict):
        if 'd' in j:
            return {'d': sorted(([k, canon(v)] for k, v in j['d']), key=lambda kv: kv[0])}
        if 'l' in j:
            return {'l': [canon(x) for x in j['l']]}
        return {k: canon(v) for k, v in j.items()}
    if isinstance(j, list):
        return [canon(x) for x in j]
    return j


def norm_bool(j):
    """True == 1 in Python; the laws are about `==`"""
    if isinstance(j, bool):
        return int(j)
    if isinstance(j, dict):
        return {k: norm_bool(v) for k, v in j.items()}
    if isinstance(j, list):
        return [norm_bool(x) for x in j]
    return j


# ------------------------------------------------------------------ spec (oracle) on encoded values

class NoSpec(Exception):
    pass


def _kind(j):
    if j is None:
        return 'none'
    if isinstance(j, bool):
        return 'int'
    if isinstance(j, int):
        return 'int'
    if isinstance(j, str):
        return 'str'
    t = tag_of(j)
    if t:
        return t.strip('_')
    if isinstance(j, dict) and 'l' in j:
        return 'list'
    if isinstance(j, dict) and 'd' in j:
        return 'dict'
    raise NoSpec()


def _conv(m, u_from, u_to):
    if u_from == u_to:
        return m
    for a, b, f in CONV:
        if a == u_from and b == u_to:
            return m * f
    raise NoSpec()


def _flt(j):
    return Fraction(j['l'][1], 2 ** j['l'][2])


def _mkflt(fr):
    n, d = fr.numerator, fr.denominator
    if d & (d - 1):
        raise NoSpec()
    return {'l': ['__flt__', n, d.bit_length() - 1]}


def spec_add(a, b):
    ka, kb = _kind(a), _kind(b)
    if ka == 'int' and kb == 'int':
        return int(a) + int(b)
    if ka == 'str' and kb == 'str':
        return a + b
    if ka == 'list' and kb == 'list':
        return {'l': a['l'] + b['l']}
    if ka == 'arr' and kb == 'arr':
        x, y = a['l'][1:], b['l'][1:]
        if len(x) == len(y):
            return {'l': ['__arr__'] + [p + q for p, q in zip(x, y)]}
        raise NoSpec()
    if ka == 'arr' and kb == 'int':
        return {'l': ['__arr__'] + [p + int(b) for p in a['l'][1:]]}
    if ka == 'int' and kb == 'arr':
        return {'l': ['__arr__'] + [int(a) + p for p in b['l'][1:]]}
    if ka == 'flt' and kb == 'flt':
        return _mkflt(_flt(a) + _flt(b))
    if ka == 'flt' and kb == 'int':
        return _mkflt(_flt(a) + int(b))
    if ka == 'int' and kb == 'flt':
        return _mkflt(int(a) + _flt(b))
    if ka == 'qty' and kb == 'qty':
        return {'l': ['__qty__', a['l'][1] + _conv(b['l'][1], b['l'][2], a['l'][2]), a['l'][2]]}
    raise NoSpec()


def spec_nonneg(a, b):
    s = spec_add(a, b)
    k = _kind(s)
    if k == 'int':
        return max(s, 0)
    if k == 'arr':
        return {'l': ['__arr__'] + [max(p, 0) for p in s['l'][1:]]}
    if k == 'flt':
        return s if _flt(s) >= 0 else {'l': ['__flt__', 0, 0]}
    if k == 'qty':
        return s if s['l'][1] >= 0 else {'l': ['__qty__', 0, s['l'][2]]}
    raise NoSpec()


def _dget(j, k, missing=None):
    for kk, v in j['d']:
        if kk == k:
            return v
    return missing


_MISSING = object()


def spec_deep_merge(a, b):
    """docstring law of merge / deep_merge: union of keys, the new value wins, nested dicts merged"""
    out = [[k, v] for k, v in a['d']]
    for k, v in b['d']:
        cur = _dget(a, k, _MISSING)
        if cur is not _MISSING and _kind(cur) == 'dict' and _kind(v) == 'dict':
            nv = spec_deep_merge(cur, v)
        else:
            nv = v
        for e in out:
            if e[0] == k:
                e[1] = nv
                break
        else:
            out.append([k, nv])
    return {'d': out}


def spec_merge(a, b):
    if _kind(a) != 'dict' or _kind(b) != 'dict':
        raise NoSpec()
    return spec_deep_merge(a, b)


def spec_dict_value(a, u):
    if _kind(a) != 'dict' or _kind(u) != 'dict':
        raise NoSpec()
    cur = {k: v for k, v in a['d']}
    for key, val in u['d']:
        if key == '_add':
            if _kind(val) != 'list':
                raise NoSpec()
            for item in val['l']:
                if _kind(item) != 'dict':
                    raise NoSpec()
                k, s = _dget(item, 'key', _MISSING), _dget(item, 'state', _MISSING)
                if k is _MISSING or s is _MISSING or not isinstance(k, str):
                    raise NoSpec()
                cur[k] = s
        elif key == '_delete':
            if _kind(val) != 'list':
                raise NoSpec()
            for k in val['l']:
                if not isinstance(k, str) or k not in cur:
                    raise NoSpec()
                del cur[k]
        else:
            if key not in cur or _kind(cur[key]) != 'dict' or _kind(val) != 'dict':
                raise NoSpec()
            inner = {k: v for k, v in cur[key]['d']}
            for k, v in val['d']:
                inner[k] = v
            cur[key] = {'d': [[k, v] for k, v in inner.items()]}
    return {'d': [[k, v] for k, v in cur.items()]}


def spec_user(name):
    def f(a, b):
        if _kind(a) != 'int' or _kind(b) != 'int':
            raise NoSpec()
        a, b = int(a), int(b)
        return {'sub': a - b, 'keep_max': max(a, b), 'second': b}[name]
    return f


SPEC = {
    'set': lambda a, b: b,
    'null': lambda a, b: a,
    'accumulate': spec_add,
    'nonnegative_accumulate': spec_nonneg,
    'merge': spec_merge,
    'dict_value': spec_dict_value,
}


def spec_fn(updater):
    """updater: a registry name or an encoded user callable"""
    if isinstance(updater, str):
        if updater in SPEC:
            return SPEC[updater]
        raise NoSpec()
    if tag_of(updater) == '__fn__':
        name = updater['l'][1]
        if name == 'second':
            return lambda a, b: b
        return spec_user(name)
    raise NoSpec()


SCHEMA_KEYS = {'_default', '_updater', '_value', '_properties', '_emit', '_serializer'}
STRUCT = {'_add', '_move', '_generate', '_delete', '_divide'}


def cfg_is_leaf(cfg):
    return any(k in SCHEMA_KEYS for k, _ in cfg['d'])


def leaf_units(cfg):
    u = _dget(cfg, '_units')
    if u:
        return u
    d = _dget(cfg, '_default')
    if tag_of(d) == '__qty__':
        return d['l'][2]
    return None


def spec_tree(cfg, before, upd, touched, path=()):
    """expected value (encoded) of the subtree after the update; `touched` collects leaf paths that
    were addressed; raises NoSpec when the laws say nothing (outside the domain)."""
    if before is _MISSING:
        raise NoSpec()
    if isinstance(upd, dict) and 'd' in upd and _dget(upd, '_multi_update', _MISSING) is not _MISSING:
        mu = _dget(upd, '_multi_update')
        if _kind(mu) != 'list':
            raise NoSpec()
        cur = before
        for u in mu['l']:
            cur = spec_tree(cfg, cur, u, touched, path)
        return cur
    if not cfg_is_leaf(cfg) and cfg['d']:
        if _kind(upd) != 'dict':
            raise NoSpec()
        out = []
        for k, v in before['d']:
            sub = _dget(upd, k, _MISSING)
            ccfg = _dget(cfg, k, _MISSING)
            if sub is _MISSING or ccfg is _MISSING or k in STRUCT:
                out.append([k, v])
            else:
                try:
                    out.append([k, spec_tree(ccfg, v, sub, touched, path + (k,))])
                except NoSpec:
                    touched.add(path + (k,))
                    out.append([k, _MISSING])
        return {'d': out}
    # leaf
    touched.add(path)
    if not cfg_is_leaf(cfg):
        raise NoSpec()
    declared = _dget(cfg, '_updater', 'accumulate')
    updater = declared
    u = upd
    if _kind(upd) == 'dict' and _dget(upd, '_updater', _MISSING) is not _MISSING:
        updater = _dget(upd, '_updater')
        u = _dget(upd, '_value', _MISSING)
        if u is _MISSING:
            u = _dget(cfg, '_default')
    elif _kind(upd) == 'dict' and any(k in SCHEMA_KEYS or k == '_reduce' for k, _ in upd['d']):
        raise NoSpec()
    res = spec_fn(updater)(before, u)
    units = leaf_units(cfg)
    if units:
        if tag_of(res) != '__qty__':
            raise NoSpec()
        res = {'l': ['__qty__', _conv(res['l'][1], res['l'][2], units), units]}
    return res


def tree_diff(expected, actual, path=()):
    """first difference between expected (with _MISSING holes = no expectation) and actual"""
    if expected is _MISSING:
        return None
    if isinstance(expected, dict) and 'd' in expected and not tag_of(expected) and \
            isinstance(actual, dict) and 'd' in actual:
        ek = {k: v for k, v in expected['d']}
        ak = {k: v for k, v in actual['d']}
        if any(v is _MISSING for v in ek.values()) or True:
            if set(ek) != set(ak):
                return f'{path}: keys {sorted(ak)} expected {sorted(ek)}'
            for k in ek:
                d = tree_diff(ek[k], ak[k], path + (k,))
                if d:
                    return d
            return None
    if norm_bool(canon(expected)) != norm_bool(canon(actual)):
        return f'{path}: holds {_short(actual)}, the laws give {_short(expected)}'
    return None


# ------------------------------------------------------------------ generators

def g_int(rng):
    r = rng.random()
    if r < 0.6:
        return rng.randrange(-20, 60)
    if r < 0.75:
        return rng.choice([0, 1, -1, 2 ** 53 + 1, -(2 ** 53) - 3, 2 ** 70 + 5, -(2 ** 64)])
    if r < 0.85:
        return rng.random() < 0.5
    return rng.randrange(-10 ** 6, 10 ** 6)


def g_flt(rng):
    return {'l': ['__flt__'] + list(_normflt(rng.randrange(-200, 400), rng.randrange(0, 5)))}


def _normflt(n, e):
    while e > 0 and n % 2 == 0:
        n //= 2
        e -= 1
    return n, e


def g_arr(rng, n=None):
    n = rng.randrange(0, 5) if n is None else n
    return {'l': ['__arr__'] + [rng.randrange(-30, 50) for _ in range(n)]}


def g_qty(rng, min_unit='mm'):
    us = UNIT_ORDER[UNIT_ORDER.index(min_unit):]
    return {'l': ['__qty__', rng.randrange(-40, 90), rng.choice(us)]}


def g_plain(rng, depth=2):
    r = rng.random()
    if r < 0.4 or depth == 0:
        return rng.choice([None, rng.randrange(-5, 30), rng.choice(['X', 'yy', '']), rng.random() < 0.5])
    if r < 0.6:
        return {'l': [rng.randrange(10) for _ in range(rng.randrange(0, 4))]}
    return g_dict(rng, depth - 1)


def g_dict(rng, depth=2, nonempty=False):
    n = rng.randrange(1 if nonempty else 0, 4)
    return {'d': [[k, g_plain(rng, depth)] for k in rng.sample(KEYS, n)]}


def g_dict_like(rng, base, depth=2):
    """a dict sharing keys with `base` (so that merges collide)"""
    out = []
    for k, v in base['d']:
        if rng.random() < 0.55:
            if isinstance(v, dict) and 'd' in v and rng.random() < 0.7:
                out.append([k, g_dict_like(rng, v, depth - 1)])
            else:
                out.append([k, g_plain(rng, max(depth - 1, 0))])
    for k in rng.sample(KEYS, rng.randrange(0, 3)):
        if all(k != kk for kk, _ in out):
            out.append([k, g_plain(rng, max(depth - 1, 0))])
    rng.shuffle(out)
    return {'d': out}


def g_dictvalue_cur(rng):
    return {'d': [[k, g_dict(rng, 1) if rng.random() < 0.7 else rng.randrange(9)]
                  for k in rng.sample(KEYS, rng.randrange(0, 4))]}


def g_dictvalue_upd(rng, cur, bad=0.08, inner_ok=True):
    ks = [k for k, _ in cur['d']] if isinstance(cur, dict) and 'd' in cur else []
    live = list(ks)
    out = []
    parts = rng.sample(['_add', '_delete', 'inner', 'inner2'] if inner_ok else ['_add', '_delete'],
                       rng.randrange(0, 4 if inner_ok else 3))
    for p in parts:
        if p == '_add':
            items = []
            for _ in range(rng.randrange(0, 3)):
                k = rng.choice(KEYS + ['e'])
                items.append({'d': [['key', k], ['state', g_plain(rng, 1)]]})
                if k not in live:
                    live.append(k)
            if rng.random() < bad:
                items.append({'d': [['key', 'q']]})
            out.append(['_add', {'l': items}])
        elif p == '_delete':
            dl = []
            for _ in range(rng.randrange(0, 3)):
                if live and rng.random() > bad:
                    k = rng.choice(live)
                    live.remove(k)
                    dl.append(k)
                else:
                    dl.append('zz')
            out.append(['_delete', {'l': dl}])
        else:
            # keys added by this very update are not updated again: update_dictionary keeps the
            # caller's `state` object and would mutate it (candidate finding, notes/C08.md)
            added = [dict(i['d']).get('key') for o in out if o[0] == '_add' for i in o[1]['l']]
            cand = [k for k in live if k not in [o[0] for o in out] and k in ks and k not in added]
            if cand and rng.random() > bad:
                k = rng.choice(cand)
                out.append([k, g_dict(rng, 1)])
            elif 'zz' not in [o[0] for o in out]:
                out.append(['zz', g_dict(rng, 1)])
    return {'d': out}


FAMILIES = ['int', 'flt', 'arr', 'qty', 'str', 'list', 'dict', 'dictvalue', 'any']


def g_value(rng, fam, like=None):
    if fam == 'int':
        return g_int(rng)
    if fam == 'flt':   # floats stay exact: only small ints are mixed with them
        return g_flt(rng) if rng.random() < 0.7 else rng.randrange(-1000, 1000)
    if fam == 'arr':
        if like is not None and tag_of(like) == '__arr__' and rng.random() < 0.8:
            return g_arr(rng, len(like['l']) - 1)
        return g_arr(rng) if rng.random() < 0.8 else rng.randrange(-5, 5)
    if fam == 'qty':
        mu = like['l'][2] if like is not None and tag_of(like) == '__qty__' else 'mm'
        return g_qty(rng, mu)
    if fam == 'str':
        return rng.choice(['', 'ab', 'X', 'yz'])
    if fam == 'list':
        return {'l': [rng.randrange(10) for _ in range(rng.randrange(0, 4))]}
    if fam == 'dict':
        return g_dict_like(rng, like) if like is not None and isinstance(like, dict) and 'd' in like \
            else g_dict(rng)
    if fam == 'dictvalue':
        return g_dictvalue_upd(rng, like) if like is not None else g_dictvalue_cur(rng)
    return g_plain(rng)


FAM_OF_UPDATER = {
    'accumulate': ['int', 'int', 'flt', 'arr', 'qty', 'str', 'list'],
    'nonnegative_accumulate': ['int', 'int', 'flt', 'arr', 'qty'],
    'merge': ['dict'],
    'dict_value': ['dictvalue'],
    'set': ['int', 'any', 'dict', 'qty'],
    'null': ['int', 'any', 'dict'],
}
SAFE_MIX = ['none', 'int', 'bool', 'str', 'list', 'dict']


def g_mix(rng, k):
    return {'none': None, 'int': rng.randrange(-5, 9), 'bool': rng.random() < 0.5,
            'str': rng.choice(['', 'ab']), 'list': {'l': [1] * rng.randrange(0, 3)},
            'dict': g_dict(rng, 1)}[k]


def gen_fn_case(rng):
    name = rng.choice(UPDATERS)
    if rng.random() < 0.12:   # malformed stream: arbitrary mixes of the plain types
        return {'kind': 'fn', 'name': name, 'cur': g_mix(rng, rng.choice(SAFE_MIX)),
                'new': g_mix(rng, rng.choice(SAFE_MIX))}
    fam = rng.choice(FAM_OF_UPDATER[name])
    cur = g_value(rng, fam)
    if fam == 'dictvalue':
        new = g_dictvalue_upd(rng, cur)
    elif fam == 'qty':
        new = g_qty(rng, cur['l'][2])
    else:
        new = g_value(rng, fam, like=cur)
    return {'kind': 'fn', 'name': name, 'cur': cur, 'new': new}


def gen_leaf_cfg(rng):
    r = rng.random()
    if r < 0.3:
        upd = None
    elif r < 0.9:
        upd = rng.choice(UPDATERS)
    elif r < 0.95:
        upd = {'l': ['__fn__', rng.choice(['sub', 'keep_max', 'second'])]}
    else:
        upd = 'bogus'
    eff = upd if isinstance(upd, str) and upd in FAM_OF_UPDATER else 'accumulate'
    if isinstance(upd, dict):
        fam = 'int'
    else:
        fam = rng.choice(FAM_OF_UPDATER[eff])
    if fam == 'qty':
        default = {'l': ['__qty__', rng.randrange(-10, 50), rng.choice(['mm', 'mm', 'cm'])]}
    elif fam == 'dictvalue':
        default = g_dictvalue_cur(rng)
    elif fam == 'any' and rng.random() < 0.3:
        default = None
    else:
        default = g_value(rng, fam)
    kvs = [['_default', default]]
    if upd is not None:
        kvs.append(['_updater', upd])
    if fam == 'qty' and rng.random() < 0.45:
        # declared units, independent of the unit the default happens to be written in
        # (the finest unit of the table, so that every conversion stays an exact integer)
        kvs.append(['_units', rng.choice(['mm', default['l'][2]])])
    if rng.random() < 0.15:
        kvs.append(['_divider', rng.choice(['split', 'set', 'zero'])])
    rng.shuffle(kvs)
    return {'d': kvs}, fam


def gen_cfg(rng, depth):
    n = rng.randrange(1, 4)
    kvs = []
    for k in rng.sample(KEYS, n):
        if depth > 1 and rng.random() < 0.4:
            kvs.append([k, gen_cfg(rng, depth - 1)[0]])
        else:
            kvs.append([k, gen_leaf_cfg(rng)[0]])
    return {'d': kvs}, None


def leaf_family(cfg):
    d = _dget(cfg, '_default')
    t = tag_of(d)
    u = _dget(cfg, '_updater')
    if isinstance(u, str) and u == 'dict_value':
        return 'dictvalue'
    if t:
        return t.strip('_')
    if isinstance(d, dict) and 'd' in d:
        return 'dict'
    if isinstance(d, dict) and 'l' in d:
        return 'list'
    if isinstance(d, str):
        return 'str'
    if isinstance(d, (int, bool)):
        return 'int'
    return 'any'


def gen_leaf_update(rng, cfg, cur):
    fam = leaf_family(cfg)
    r = rng.random()
    if fam == 'dictvalue' and r < 0.12:
        # candidate finding (notes/C08.md): `set` stores the caller's `_value` object and a later
        # dict_value update of the same variable mutates it; not generated
        r = 0.5
    if r < 0.12:     # carried updater with a value
        name = rng.choice(['set', 'accumulate', 'null', 'nonnegative_accumulate', 'merge', '_default',
                           'bogus'] if rng.random() < 0.8 or fam != 'int' else
                          [{'l': ['__fn__', rng.choice(['sub', 'second'])]}])
        kvs = [['_updater', name]]
        if rng.random() < 0.8:
            kvs.append(['_value', g_value(rng, fam if fam != 'dictvalue' else 'dict', like=cur)])
        rng.shuffle(kvs)
        return {'d': kvs}
    if fam in ('arr', 'qty') and 0.12 <= r < 0.15:
        r = 0.5      # numpy / pint coerce foreign operands in ways outside the model
    if r < 0.15:     # malformed: `_value` without `_updater`, or a foreign type
        return rng.choice([{'d': [['_value', 3]]}, None, 'oops', {'l': []}, g_dict(rng, 1)])
    return g_value(rng, fam, like=cur)


def gen_update(rng, cfg, value, depth=0, later=False):
    """an update for the subtree: mentions a subset of the variables; `later` = it follows another
    update of the same variables within one batch"""
    if (cfg_is_leaf(cfg) or not cfg['d']) and later and leaf_family(cfg) == 'dictvalue':
        # no inner update after a possible `_add` earlier in the batch (candidate finding)
        return g_dictvalue_upd(rng, {'d': []}, inner_ok=False)
    if cfg_is_leaf(cfg) or not cfg['d']:
        n = rng.choice([1, 1, 1, 2, 3, 4])
        if n == 1 and rng.random() < 0.9:
            return gen_leaf_update(rng, cfg, value)
        if leaf_family(cfg) == 'dictvalue':
            # later elements only add/delete: an inner update after an `_add` would mutate the
            # caller's `state` object (candidate finding, notes/C08.md)
            us = [g_dictvalue_upd(rng, value) if value is not None else {'d': []}]
            us += [g_dictvalue_upd(rng, {'d': []}, inner_ok=False) for _ in range(n - 1)]
            return {'d': [['_multi_update', {'l': us}]]}
        return {'d': [['_multi_update', {'l': [gen_leaf_update(rng, cfg, value) for _ in range(n)]}]]}
    kvs = []
    for k, sub in cfg['d']:
        if rng.random() < 0.65:
            cv = _dget(value, k) if isinstance(value, dict) and 'd' in value else None
            kvs.append([k, gen_update(rng, sub, cv, depth + 1, later)])
    if rng.random() < 0.15:
        kvs.append(['nokey', rng.randrange(5)])
    if rng.random() < 0.15:
        kvs.append([rng.choice(['_add', '_delete', '_generate', '_move']), {'l': []}])
    rng.shuffle(kvs)
    u = {'d': kvs}
    if depth > 0 and rng.random() < 0.08:
        return {'d': [['_multi_update', {'l': [u, gen_update(rng, cfg, value, depth + 5, True)]}]]}
    if depth > 0 and rng.random() < 0.03:
        return rng.choice([7, None, 'str'])
    return u


def default_value(cfg):
    if cfg_is_leaf(cfg):
        return _dget(cfg, '_default')
    return {'d': [[k, default_value(v)] for k, v in cfg['d']]}


def gen_store_case(rng):
    cfg, _ = gen_cfg(rng, rng.choice([1, 2, 2, 3]))
    value = default_value(cfg)
    steps = [{'update': gen_update(rng, cfg, value)} for _ in range(rng.choice([1, 1, 2, 3]))]
    kind = 'direct' if rng.random() < 0.7 else 'generate'
    return {'kind': 'store', 'build': kind, 'config': cfg, 'steps': steps}


def generate(rng, n, tier):
    cases = []
    for _ in range(n):
        cases.append(gen_fn_case(rng) if rng.random() < 0.4 else gen_store_case(rng))
    return cases


def corpus():
    c = [
        {'kind': 'names'},
        # F6 witness (pre-fix: {'a': None, 'b': 3})
        {'kind': 'fn', 'name': 'merge', 'cur': E({'a': 1, 'b': 2}), 'new': E({'b': 3, 'c': 4})},
        {'kind': 'fn', 'name': 'merge', 'cur': E({'a': {'x': 1, 'y': {'z': 1}}, 'b': 2}),
         'new': E({'a': {'y': {'w': 2}}, 'd': {}})},
        {'kind': 'store', 'build': 'direct',
         'config': E({'m': {'_default': {'a': 1, 'b': 2}, '_updater': 'merge'}, 'n': {'_default': 5}}),
         'steps': [{'update': E({'m': {'b': 3, 'c': 4}})}]},
        # precedence and multi-update order
        {'kind': 'store', 'build': 'direct',
         'config': E({'a': {'_default': 1, '_updater': 'null'}, 'b': {'_default': 2}}),
         'steps': [{'update': E({'a': {'_multi_update': [5, {'_updater': 'set', '_value': 10},
                                                          {'_updater': 'accumulate', '_value': 1},
                                                          {'_updater': 'set'}]}})}]},
        {'kind': 'store', 'build': 'generate',
         'config': E({'a': {'x': {'_default': 3, '_updater': 'nonnegative_accumulate'}},
                      'b': {'_default': 7, '_updater': 'set'}}),
         'steps': [{'update': E({'a': {'x': {'_multi_update': [-5, 2]}}, 'b': 1, '_delete': []})}]},
        # units: declared mm, updates in cm and m
        {'kind': 'store', 'build': 'direct',
         'config': {'d': [['q', {'d': [['_default', {'l': ['__qty__', 5, 'mm']}]]}],
                          ['s', {'d': [['_default', {'l': ['__qty__', 1, 'mm']}], ['_updater', 'set']]}]]},
         'steps': [{'update': {'d': [['q', {'l': ['__qty__', 2, 'cm']}], ['s', {'l': ['__qty__', 3, 'm']}]]}}]},
        {'kind': 'fn', 'name': 'nonnegative_accumulate', 'cur': {'l': ['__arr__', 1, 2, 3]},
         'new': {'l': ['__arr__', -5, 0, -3]}},
        {'kind': 'fn', 'name': 'dict_value', 'cur': E({'a': {'x': 1}, 'b': 2}),
         'new': E({'_add': [{'key': 'c', 'state': 5}], 'a': {'y': 2}, '_delete': ['b']})},
        {'kind': 'fn', 'name': 'accumulate', 'cur': 2 ** 70, 'new': -(2 ** 70) - 1},
    ]
    return c


# ------------------------------------------------------------------ implementation side

def _cfg_to_procs(cfg):
    """the same schema declared by one process at the root: one port per top-level key"""
    topo = {'d': [[k, {'l': [k]}] for k, _ in cfg['d']]}
    return {'d': [['proc', {'d': [['__proc__', {'d': [['pid', 'p0'], ['ports', cfg], ['topo', topo]]}]]}]]}


def _build_desc(case):
    if case['build'] == 'direct':
        return {'kind': 'direct', 'config': case['config'], 'init': None}
    return {'kind': 'generate', 'procs': _cfg_to_procs(case['config']), 'init': {'d': []}}


def _strip_proc(j):
    if isinstance(j, dict) and 'd' in j:
        return {'d': [[k, v] for k, v in j['d'] if k != 'proc']}
    return j


def run_impl(case):
    from vivarium.core.registry import updater_registry, divider_registry
    kind = case['kind']
    if kind == 'names':
        return {'obs': {'updaters': sorted([k, f.__name__] for k, f in updater_registry.registry.items()),
                        'dividers': sorted([k, f.__name__] for k, f in divider_registry.registry.items())},
                'fails': []}
    fails = []
    if kind == 'fn':
        f = updater_registry.access(case['name'])
        cur, new = dec2(case['cur']), dec2(case['new'])
        new_before = enc2(new)
        try:
            res = {'ok': enc2(f(cur, new))}
        except Exception as e:  # noqa
            res = {'err': 'err'}
        if case['name'] not in ('dict_value',) and enc2(new) != new_before:
            fails.append('update-mutated: the updater changed its update argument')
        # laws of the property on the implementation
        try:
            exp = SPEC[case['name']](case['cur'], case['new'])
        except NoSpec:
            exp = _MISSING
        except Exception:
            exp = _MISSING
        if exp is not _MISSING:
            if 'err' in res:
                fails.append(f"updater-law: {case['name']} rejected an update in its domain")
            elif norm_bool(canon(res['ok'])) != norm_bool(canon(exp)):
                fails.append(f"updater-law: {case['name']}({_short(case['cur'])}, {_short(case['new'])})"
                             f" = {_short(res['ok'])}, the law gives {_short(exp)}")
        return {'obs': res, 'fails': fails}
    # store
    store = _reg.build_store(_build_desc(case))
    obs = [{'ok': _strip_proc(enc2(store.get_value()))}]
    for step in case['steps']:
        upd = _reg.dec_update(step['update'])
        keep = copy.deepcopy(upd)
        before = obs[-1]['ok']
        try:
            store.apply_update(upd)
            after = _strip_proc(enc2(store.get_value()))
            obs.append({'ok': after})
        except Exception as e:  # noqa
            obs.append({'err': exc_name(e)})
            after = None
        if enc2(upd) != enc2(keep):
            fails.append('update-mutated: apply_update changed the update object handed in')
        touched = set()
        try:
            exp = spec_tree(case['config'], before, step['update'], touched)
        except NoSpec:
            exp = None
        except Exception:
            exp = None
        if after is None:
            if exp is not None and not _has_missing(exp):
                fails.append('leaf-law: apply_update rejected a batch every part of which is in the '
                             'updaters\' domains')
            break
        if exp is None:
            # top-level not in the laws' domain: nothing to say
            continue
        d = tree_diff(exp, after)
        if d:
            fails.append('leaf-law: ' + d)
    return {'obs': obs, 'fails': fails}


def _has_missing(x):
    if x is _MISSING:
        return True
    if isinstance(x, dict):
        return any(_has_missing(v) for v in x.values())
    if isinstance(x, list):
        return any(_has_missing(v) for v in x)
    return False


# ------------------------------------------------------------------ model side

def model_requests(case):
    k = case['kind']
    if k == 'names':
        return [{'op': 'tables'}]
    if k == 'fn':
        return [{'op': 'fn_upd', 'name': case['name'], 'cur': case['cur'], 'new': case['new'],
                 'conv': CONV}]
    return [{'op': 'script', 'build': _build_desc(case), 'steps': case['steps'], 'conv': CONV}]


def model_obs(case, ans):
    k = case['kind']
    if k == 'names':
        a = ans[0]
        if not (a.get('updatersModelled') and a.get('dividersModelled')):
            return {'updaters': 'unmodelled entry', 'dividers': 'unmodelled entry'}
        return {'updaters': sorted(a['updaters']), 'dividers': sorted(a['dividers'])}
    if k == 'fn':
        a = ans[0]
        if 'err' in a:
            return {'err': 'err'}
        return a
    out = []
    for a in ans[0]:
        out.append({'ok': _strip_proc(a['ok'])} if 'ok' in a else a)
    return out


def compare(case, impl, model):
    io = impl.get('obs') if isinstance(impl, dict) else None
    if io is None:
        return f'implementation probe failed: {_short(impl)}'
    if norm_bool(canon(io)) != norm_bool(canon(model)):
        if isinstance(io, list) and isinstance(model, list):
            for i, (a, b) in enumerate(zip(io, model)):
                if norm_bool(canon(a)) != norm_bool(canon(b)):
                    return f'step {i}: impl={_short(a)} model={_short(b)}'
            return f'lengths differ: impl={len(io)} model={len(model)}'
        return f'impl={_short(io)} model={_short(model)}'
    return None


def _short(x):
    import json
    s = json.dumps(x, default=str)
    return s if len(s) < 400 else s[:400] + '…'


def oracle(case, impl):
    if not isinstance(impl, dict) or 'fails' not in impl:
        return [f'probe-crashed: {_short(impl)}']
    return impl['fails']


def nontrivial(case, impl):
    if case['kind'] == 'fn':
        o = impl.get('obs', {})
        return 'ok' in o and o['ok'] != case['cur'] and o['ok'] != case['new']
    if case['kind'] == 'store':
        return any(_count_leaves(s['update']) >= 2 for s in case['steps'])
    return False


def _count_leaves(u):
    if isinstance(u, dict) and 'd' in u:
        n = 0
        for k, v in u['d']:
            if k == '_multi_update' and isinstance(v, dict) and 'l' in v:
                n += len(v['l']) + 1
            elif k in ('_updater', '_value'):
                return 1
            else:
                n += _count_leaves(v)
        return n
    return 1


def classify(case, failure):
    return None


def stats(results):
    from collections import Counter
    kinds = Counter(r['case']['kind'] for r in results)
    upd = Counter(r['case']['name'] for r in results if r['case']['kind'] == 'fn')
    fn_err = sum(1 for r in results if r['case']['kind'] == 'fn' and isinstance(r['impl'], dict)
                 and 'err' in (r['impl'].get('obs') or {}))
    st_err = sum(1 for r in results if r['case']['kind'] == 'store' and isinstance(r['impl'], dict)
                 and any('err' in o for o in (r['impl'].get('obs') or [])))
    multi = sum(1 for r in results if r['case']['kind'] == 'store'
                and '_multi_update' in _short(r['case']['steps']))
    carried = sum(1 for r in results if r['case']['kind'] == 'store'
                  and '"_updater"' in _short([s['update'] for s in r['case']['steps']]))
    builds = Counter(r['case'].get('build') for r in results if r['case']['kind'] == 'store')
    return {'kinds': dict(kinds), 'fn_by_updater': dict(upd), 'fn_error_results': fn_err,
            'store_batches_rejected': st_err, 'store_cases_with_multi_update': multi,
            'store_cases_with_carried_updater': carried, 'store_builds': dict(builds)}


def shrink(case):
    if case['kind'] != 'store':
        return
    steps = case['steps']
    for i in range(len(steps)):
        if len(steps) > 1:
            c = dict(case)
            c['steps'] = steps[:i] + steps[i + 1:]
            yield c
    for i, st in enumerate(steps):
        u = st['update']
        if isinstance(u, dict) and 'd' in u:
            for j in range(len(u['d'])):
                c = dict(case)
                c['steps'] = [dict(s) for s in steps]
                c['steps'][i] = {'update': {'d': u['d'][:j] + u['d'][j + 1:]}}
                yield c


LEVEL_TEXT = ('Lean 4 theorems over the model of registry.py / Store.apply_update, for all values and all '
              'stores: the leaf holds f(v, u\') with f chosen carried > declared > accumulate; a '
              '_multi_update is the left fold in list order; variables not mentioned keep their value '
              '(tree frame); a variable with declared units holds a quantity in those units after every '
              'successful update, for every conversion function; per-updater laws (set, null, accumulate, '
              'nonnegative_accumulate pointwise, merge keys/lookup, dict_value add/delete/inner); every '
              'registered updater name is modelled (decide over the generated table).')
LEVEL_NOTE = ('Trusted: Lean kernel; axioms within {propext, Classical.choice, Quot.sound}; the hand-written '
              'model, validated against the real functions and real Store objects on every run; numpy/pint '
              'arithmetic is modelled on ints/dyadics. "The update object is not modified" is checked on '
              'the implementation only (deep comparison before/after).')
TECHNIQUE = 'Lean 4 proof (induction over update/store) + model/code correspondence (differential) + spec oracle'


# the update object handed in is not modified — also when several ports of the process reach one node and the
# process returns the same object from every call (F35)
from harness import reuseupd as _ru                     # noqa: E402
from harness.mixins import add_family as _add_family    # noqa: E402
_add_family(globals(), _ru, 'reuseupd', _ru.oracle, share=0.02)
from harness import onceset as _os                      # noqa: E402
_add_family(globals(), _os, 'onceset', _os.oracle, share=0.02)
# the `_divide` update handed in is not modified (F43)
from harness import composerdiv as _cdv                 # noqa: E402
_add_family(globals(), _cdv, 'composerdiv', _cdv.oracle, share=0.01)
# the updater one instance's override names is that instance's alone (processes sharing a schema object)
from harness import schemaleak as _sl                   # noqa: E402
_add_family(globals(), _sl, 'schemaleak', lambda case, impl: _sl.oracle(case, impl, who=('values',)), share=0.01)


# several ports on one node, falsy updates among them
from harness import falsymulti as _fm                   # noqa: E402
_add_family(globals(), _fm, 'falsymulti', _fm.oracle, share=0.04)


# a default that is a list of quantities gives the variable its units, whatever the length of the list
from harness import listunits as _lu                    # noqa: E402
_add_family(globals(), _lu, 'listunits', _lu.oracle, share=0.02)
