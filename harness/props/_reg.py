"""Shared by c08.py / c11.py: value encoding with the tags of VivModel/Registry.lean, the user
functions mirrored in Drivers/Registry.lean, a configurable Process class and store builders.

Tagged lists (first element a reserved string):  ["__arr__", ints…] numpy int array,
["__qty__", magnitude, unit] pint quantity (integer magnitude), ["__flt__", n, e] the float n/2^e,
["__fn__", name] a user callable.  A process shows as {"__proc__": pid}."""
import copy
import math

CONV = [['cm', 'mm', 10], ['m', 'mm', 1000], ['m', 'cm', 100]]
UNIT_NAMES = {'millimeter': 'mm', 'centimeter': 'cm', 'meter': 'm'}
UNIT_ORDER = ['mm', 'cm', 'm']


# --------------------------------------------------------------------------- user functions

def upd_sub(cur, new):
    return cur - new


def upd_keep_max(cur, new):
    return cur if cur >= new else new


def upd_second(cur, new):
    return new


USER_UPD = {'sub': upd_sub, 'keep_max': upd_keep_max, 'second': upd_second}


def div_frac(value, config):
    a = (value * config['num']) // config['den']
    return [a, value - a]


def div_with_state(value, state):
    return [value + state['other'], value - state['other']]


def div_count_state(value, state):
    n = len(state)
    names = sum(len(k) for k in state)
    return [value + n + 10 * names, value - n]


def div_skip(value):
    return None


USER_DIV = {'frac': div_frac, 'with_state': div_with_state, 'count_state': div_count_state, 'skip': div_skip}
_FN_NAMES = {id(f): n for n, f in list(USER_UPD.items()) + list(USER_DIV.items())}


def _fn_name(f):
    for table in (USER_UPD, USER_DIV):
        for n, g in table.items():
            if g is f or getattr(f, '__name__', None) == g.__name__:
                return n
    return None


# --------------------------------------------------------------------------- encoding

def enc2(v):
    import numpy as np
    from pint import Quantity
    from vivarium.core.process import Process
    if v is None or isinstance(v, (bool, str)):
        return v
    if isinstance(v, (int, np.integer)):
        return int(v)
    if isinstance(v, (float, np.floating)):
        f = float(v)
        if math.isinf(f) or math.isnan(f):
            return {'opaque': repr(f)}
        n, d = f.as_integer_ratio()
        return {'l': ['__flt__', n, d.bit_length() - 1]}
    if isinstance(v, np.ndarray):
        if v.ndim == 1 and v.dtype.kind in 'iub':
            return {'l': ['__arr__'] + [int(x) for x in v]}
        return {'opaque': repr(v)}
    if isinstance(v, Quantity):
        m = v.magnitude
        u = UNIT_NAMES.get(str(v.units))
        if u is not None and not isinstance(m, np.ndarray) and float(m) == int(m):
            return {'l': ['__qty__', int(m), u]}
        return {'opaque': repr(v)}
    if isinstance(v, Process):
        return {'d': [['__proc__', v.parameters.get('pid', type(v).__name__)]]}
    if isinstance(v, tuple) and len(v) == 2 and isinstance(v[0], Process):
        return enc2(v[0])
    if isinstance(v, (list, tuple)):
        return {'l': [enc2(x) for x in v]}
    if isinstance(v, dict):
        return {'d': [[k if isinstance(k, str) else repr(k), enc2(x)] for k, x in v.items()]}
    if callable(v):
        n = _fn_name(v)
        if n:
            return {'l': ['__fn__', n]}
    return {'opaque': repr(v)}


def dec2(j, tuples=False):
    """encoded value -> Python object (fresh objects on every call)"""
    if j is None or isinstance(j, (bool, str, int)):
        return j
    if isinstance(j, dict):
        if 'l' in j:
            xs = j['l']
            if xs and isinstance(xs[0], str) and xs[0].startswith('__'):
                tag = xs[0]
                if tag == '__arr__':
                    import numpy as np
                    return np.array([int(x) for x in xs[1:]], dtype=np.int64)
                if tag == '__qty__':
                    from vivarium.library.units import units
                    return int(xs[1]) * getattr(units, xs[2])
                if tag == '__flt__':
                    return float(xs[1]) / float(2 ** xs[2])
                if tag == '__fn__':
                    return USER_UPD.get(xs[1]) or USER_DIV[xs[1]]
            r = [dec2(x) for x in xs]
            return tuple(r) if tuples else r
        if 'd' in j:
            return {k: dec2(x) for k, x in j['d']}
    raise ValueError(f'cannot decode {j!r}')


def dec_schema(j):
    """a schema config: like dec2, with `_units` as a pint unit and divider topologies as tuples"""
    if isinstance(j, dict) and 'd' in j:
        out = {}
        for k, x in j['d']:
            if k == '_units' and isinstance(x, str):
                from vivarium.library.units import units
                out[k] = getattr(units, x)
            elif k == '_divider' and isinstance(x, dict) and 'd' in x:
                d = {}
                for kk, xx in x['d']:
                    if kk == 'topology' and isinstance(xx, dict) and 'd' in xx:
                        d[kk] = {p: dec2(path, tuples=True) for p, path in xx['d']}
                    else:
                        d[kk] = dec2(xx)
                out[k] = d
            elif k in ('_default', '_value', '_updater'):
                out[k] = dec2(x)
            else:
                out[k] = dec_schema(x)
        return out
    return dec2(j)


def D(**kw):
    """small helper to write encoded dicts: D(a=1) -> {'d': [['a', 1]]}"""
    return {'d': [[k, v] for k, v in kw.items()]}


def E(pyobj):
    """encode a plain Python literal (dict/list/int/str/None/bool) at case-construction time"""
    if pyobj is None or isinstance(pyobj, (bool, str, int)):
        return pyobj
    if isinstance(pyobj, (list, tuple)):
        return {'l': [E(x) for x in pyobj]}
    if isinstance(pyobj, dict):
        return {'d': [[k, E(v)] for k, v in pyobj.items()]}
    raise ValueError(pyobj)


def P(j):
    """encoded -> plain Python literal *without* interpreting tags (for oracles on encodings)"""
    if isinstance(j, dict):
        if 'l' in j:
            return [P(x) for x in j['l']]
        if 'd' in j:
            return {k: P(x) for k, x in j['d']}
    return j


def tag_of(j):
    if isinstance(j, dict) and 'l' in j and j['l'] and isinstance(j['l'][0], str) \
            and j['l'][0].startswith('__'):
        return j['l'][0]
    return None


def has_opaque(j):
    if isinstance(j, dict):
        if 'opaque' in j:
            return True
        return any(has_opaque(x) for x in j.values())
    if isinstance(j, list):
        return any(has_opaque(x) for x in j)
    return False


# --------------------------------------------------------------------------- processes

_PROC_CLASS = None


def proc_class():
    """a Process whose ports schema is given (encoded) in its parameters; picklable/deep-copyable"""
    global _PROC_CLASS
    if _PROC_CLASS is None:
        from vivarium.core.process import Process

        class RegProc(Process):
            defaults = {'pid': 'p', 'ports': {'d': []}}

            def ports_schema(self):
                return dec_schema(self.parameters['ports'])

            def next_update(self, timestep, states):
                return {}

        _PROC_CLASS = RegProc
    return _PROC_CLASS


_STEP_CLASS = None


def step_class():
    """the same as a Step (every other process of a generated compartment is a step: `get_steps()` side of an
    inheriting division)"""
    global _STEP_CLASS
    if _STEP_CLASS is None:
        from vivarium.core.process import Step

        class RegStep(Step):
            defaults = {'pid': 'p', 'ports': {'d': []}}

            def ports_schema(self):
                return dec_schema(self.parameters['ports'])

            def next_update(self, timestep, states):
                return {}

        _STEP_CLASS = RegStep
    return _STEP_CLASS


def build_procs(j):
    """encoded process tree (leaves {"__proc__": {pid, ports, topo}}) -> (processes, topology)"""
    procs, topo = {}, {}
    for k, v in j['d']:
        inner = dict((kk, vv) for kk, vv in v['d']) if isinstance(v, dict) and 'd' in v else {}
        if list(inner.keys()) == ['__proc__']:
            spec = dict(inner['__proc__']['d'])
            cls = step_class() if str(spec['pid'])[-1:] in '13579' else proc_class()
            procs[k] = cls({'pid': spec['pid'], 'ports': spec['ports']})
            topo[k] = {p: dec2(path, tuples=True) for p, path in spec['topo']['d']}
        else:
            procs[k], topo[k] = build_procs(v)
    return procs, topo


def build_store(build):
    from vivarium.core.store import Store, generate_state
    if build['kind'] == 'direct':
        s = Store(dec_schema(build['config']))
        s.apply_defaults()
        if build.get('init') is not None:
            s.set_value(dec2(build['init']))
        return s
    procs, topo = build_procs(build['procs'])
    init = dec2(build['init']) if build.get('init') is not None else {}
    return generate_state(procs, topo, init)


def dec_update(j):
    """an update: like dec2 but a `_divide` entry gets real processes/topology"""
    if isinstance(j, dict) and 'd' in j:
        out = {}
        for k, x in j['d']:
            if k == '_divide':
                dv = {}
                for kk, xx in x['d']:
                    if kk == 'daughters':
                        ds = []
                        for dj in xx['l']:
                            dd = {}
                            for k3, x3 in dj['d']:
                                if k3 == 'processes':
                                    dd['processes'], dd['topology'] = build_procs(x3)
                                else:
                                    dd[k3] = dec2(x3)
                            ds.append(dd)
                        dv[kk] = ds
                    else:
                        dv[kk] = dec2(xx)
                out[k] = dv
            elif k == '_multi_update':
                out[k] = [dec_update(u) for u in x['l']] if isinstance(x, dict) and 'l' in x else dec2(x)
            elif k in ('_value', '_updater'):
                out[k] = dec2(x)
            else:
                out[k] = dec_update(x)
        return out
    return dec2(j)
