"""C14 — serialization round-trips every emittable value and yields plain JSON data.

Correspondence: real `serialize_value` / `deserialize_value` / `find_numpy_and_non_strings` /
`UnitsSerializer` regex / `RAMEmitter` vs `VivModel/Serialize.lean`.
Oracle: the property statement evaluated on the implementation alone (plainness, idempotence,
TypeError on the malformed stream, structure, round trip), by walking the case's value tree."""
import json
import math
import re

from harness.val import exc_name

PROP = 'C14'
LEAN_TARGETS = ['VivProps.C14']
DRIVER = 'Serialize'
REQUIRED_THEOREMS = [
    'plain', 'idempotent', 'rejects', 'accepts', 'keeps_structure', 'roundtrip_partial',
    'plain_unchanged', 'plain_roundtrip_exact', 'hook_coherent', 'regex_source_is_modelled',
    'dispatch_unique', 'tag_match_iff', 'bare_unit_nan_prefix_roundtrips', 'nan_reciprocal_unit_roundtrips', 'token_pint_ok', 'badkeys_sound',
]
ANCHORS = [
    ('vivarium/core/serialize.py', [
        'find_numpy_and_non_strings', 'serialize_value', 'deserialize_value',
        'SequenceDeserializer.can_deserialize', 'SequenceDeserializer.deserialize',
        'DictDeserializer.can_deserialize', 'DictDeserializer.deserialize',
        'NumpyFallbackSerializer.serialize', 'UnitsSerializer.__init__',
        'UnitsSerializer.serialize', 'UnitsSerializer.can_deserialize',
        'UnitsSerializer.deserialize', 'QuantitySerializer.serialize',
        'SetSerializer.serialize', 'FunctionSerializer.serialize',
        'ProcessSerializer.serialize', 'make_fallback_serializer_function']),
    ('vivarium/core/registry.py', ['Serializer.__init__', 'Serializer.can_deserialize',
                                   'Registry.register', 'Registry.access', 'Registry.list']),
    ('vivarium/core/emitter.py', ['RAMEmitter.__init__', 'RAMEmitter.emit', 'RAMEmitter.get_data',
                                  'Emitter.get_data_deserialized']),
]
BUDGET = {'quick': 4000, 'thorough': 120000}
RULE = ('cases: nested value trees (depth ≤ 5) over None/bool/int/float/str/list/tuple/set/dict/'
        'numpy scalars and arrays/quantities (scalar and 1-d array magnitudes)/units/processes/'
        'functions, ~25% of them from the malformed stream (non-string, np.str_ and str-subclass keys '
        'at depth, unsupported leaves, ints outside 64 bit, surrogate strings) and ~10% with strings '
        'that match or nearly match the !units[...] pattern; 12% go through RAMEmitter. Non-trivial: '
        'the tree has ≥ 3 nodes and a container, or is from the malformed / tag-like stream. Distinct by '
        'canonical JSON of the case.')
TRUSTED = ['pint `str(quantity)` / `units(...)` (hypotheses of the round-trip theorem; sampled)',
           'orjson number encoding (ints in 64 bit, shortest float repr; sampled as tokens)']
ASSUMPTIONS = [
    'nesting depth below orjson\'s recursion limit (254)',
    'quantity magnitudes are scalars or 1-d arrays (a 2-d array magnitude does NOT round-trip: '
    'out-of-quantifier note C, see notes/C14.md)',
    'vivarium.library.units.Quantity(...) instances (class differs from type(1 * units.fg)) are not '
    'generated: serialize_value rejects them (out-of-quantifier note D in notes/C14.md)',
]
CASE_TIMEOUT = 30.0

# --------------------------------------------------------------------------- vocabulary

KEYS = ['a', 'b', 'c', 'key', 'Ω', 'x y', '', '!units[k]', 'time2', 'd.e']
PLAIN_STRS = ['', 'a', 'test', 'hi there!', 'ünï©ode ✓', '😀', 'line\nbreak', 'tab\there', '\x00nul',
              '"quoted"', "it's", 'back\\slash', '[brackets]', ']', '[', '!', 'None', 'nan', '5 gram',
              'femtogram', '{"a": 1}', 'x' * 70]
NEAR_TAGS = ['!units[', '!units[abc', 'units[5 gram]', '!Units[5 gram]', ' !units[5 gram]',
             '!units[5 gram] ', '!units[5\ngram]', '!units[5 gram]\n', '!units5 gram]', '!unit[5 gram]',
             '!units(5 gram)', '!units[5 gram]x', 'x!units[5 gram]', '!ProcessSerializer[{}]',
             '!FunctionSerializer[<function f at 0x1>]', '!units', '!units]', '\n!units[5 gram]',
             '!units[\n]', '!units[a]\nb]']
# strings that DO match the regex; (string, token parser agrees with pint?)
TAGS = [('!units[5 gram]', True), ('!units[]', True), ('!units[nan]', True), ('!units[5]', True),
        ('!units[2.5 gram / liter]', True), ('!units[nan gram]', True), ('!units[femtogram]', True),
        ('!units[-3 count]', True), ('!units[inf gram]', True), ('!units[1e+22 gram]', True),
        ('!units[hello]', False), ('!units[a]b]', False), ('!units[]]', False), ('!units[[]', False),
        ('!units[!units[5 gram]]', False), ('!units[ ]', False), ('!units[5 gram\r]', False),
        ('!units[nanometer]', True), ('!units[nan / second]', True), ('!units[nan nanometer]', True), ('!units[\t]', False), ('!units[😀]', False)]
UNITS = ['femtogram', 'gram', 'millimolar', 'millimole', 'count', 'dimensionless', 'kelvin', 'second',
         'liter', 'femtoliter', 'micrometer', 'meter', 'hour', 'molar', 'millimole / gram / hour',
         'gram / liter ** 2', 'femtogram ** 0.5', 'count / femtoliter', 'meter * second',
         'micrometer ** 3', 'millimole / liter', 'gram * meter ** 2 / second ** 2']
NAN_UNITS = ['nanometer', 'nanogram', 'nanomolar', 'nanosecond', 'nanometer / second']
RECIP_UNITS = ['1 / second', '1 / gram / second']
INT_EDGE = [0, 1, -1, 2 ** 31, 2 ** 53 - 1, 2 ** 53, 2 ** 53 + 1, 2 ** 63 - 1, 2 ** 63, 2 ** 64 - 1,
            -2 ** 63, -2 ** 53 - 1, 123456789012345678]
INT_BAD = [2 ** 64, 2 ** 64 + 1, -2 ** 63 - 1, 2 ** 70, -2 ** 100, 10 ** 30]
FLOAT_EDGE = ['0.0', '-0.0', '1.5', '-2.25', '0.1', '1e+300', '-1e+300', '5e-324', '1e-07', '1e+16',
              '1e+22', '0.3333333333333333', '1.7976931348623157e+308', '2.2250738585072014e-308',
              '123456.789', '1e-300', '9007199254740992.0', '3.0']
NONFINITE = ['nan', 'inf', '-inf']
UNSUPPORTED = ['bytes', 'frozenset', 'complex', 'object', 'method', 'builtin', 'class', 'myfloat',
               'decimal', 'range', 'surrogate', 'bytearray', 'dict_keys', 'iterator']
HASHABLE_UNSUPPORTED = ['bytes', 'frozenset', 'complex', 'object', 'method', 'builtin', 'class',
                        'myfloat', 'decimal', 'range', 'surrogate']
BAD_KEYS = [{'o': 'int:1'}, {'o': 'int:0'}, {'o': 'tuple'}, {'o': 'none'}, {'o': 'float:1.5'},
            {'o': 'bytes'}, {'o': 'bool'}, {'o': 'frozenset'}, {'ns': '1'}, {'ns': 'bad string'},
            {'ns': 'nsa'}, {'ss': 'sub'}, {'ss': 'a2'}]
NP_INT = ['int8', 'int16', 'int32', 'int64', 'uint8', 'uint16', 'uint32', 'uint64']
NP_FLOAT = ['float64', 'float32', 'float16']
FUNCS = ['plain', 'lambda', 'nested', 'unbound']
PROC_PARAMS = [{}, {'timestep': 2.0}, {'name': 'myp'}, {'k': 3, 'z': {'q': [1, 2]}},
               {'_name': 'zz', 'timestep': 0.5}, {'s': 'x]y', 'n': None, 'b': True}]


# --------------------------------------------------------------------------- spec helpers
# A *spec* is a JSON-able description of a Python value:
#   None | bool | {"i": "5"} | {"f": repr} | {"s": str} | {"ns": str}
#   {"np": [dtype, literal]} | {"l": [...]} | {"t": [...]} | {"set": [...]}
#   {"nd": {"dtype", "shape", "data": [literals], "layout": "C"|"F"|"strided"}} (numeric / bool / str)
#   {"ndo": [specs]} (1-d object array) | {"d": [[key, spec], ...]} key = {"s"}|{"ns"}|{"ss"}|{"o": kind}
#   {"q": [magspec, unit]} | {"qa": [dtype, [literals], unit]} | {"u": unit}
#   {"p": [cls, params]} | {"fn": kind} | {"x": kind}

def _kind(spec):
    if spec is None:
        return 'none'
    if isinstance(spec, bool):
        return 'bool'
    return next(iter(spec))


def children(spec):
    k = _kind(spec)
    if k in ('l', 't', 'set', 'ndo'):
        return list(spec[k])
    if k == 'd':
        return [v for _, v in spec['d']]
    return []


def walk(spec):
    yield spec
    for c in children(spec):
        yield from walk(c)


def _np():
    import numpy as np
    return np


def _f32_token(np, x32):
    """token of a float32/float16 as orjson prints it (shortest digits for float32)"""
    return repr(float(str(np.float32(x32))))


def _num_token_for_json(np, dtype, lit):
    """(kind, token) of the JSON number orjson writes natively for a numpy scalar"""
    if dtype == 'bool_':
        return ('b', lit == 'True')
    if dtype in NP_INT:
        return ('i', str(int(lit)))
    x = getattr(np, dtype)(lit)
    if dtype == 'float64':
        return ('f', repr(float(x)))
    return ('f', _f32_token(np, x))


def _mag_token(np, magspec):
    """pint prints `format(magnitude)`: python repr of the (widened) number"""
    k = _kind(magspec)
    if k == 'i':
        return magspec['i']
    if k == 'f':
        return magspec['f']
    dtype, lit = magspec['np']
    if dtype in NP_INT:
        return str(int(lit))
    return repr(getattr(np, dtype)(lit).item())


def supported(spec):
    """does the property promise a value (True) or a TypeError (False)?"""
    for s in walk(spec):
        k = _kind(s)
        if k == 'x':
            return False
        if k == 'i' and not (-2 ** 63 <= int(s['i']) <= 2 ** 64 - 1):
            return False
        if k == 'd' and any(_kind(key) != 's' for key, _ in s['d']):
            return False
    return True


def has_matching_tag(spec):
    for s in walk(spec):
        k = _kind(s)
        if k in ('s', 'ns') and _TAG_RE.fullmatch(s[k]):
            return True
        if k == 'nd' and s['nd']['dtype'] == 'str' and any(_TAG_RE.fullmatch(x) for x in s['nd']['data']):
            return True
    return False


_TAG_RE = re.compile('!units\\[(.*)\\]')   # only used to label generated cases, never as the oracle


# --------------------------------------------------------------------------- to the model's encoding

def to_model(spec, ctx):
    """spec -> driver encoding of PVal.  ctx collects placeholders for process / function reprs."""
    np = _np()
    k = _kind(spec)
    if k in ('none', 'bool'):
        return spec
    if k in ('i', 'f', 's', 'ns'):
        return spec
    if k == 'np':
        kind, tok = _num_token_for_json(np, *spec['np'])
        return {'nb': tok} if kind == 'b' else ({'ni': tok} if kind == 'i' else {'nf': tok})
    if k in ('l', 't', 'set'):
        return {k: [to_model(c, ctx) for c in spec[k]]}
    if k == 'ndo':
        return {'nd': [to_model(c, ctx) for c in spec['ndo']]}
    if k == 'nd':
        return {'nd': _nd_model(np, spec['nd'])}
    if k == 'd':
        return {'d': [[key, to_model(v, ctx)] for key, v in spec['d']]}
    if k == 'q':
        return {'q': [_mag_token(np, spec['q'][0]), spec['q'][1]]}
    if k == 'qa':
        dtype, lits, unit = spec['qa']
        return {'qa': [[_mag_token(np, {'np': [dtype, l]}) for l in lits], unit]}
    if k == 'u':
        return spec
    if k == 'p':
        ph = f'<<P{len(ctx)}>>'
        ctx.append(ph)
        return {'p': ph}
    if k == 'fn':
        ph = f'<<F{len(ctx)}>>'
        ctx.append(ph)
        return {'fn': ph}
    if k == 'x':
        return {'x': spec['x']}
    raise ValueError(spec)


def _nd_model(np, nd):
    """nested `tolist()` view with the tokens of the path the array takes (native or fallback)"""
    arr = _nd_build(np, nd)
    dtype = nd['dtype']
    native = bool(arr.flags['C_CONTIGUOUS']) and dtype != 'str'

    def leaf(x):
        if dtype == 'str':
            return {'s': str(x)}
        if dtype == 'bool_':
            return bool(x)
        if dtype in NP_INT:
            return {'i': str(int(x))}
        if dtype == 'float64' or not native:
            return {'f': repr(float(x))}       # tolist() widens to a python float
        return {'f': _f32_token(np, x)}

    def rec(a):
        if a.ndim == 0:
            return leaf(a[()])
        return [rec(a[i]) if a.ndim > 1 else leaf(a[i]) for i in range(a.shape[0])]

    def wrap(x):
        return {'l': [wrap(y) for y in x]} if isinstance(x, list) else x
    top = rec(arr)
    return [wrap(y) for y in top]


def _nd_build(np, nd):
    dtype = nd['dtype']
    shape = tuple(nd['shape'])
    data = nd['data']
    if dtype == 'str':
        flat = np.array(data, dtype=str) if data else np.array([], dtype='<U1')
    elif dtype == 'bool_':
        flat = np.array([d == 'True' for d in data], dtype=bool)
    elif dtype in NP_INT:
        flat = np.array([int(d) for d in data], dtype=dtype)
    else:
        flat = np.array([float(d) for d in data], dtype=dtype)
    layout = nd.get('layout', 'C')
    if layout == 'strided' and shape and shape[-1] > 0:
        arr = flat.reshape(shape)
        big = np.zeros(shape[:-1] + (shape[-1] * 2,), dtype=flat.dtype)
        big[..., ::2] = arr
        return big[..., ::2]
    arr = flat.reshape(shape)
    if layout == 'F' and len(shape) >= 2:
        arr = np.asfortranarray(arr)
    return arr


# --------------------------------------------------------------------------- building real values

class _Env:
    """lazily imported implementation objects (worker side only)"""
    _inst = None

    def __init__(self):
        import warnings
        warnings.filterwarnings('ignore')
        import numpy as np
        import decimal
        from vivarium.core import serialize as S
        from vivarium.core.process import Process
        from vivarium.core.registry import serializer_registry
        from vivarium.library.units import units, Quantity
        from vivarium.core.emitter import RAMEmitter
        self.np, self.S, self.units, self.Quantity = np, S, units, Quantity
        self.registry = serializer_registry
        self.RAMEmitter = RAMEmitter
        self.decimal = decimal

        class ProcA(Process):
            defaults = {'k': 1.5, 'tags': ['a']}

            def ports_schema(self):
                return {}

            def next_update(self, timestep, states):
                return {}

        class ProcB(ProcA):
            defaults = {'rate': 2}

        class MyStr(str):
            pass

        class MyFloat(float):
            pass

        def plain_function():
            pass

        def outer():
            def inner():
                pass
            return inner
        self.procs = {'A': ProcA, 'B': ProcB}
        self.MyStr, self.MyFloat = MyStr, MyFloat
        self.funcs = {'plain': plain_function, 'lambda': (lambda x: x), 'nested': outer(),
                      'unbound': ProcA.next_update}
        self.unit_cache = {}

    @classmethod
    def get(cls):
        if cls._inst is None:
            cls._inst = _Env()
        return cls._inst

    def unit(self, s):
        u = self.unit_cache.get(s)
        if u is None:
            u = self.units.parse_units(s)
            if str(u) != s:
                raise ValueError(f'unit vocabulary entry {s!r} is not canonical: {str(u)!r}')
            self.unit_cache[s] = u
        return u


def build(spec, env, reprs, order):
    """spec -> (python object).  `reprs` collects the expected strings for process / function
    placeholders (same numbering as to_model); `order` maps id(set spec) -> iteration order."""
    np = env.np
    k = _kind(spec)
    if k in ('none', 'bool'):
        return spec
    if k == 'i':
        return int(spec['i'])
    if k == 'f':
        return float(spec['f'])
    if k == 's':
        return spec['s']
    if k == 'ns':
        return np.str_(spec['ns'])
    if k == 'np':
        dtype, lit = spec['np']
        if dtype == 'bool_':
            return np.bool_(lit == 'True')
        return getattr(np, dtype)(int(lit) if dtype in NP_INT else lit)
    if k == 'l':
        return [build(c, env, reprs, order) for c in spec['l']]
    if k == 't':
        return tuple(build(c, env, reprs, order) for c in spec['t'])
    if k == 'set':
        objs = [build(c, env, reprs, order) for c in spec['set']]
        st = set()
        for o in objs:
            st.add(o)
        ids = {id(o): i for i, o in enumerate(objs)}
        it = [ids.get(id(o)) for o in st]
        order[id(spec)] = it if (len(st) == len(objs) and None not in it) else None
        return st
    if k == 'ndo':
        objs = [build(c, env, reprs, order) for c in spec['ndo']]
        arr = np.empty(len(objs), dtype=object)
        for i, o in enumerate(objs):
            arr[i] = o
        return arr
    if k == 'nd':
        return _nd_build(np, spec['nd'])
    if k == 'd':
        out = {}
        for key, v in spec['d']:
            out[build_key(key, env)] = build(v, env, reprs, order)
        return out
    if k == 'q':
        mag = build(spec['q'][0], env, reprs, order)
        return env.units.Quantity(mag, env.unit(spec["q"][1]))
    if k == 'qa':
        dtype, lits, unit = spec['qa']
        arr = np.array([int(l) if dtype in NP_INT else float(l) for l in lits], dtype=dtype)
        return env.units.Quantity(arr, env.unit(unit))
    if k == 'u':
        return env.unit(spec['u'])
    if k == 'p':
        cls, params = spec['p']
        proc = env.procs[cls](json.loads(json.dumps(params)))
        d = dict(proc.parameters)
        d['_name'] = proc.name
        reprs.append(str(d))
        order[('r', id(spec))] = str(d)
        return proc
    if k == 'fn':
        f = env.funcs[spec['fn']]
        reprs.append('<function %s at %s>' % (f.__qualname__, hex(id(f))))
        order[('r', id(spec))] = reprs[-1]
        return f
    if k == 'x':
        return build_unsupported(spec['x'], env)
    raise ValueError(spec)


def build_key(key, env):
    k = _kind(key)
    if k == 's':
        return key['s']
    if k == 'ns':
        return env.np.str_(key['ns'])
    if k == 'ss':
        return env.MyStr(key['ss'])
    o = key['o']
    if o.startswith('int:'):
        return int(o[4:])
    if o.startswith('float:'):
        return float(o[6:])
    return {'tuple': (1, 2), 'none': None, 'bytes': b'k', 'bool': True,
            'frozenset': frozenset([1])}[o]


def build_unsupported(kind, env):
    if kind == 'bytes':
        return b'abc'
    if kind == 'bytearray':
        return bytearray(b'abc')
    if kind == 'frozenset':
        return frozenset([1, 2])
    if kind == 'complex':
        return complex(1, 2)
    if kind == 'object':
        return object()
    if kind == 'method':
        return env.procs['A']().next_update
    if kind == 'builtin':
        return len
    if kind == 'class':
        return env.registry.__class__
    if kind == 'myfloat':
        return env.MyFloat(2.7182)
    if kind == 'decimal':
        return env.decimal.Decimal('0.7071')
    if kind == 'range':
        return range(3)
    if kind == 'surrogate':
        return 'bad\ud800str'
    if kind == 'dict_keys':
        return {'a': 1}.keys()
    if kind == 'iterator':
        return iter([1, 2])
    raise ValueError(kind)


# --------------------------------------------------------------------------- encoders of observed values

def jenc(x):
    """implementation output -> the driver's JVal encoding (exact python types only);
    anything that is not plain JSON data becomes {"notplain": type name}"""
    t = type(x)
    if x is None or t is bool:
        return x
    if t is int:
        return {'i': str(x)}
    if t is float:
        return {'f': repr(x)}
    if t is str:
        return x
    if t is list:
        return {'a': [jenc(y) for y in x]}
    if t is dict:
        return {'o': [[k if type(k) is str else {'notplain-key': type(k).__name__}, jenc(v)]
                      for k, v in x.items()]}
    return {'notplain': t.__name__}


def penc(x, env):
    """deserialized python value -> the driver's PVal encoding"""
    t = type(x)
    if x is None or t is bool:
        return x
    if t is int:
        return {'i': str(x)}
    if t is float:
        return {'f': repr(x)}
    if t is str:
        return {'s': x}
    if t is list:
        return {'l': [penc(y, env) for y in x]}
    if t is dict:
        return {'d': [[{'s': k} if type(k) is str else {'o': repr(k)}, penc(v, env)]
                      for k, v in x.items()]}
    if isinstance(x, env.Quantity):
        m = x.magnitude
        if type(m) in (int, float):
            return {'q': [repr(m), str(x.units)]}
        if hasattr(m, 'item') and getattr(m, 'shape', None) == ():
            return {'q': [repr(m.item()), str(x.units)]}
        return {'q': ['array:' + repr(m), str(x.units)]}
    return {'x': t.__name__}


def key_enc(k, env):
    if type(k) is str:
        return {'s': k}
    if isinstance(k, env.np.str_):
        return {'ns': str(k)}
    if isinstance(k, str):
        return {'ss': str(k)}
    return {'o': _key_kind(k)}


def _key_kind(k):
    if k is None:
        return 'none'
    if isinstance(k, bool):
        return 'bool'
    if isinstance(k, int):
        return f'int:{k}'
    if isinstance(k, float):
        return f'float:{k!r}'
    if isinstance(k, tuple):
        return 'tuple'
    if isinstance(k, bytes):
        return 'bytes'
    if isinstance(k, frozenset):
        return 'frozenset'
    return type(k).__name__


# --------------------------------------------------------------------------- implementation side

_ADDR = re.compile(r'0x[0-9a-f]+')
_FN_RE = re.compile(r'!FunctionSerializer\[<function [\w.<>]+ at 0x[0-9a-f]+>\]')


def _units_serializer(env):
    for name in env.registry.list():
        s = env.registry.access(name)
        if type(s).__name__ == 'UnitsSerializer':
            return s
    return None


def run_impl(case):
    env = _Env.get()
    S = env.S
    spec = case['v']
    reprs, order = [], {}
    value = build(spec, env, reprs, order)
    fails = []
    obs = {'reprs': reprs}
    sup = supported(spec)
    emit = case.get('kind') == 'emit'

    # ---- serialize (directly, or through RAMEmitter.emit / get_data)
    out = None
    try:
        if emit:
            em = env.RAMEmitter({'embed_path': tuple(case.get('embed', []))})
            data = dict(value)
            data['time'] = case.get('time', 1.0)
            em.emit({'table': 'history', 'data': data})
            em.emit({'table': 'configuration', 'data': {'ignored': object()}})
            saved = em.get_data()
            if list(saved.keys()) != [case.get('time', 1.0)]:
                fails.append(f'emitter: saved times {list(saved.keys())}')
            out = saved[case.get('time', 1.0)]
            for k in case.get('embed', []):
                if not (type(out) is dict and list(out.keys()) == [k]):
                    fails.append(f'emitter: embed path not honoured at {k!r}')
                    break
                out = out[k]
        else:
            out = S.serialize_value(value)
        obs['ser'] = {'ok': jenc(out)}
    except TypeError as e:
        _reraise_watchdog(e)
        obs['ser'] = {'err': 'TypeError'}
        msg = str(e)
        obs['msg_ok'] = None
        try:
            bad = S.find_numpy_and_non_strings(value if not emit else _embed(case, value))
            exp = _expected_bad(spec, env, tuple(case.get('embed', [])) if emit else ())
            obs['msg_ok'] = (msg == 'These paths end in incompatible non-string or Numpy '
                                    f'string keys: {bad}')
            if obs['msg_ok'] and str(bad) != str(exp):
                obs['msg_ok'] = f'names {bad}, the offending keys are {exp}'
        except Exception as e2:  # noqa
            obs['msg_ok'] = f'find_numpy_and_non_strings raised {exc_name(e2)}'
    except Exception as e:  # noqa
        obs['ser'] = {'err': exc_name(e) if exc_name(e) != 'TypeError' else 'Exception'}
    # the paths named in the error message
    try:
        bad = S.find_numpy_and_non_strings(value)
        obs['badkeys'] = [[key_enc(k, env) for k in p] for p in bad]
    except Exception as e:  # noqa
        obs['badkeys'] = {'err': exc_name(e)}

    # ---- the fallback hook itself on the nodes orjson hands to it (model: defaultHook)
    obs['hooks'] = _hook_obs(spec, value, env, reprs)

    # ---- the regex on every string leaf of the case (model: tagContent)
    us = _units_serializer(env)
    tags = []
    for s in walk(spec):
        if _kind(s) in ('s', 'ns') and len(tags) < 12:
            text = s[_kind(s)]
            try:
                m = us.regex_for_serialized.fullmatch(text)
                can = bool(us.can_deserialize(text))
                tags.append({'some': m.group(1)} if m else {'none': None})
                if can != bool(m):
                    fails.append(f'can_deserialize({text!r}) = {can} but fullmatch = {bool(m)}')
            except Exception as e:  # noqa
                tags.append({'err': exc_name(e)})
    obs['tags'] = tags

    # ---- oracle part 1: accepted / rejected
    if sup and 'err' in obs['ser']:
        fails.append(f'rejects-supported: {obs["ser"]["err"]} on a tree of supported values')
    if not sup and 'ok' in obs['ser']:
        fails.append('accepts-unsupported: a value was emitted for a tree with a non-string key, '
                     f'unsupported leaf or out-of-range int: {_short(obs["ser"]["ok"])}')
    if not sup and obs['ser'].get('err') not in (None, 'TypeError'):
        fails.append(f'rejects-with-wrong-exception: {obs["ser"]["err"]}')
    if 'err' in obs['ser'] and obs['ser']['err'] == 'TypeError' and obs.get('msg_ok') is not True:
        fails.append(f'error-message: does not name find_numpy_and_non_strings(value): {obs.get("msg_ok")}')

    if 'ok' in obs['ser']:
        # ---- plain JSON data
        bad = _not_plain(out)
        if bad:
            fails.append(f'not-plain: {bad}')
        else:
            try:
                json.dumps(out, allow_nan=False)
            except Exception as e:  # noqa
                fails.append(f'not-plain: json.dumps refuses the output ({exc_name(e)})')
        # ---- idempotent
        try:
            again = S.serialize_value(out)
            if jenc(again) != jenc(out):
                fails.append(f'not-idempotent: {_short(jenc(out))} -> {_short(jenc(again))}')
        except Exception as e:  # noqa
            fails.append(f'not-idempotent: serializing the output raised {exc_name(e)}')
        # ---- structure
        st = _structure(spec, out, env, reprs, order, [0])
        if st:
            fails.append('structure: ' + st)
        # ---- deserialize
        try:
            if emit:
                em2 = env.RAMEmitter({'embed_path': tuple(case.get('embed', []))})
                data = dict(value)
                data['time'] = case.get('time', 1.0)
                em2.emit({'table': 'history', 'data': data})
                back = em2.get_data_deserialized()[case.get('time', 1.0)]
                for k in case.get('embed', []):
                    back = back[k]
            else:
                out_before = penc(out, env)
                back = S.deserialize_value(out)
                # the serialized data is JSON data that is used again (an emitter hands out its own table): reading
                # it back must leave it as it was
                if penc(out, env) != out_before:
                    fails.append('input-changed: deserialize_value rewrote the serialized data it was given')
            obs['deser'] = {'ok': penc(back, env)}
            if not emit:
                # what one call restores belongs to its caller: converting the restored quantities in place (pint's
                # ito*) must not show in what the next call restores from the same data, and no quantity object is
                # handed out twice
                seen, dup = set(), [False]

                def _convert(x):
                    if hasattr(x, 'ito_base_units') and hasattr(x, 'magnitude'):
                        if id(x) in seen:
                            dup[0] = True
                        seen.add(id(x))
                        try:
                            x.ito_base_units()
                        except Exception:  # noqa
                            pass
                    elif isinstance(x, dict):
                        for v in x.values():
                            _convert(v)
                    elif isinstance(x, (list, tuple)):
                        for v in x:
                            _convert(v)
                _convert(back)
                if dup[0]:
                    fails.append('restored-shared: one quantity object stands at two places of the restored tree')
                back2 = S.deserialize_value(out)
                if penc(back2, env) != obs['deser']['ok']:
                    fails.append('restored-shared: converting the restored quantities in place changed what a second '
                                 'deserialize_value of the same data returns')
                back = back2
        except Exception as e:  # noqa
            back = None
            obs['deser'] = {'err': 'Exception'}
            obs['deser_exc'] = type(e).__name__
        expect_rt = not has_matching_tag(spec)
        if 'ok' in obs['deser']:
            rt = _restored(spec, back, env, reprs, order, [0], sup_tags=not has_matching_tag(spec))
            if rt:
                fails.append('roundtrip: ' + rt)
            if _is_plain_spec(spec) and not has_matching_tag(spec):
                if penc(back, env) != penc(out, env) or _not_plain(back):
                    fails.append('plain-changed: deserialize_value altered plain data')
        elif expect_rt:
            fails.append(f'roundtrip: deserialize_value raised {obs.get("deser_exc")} on the output '
                         f'{_short(jenc(out))}')
        # a matching tag string must never come back as the same string
        if 'ok' in obs['deser'] and type(out) is str and us.regex_for_serialized.fullmatch(out) \
                and type(back) is str:
            fails.append('tag-dispatch: a string matching the units pattern was returned as is')
    return {'obs': obs, 'fails': fails}


def _reraise_watchdog(e):
    """the runner's per-case watchdog raises inside whatever is running; orjson turns an
    exception raised in the fallback hook into a TypeError — do not take that for a verdict"""
    from harness import lib
    seen = 0
    while e is not None and seen < 10:
        if isinstance(e, lib.CaseTimeout):
            raise e
        e = e.__cause__ or e.__context__
        seen += 1


def _expected_bad(spec, env, curr=()):
    """paths (through dicts only, as the message documents) ending in a key that is not a str,
    or is a numpy string — computed from the case, not by the implementation"""
    out = []
    if _kind(spec) == 'd':
        for key, v in spec['d']:
            k = build_key(key, env)
            if _kind(key) in ('o', 'ns'):
                out.append(curr + (k,))
            out.extend(_expected_bad(v, env, curr + (k,)))
    return out


HOOK_KINDS = ('set', 'nd', 'ndo', 'q', 'qa', 'u', 'p', 'fn', 'x')


def _hook_nodes(spec):
    """(spec node, access path) of the first few nodes that reach the fallback hook, found
    through lists / tuples / str-keyed dicts only (so that the live object can be fetched)"""
    out = []

    def rec(s, path):
        if len(out) >= 6:
            return
        k = _kind(s)
        if k in HOOK_KINDS and not (k == 'x' and s['x'] == 'surrogate'):
            out.append((s, path))
        if k in ('l', 't'):
            for i, c in enumerate(s[k]):
                rec(c, path + [i])
        elif k == 'd' and all(_kind(key) == 's' for key, _ in s['d']):
            for key, c in s['d']:
                rec(c, path + [key['s']])
    rec(spec, [])
    return out


def _hook_summary_py(res):
    if type(res) is list:
        return f'list:{len(res)}'
    if type(res) is str:
        return 'str:' + res
    return 'other:' + type(res).__name__


def _hook_obs(spec, value, env, reprs):
    default = env.S.make_fallback_serializer_function()
    out = []
    for node, path in _hook_nodes(spec):
        obj = value
        for step in path:
            obj = obj[step]
        try:
            out.append(_hook_summary_py(default(obj)))
        except TypeError:
            out.append('TypeError')
        except Exception as e:  # noqa
            out.append('raised:' + type(e).__name__)
    return out


def _hook_summary_model(ans):
    if 'err' in ans:
        return ans['err']
    v = ans['ok']
    if isinstance(v, dict) and 'l' in v:
        return f'list:{len(v["l"])}'
    if isinstance(v, dict) and 's' in v:
        return 'str:' + v['s']
    return 'other:' + json.dumps(v)[:40]


def _embed(case, value):
    d = dict(value)
    for k in reversed(case.get('embed', [])):
        d = {k: d}
    return d


def _short(x):
    s = json.dumps(x, default=str)
    return s if len(s) < 240 else s[:240] + '…'


def _not_plain(x, path='$'):
    t = type(x)
    if x is None or t in (bool, int, str):
        return None
    if t is float:
        return None if math.isfinite(x) else f'{path}: non-finite float {x!r}'
    if t is list:
        for i, y in enumerate(x):
            r = _not_plain(y, f'{path}[{i}]')
            if r:
                return r
        return None
    if t is dict:
        for k, y in x.items():
            if type(k) is not str:
                return f'{path}: key {k!r} of type {type(k).__name__}'
            r = _not_plain(y, f'{path}.{k}')
            if r:
                return r
        return None
    return f'{path}: {t.__name__}'


def _is_plain_spec(spec):
    for s in walk(spec):
        k = _kind(s)
        if k not in ('none', 'bool', 'i', 'f', 's', 'l', 'd'):
            return False
        if k == 'f' and s['f'] in NONFINITE:
            return False
    return True


def _set_children(spec, order):
    it = order.get(id(spec))
    if it is None:
        return None
    return [spec['set'][i] for i in it]


def _nd_tolist_specs(np, nd):
    """the spec of arr.tolist(), for walking"""
    arr = _nd_build(np, nd)
    dtype = nd['dtype']

    def leaf(x):
        if dtype == 'str':
            return {'s': str(x)}
        if dtype == 'bool_':
            return bool(x)
        return {'np': [dtype, str(int(x)) if dtype in NP_INT else repr(float(x))]}

    def rec(a):
        if a.ndim == 1:
            return {'l': [leaf(x) for x in a]}
        return {'l': [rec(a[i]) for i in range(a.shape[0])]}
    return rec(arr) if arr.ndim >= 1 else leaf(arr[()])


def _seq_children(spec, env, order):
    """children of a sequence-like spec in the order the implementation sees them (None: unknown)"""
    k = _kind(spec)
    if k in ('l', 't', 'ndo'):
        return spec[k]
    if k == 'set':
        return _set_children(spec, order)
    if k == 'nd':
        return _nd_tolist_specs(env.np, spec['nd'])['l']
    if k == 'qa':
        dtype, lits, unit = spec['qa']
        return [{'q': [{'np': [dtype, l]}, unit]} for l in lits]
    return None


def _num_equal_np(env, dtype, lit, got):
    """the JSON number `got` denotes exactly the numpy scalar"""
    np = env.np
    if dtype == 'bool_':
        return type(got) is bool and got == (lit == 'True')
    if dtype in NP_INT:
        return type(got) is int and got == int(lit)
    x = getattr(np, dtype)(lit)
    if not np.isfinite(x):
        return got is None
    if type(got) is not float:
        return False
    if dtype == 'float64':
        return repr(got) == repr(float(x))
    # narrower floats: the printed digits must read back as the same narrow float
    return bool(np.float32(got) == np.float32(x)) if dtype == 'float32' else \
        bool(np.float16(np.float32(got)) == x)


def _structure(spec, out, env, reprs, order, ctr, path='$'):
    """containers keep their shape; leaves become the promised JSON leaf.  Returns None or text."""
    k = _kind(spec)
    if k == 'p':
        want = '!ProcessSerializer[' + order[('r', id(spec))] + ']'
        return None if out == want and type(out) is str else f'{path}: process -> {out!r}, want {want!r}'
    if k == 'fn':
        want = '!FunctionSerializer[' + order[('r', id(spec))] + ']'
        ok = type(out) is str and out == want and _FN_RE.fullmatch(out)
        return None if ok else f'{path}: function -> {out!r}, want {want!r}'
    if k == 'none':
        return None if out is None else f'{path}: None -> {out!r}'
    if k == 'bool':
        return None if out is spec else f'{path}: {spec!r} -> {out!r}'
    if k == 'i':
        return None if type(out) is int and out == int(spec['i']) else f'{path}: int {spec["i"]} -> {out!r}'
    if k == 'f':
        if spec['f'] in NONFINITE:
            return None if out is None else f'{path}: {spec["f"]} -> {out!r} (JSON has no nan/inf)'
        return None if type(out) is float and repr(out) == spec['f'] else f'{path}: float {spec["f"]} -> {out!r}'
    if k in ('s', 'ns'):
        return None if type(out) is str and out == spec[k] else f'{path}: str {spec[k]!r} -> {out!r}'
    if k == 'np':
        return None if _num_equal_np(env, spec['np'][0], spec['np'][1], out) else \
            f'{path}: numpy {spec["np"]} -> {out!r}'
    if k == 'q':
        tok = _mag_token(env.np, spec['q'][0])
        ok = type(out) is str and out.startswith('!units[') and out.endswith(']') \
            and out[7:-1].endswith(spec['q'][1].replace('1 / ', '/ ', 1) if spec['q'][1].startswith('1 / ')
                                   else ' ' + spec['q'][1])
        return None if ok else f'{path}: quantity ({tok}, {spec["q"][1]}) -> {out!r}'
    if k == 'u':
        return None if out == '!units[' + spec['u'] + ']' else f'{path}: unit {spec["u"]} -> {out!r}'
    if k == 'd':
        if any(_kind(key) != 's' for key, _ in spec['d']):
            return f'{path}: a dict with a non-string key was serialized: {_short(jenc(out))}'
        if type(out) is not dict or list(out.keys()) != [key['s'] for key, _ in spec['d']]:
            return f'{path}: dict keys {[key for key, _ in spec["d"]]} -> {_short(jenc(out))}'
        for key, v in spec['d']:
            r = _structure(v, out[key['s']], env, reprs, order, ctr, f'{path}.{key["s"]}')
            if r:
                return r
        return None
    kids = _seq_children(spec, env, order)
    if k in ('l', 't', 'set', 'nd', 'ndo', 'qa'):
        n = len(spec['set']) if k == 'set' else (len(kids) if kids is not None else None)
        if type(out) is not list or (n is not None and len(out) != n):
            return f'{path}: {k} of {n} -> {_short(jenc(out))}'
        if k == 'set':
            return _unordered(spec['set'], out, path,
                              lambda c, o, p: _structure(c, o, env, reprs, order, ctr, p))
        for i, (c, o) in enumerate(zip(kids, out)):
            r = _structure(c, o, env, reprs, order, ctr, f'{path}[{i}]')
            if r:
                return r
        return None
    return f'{path}: unexpected spec {k}'


def _unordered(kids, outs, path, check):
    """a set's elements may come out in any order: every element must be matched by a
    distinct output entry (elements of sets are leaves or tuples, so greedy matching is exact
    up to equal-looking entries)"""
    n = len(kids)
    ok = [[check(c, o, f'{path}{{{i}}}') for o in outs] for i, c in enumerate(kids)]
    used = [False] * len(outs)

    def place(i):
        if i == n:
            return True
        for j in range(len(outs)):
            if not used[j] and ok[i][j] is None:
                used[j] = True
                if place(i + 1):
                    return True
                used[j] = False
        return False
    if place(0):
        return None
    for i in range(n):
        if all(r is not None for r in ok[i]):
            return ok[i][0] if ok[i] else f'{path}: set element {i} missing'
    return f'{path}: set elements cannot be matched one-to-one with the output'


def _restored(spec, back, env, reprs, order, ctr, sup_tags=True, path='$'):
    """deserialize_value(serialize_value(v)) equals v wherever a deserializer exists."""
    k = _kind(spec)
    Q = env.Quantity
    if k == 'p':
        want = '!ProcessSerializer[' + order[('r', id(spec))] + ']'
        return None if back == want else f'{path}: process string changed to {back!r}'
    if k == 'fn':
        want = '!FunctionSerializer[' + order[('r', id(spec))] + ']'
        return None if back == want else f'{path}: function string changed to {back!r}'
    if k == 'none':
        return None if back is None else f'{path}: None -> {back!r}'
    if k == 'bool':
        return None if back is spec else f'{path}: {spec!r} -> {back!r}'
    if k == 'i':
        return None if type(back) is int and back == int(spec['i']) else f'{path}: int {spec["i"]} -> {back!r}'
    if k == 'f':
        if spec['f'] in NONFINITE:
            return None if back is None else f'{path}: {spec["f"]} -> {back!r}'
        return None if type(back) is float and repr(back) == spec['f'] else f'{path}: float {spec["f"]} -> {back!r}'
    if k in ('s', 'ns'):
        if _TAG_RE.fullmatch(spec[k]):
            return None     # reserved pattern: outside the round-trip promise
        return None if type(back) is str and back == spec[k] else f'{path}: str {spec[k]!r} -> {back!r}'
    if k == 'np':
        return None if _num_equal_np(env, spec['np'][0], spec['np'][1], back) else \
            f'{path}: numpy {spec["np"]} -> {back!r}'
    if k == 'q':
        orig = env.units.Quantity(build(spec["q"][0], env, [], {}), env.unit(spec["q"][1]))
        if not isinstance(back, Q):
            return f'{path}: quantity came back as {type(back).__name__} {back!r}'
        if back.units != orig.units or str(back.units) != str(orig.units):
            return f'{path}: units {orig.units} -> {back.units}'
        a, b = orig.magnitude, back.magnitude
        same = (a == b) or (a != a and b != b)
        if not same:
            return f'{path}: magnitude {a!r} -> {b!r}'
        if isinstance(a, (int, env.np.integer)) and not isinstance(b, int) \
                and '/' not in spec['q'][1] and '.' not in spec['q'][1]:
            return f'{path}: integer magnitude {a!r} came back as {type(b).__name__}'
        return None
    if k == 'u':
        u = env.unit(spec['u'])
        if not isinstance(back, Q) or back.units != u or not (back.magnitude == 1):
            return f'{path}: unit {spec["u"]} -> {back!r}'
        return None
    if k == 'd':
        if any(_kind(key) != 's' for key, _ in spec['d']):
            return None     # already reported by accepts-unsupported
        if type(back) is not dict or list(back.keys()) != [key['s'] for key, _ in spec['d']]:
            return f'{path}: dict keys changed: {list(back.keys()) if type(back) is dict else back!r}'
        for key, v in spec['d']:
            r = _restored(v, back[key['s']], env, reprs, order, ctr, sup_tags, f'{path}.{key["s"]}')
            if r:
                return r
        return None
    if k in ('l', 't', 'set', 'nd', 'ndo', 'qa'):
        kids = _seq_children(spec, env, order)
        n = len(spec['set']) if k == 'set' else (len(kids) if kids is not None else None)
        if type(back) is not list or (n is not None and len(back) != n):
            return f'{path}: {k} of {n} -> {back!r}'
        if k == 'set':
            return _unordered(spec['set'], back, path,
                              lambda c, o, p: _restored(c, o, env, reprs, order, ctr, sup_tags, p))
        for i, (c, o) in enumerate(zip(kids, back)):
            r = _restored(c, o, env, reprs, order, ctr, sup_tags, f'{path}[{i}]')
            if r:
                return r
        return None
    return f'{path}: unexpected spec {k}'


# --------------------------------------------------------------------------- model side

def _string_leaves(spec):
    return [s[_kind(s)] for s in walk(spec) if _kind(s) in ('s', 'ns')][:12]


def deser_comparable(spec):
    """can the token-level stand-in for pint (Pint.token) be compared with real pint here?"""
    good = {t for t, ok in TAGS if ok}
    for s in walk(spec):
        k = _kind(s)
        if k in ('s', 'ns') and _TAG_RE.fullmatch(s[k]) and s[k] not in good:
            return False
    return True


def model_requests(case):
    spec = case['v']
    v = to_model(spec, [])
    reqs = [{'op': 'serialize', 'v': v}, {'op': 'badkeys', 'v': v}, {'op': 'roundtrip', 'v': v},
            {'op': 'view', 'v': v}]
    texts = _string_leaves(spec)
    for text in texts:
        reqs.append({'op': 'tagContent', 's': text})
    # placeholders must be numbered as in `v`: convert the whole tree again and pick the nodes
    ctx = []
    conv = {}

    def rec(s):
        me = to_model_shallow(s, ctx)
        conv[id(s)] = me
        for c in children(s):
            rec(c)
    rec(spec)
    for node, _ in _hook_nodes(spec):
        reqs.append({'op': 'hook', 'v': conv[id(node)] if conv[id(node)] is not None else to_model(node, [])})
    return reqs


def to_model_shallow(s, ctx):
    """model encoding of a process / function node with the placeholder number it has in the
    whole tree (preorder), None for other nodes"""
    k = _kind(s)
    if k == 'p':
        ctx.append(1)
        return {'p': f'<<P{len(ctx) - 1}>>'}
    if k == 'fn':
        ctx.append(1)
        return {'fn': f'<<F{len(ctx) - 1}>>'}
    return None


def model_obs(case, ans):
    nt = len(_string_leaves(case['v']))
    return {'ser': ans[0], 'badkeys': ans[1], 'deser': ans[2], 'view': ans[3], 'tags': ans[4:4 + nt],
            'hooks': [_hook_summary_model(a) for a in ans[4 + nt:]]}


def _subst(x, reprs):
    """replace the <<Pn>> / <<Fn>> placeholders of the model's answer by the strings the
    implementation side computed for the live objects"""
    if isinstance(x, str):
        if '<<' in x:
            for i, r in enumerate(reprs):
                x = x.replace(f'<<P{i}>>', r).replace(f'<<F{i}>>', r)
        return x
    if isinstance(x, list):
        return [_subst(y, reprs) for y in x]
    if isinstance(x, dict):
        return {k: _subst(v, reprs) for k, v in x.items()}
    return x


def _canon(spec, enc, seq_key, map_key):
    """forget set iteration order and dict insertion order, guided by the case's tree"""
    k = _kind(spec)
    if not isinstance(enc, dict):
        return enc
    if k == 'set' and seq_key in enc:
        return {seq_key: sorted(enc[seq_key], key=lambda y: json.dumps(y, sort_keys=True))}
    if k in ('l', 't', 'ndo') and seq_key in enc and len(enc[seq_key]) == len(spec[k]):
        return {seq_key: [_canon(c, e, seq_key, map_key) for c, e in zip(spec[k], enc[seq_key])]}
    if k == 'd' and map_key in enc and len(enc[map_key]) == len(spec['d']):
        items = [[ke, _canon(c, e, seq_key, map_key)]
                 for (_, c), (ke, e) in zip(spec['d'], enc[map_key])]
        return {map_key: sorted(items, key=lambda kv: json.dumps(kv[0], sort_keys=True))}
    return enc


def _canon_res(spec, res, seq_key, map_key):
    if isinstance(res, dict) and 'ok' in res:
        return {'ok': _canon(spec, res['ok'], seq_key, map_key)}
    return res


def compare(case, impl, model):
    io = impl.get('obs') if isinstance(impl, dict) else None
    if io is None:
        return f'implementation probe failed: {_short(impl)}'
    spec = case['v']
    reprs = io.get('reprs', [])
    diffs = []
    ms = _canon_res(spec, _subst(model['ser'], reprs), 'a', 'o')
    is_ = _canon_res(spec, io['ser'], 'a', 'o')
    if ms != is_:
        diffs.append(f'serialize: impl={_short(is_)} model={_short(ms)}')
    bi, bm = io.get('badkeys'), model['badkeys']
    if not isinstance(bi, list) or sorted(map(json.dumps, bi)) != sorted(map(json.dumps, bm)):
        diffs.append(f'bad-key paths: impl={_short(bi)} model={_short(bm)}')
    if io.get('tags') != model['tags']:
        diffs.append(f'units regex: impl={_short(io.get("tags"))} model={_short(model["tags"])}')
    mh = [_subst(h, reprs) for h in model.get('hooks', [])]
    if io.get('hooks') != mh:
        diffs.append(f'fallback hook: impl={_short(io.get("hooks"))} model={_short(mh)}')
    if 'ok' in io['ser'] and deser_comparable(spec):
        md = _canon_res(spec, _subst(model['deser'], reprs), 'l', 'd')
        idr = _canon_res(spec, io.get('deser'), 'l', 'd')
        if md != idr:
            diffs.append(f'deserialize: impl={_short(idr)} model={_short(md)}')
        # the model's own `view` is what it deserializes to (sanity of the theorem's statement)
        mv = _canon(spec, _subst(model['view'], reprs), 'l', 'd')
        if not has_matching_tag(spec) and 'ok' in md and md['ok'] != mv:
            diffs.append(f'model view != model roundtrip: {_short(mv)} vs {_short(md["ok"])}')
    return '; '.join(diffs) if diffs else None


def oracle(case, impl):
    if not isinstance(impl, dict) or 'fails' not in impl:
        return [f'probe-crashed: {_short(impl)}']
    return impl['fails']


def nontrivial(case, impl):
    nodes = list(walk(case['v']))
    if case.get('stream') in ('malformed', 'taglike', 'exhaustive'):
        return True
    return len(nodes) >= 3


def classify(case, failure):
    return None


def stats(results):
    from collections import Counter
    streams = Counter(r['case'].get('stream', 'valid') for r in results)
    kinds = Counter()
    depth = Counter()
    outcomes = Counter()
    cand = 0
    for r in results:
        for s in walk(r['case']['v']):
            kinds[_kind(s)] += 1
        depth[_depth(r['case']['v'])] += 1
        io = r['impl'].get('obs', {}) if isinstance(r['impl'], dict) else {}
        outcomes['ser:' + ('ok' if 'ok' in io.get('ser', {}) else io.get('ser', {}).get('err', '?'))] += 1
        if 'deser' in io:
            outcomes['deser:' + ('ok' if 'ok' in io['deser'] else 'raised')] += 1
    return {'streams': dict(streams), 'node_kinds': dict(kinds), 'depths': dict(depth),
            'outcomes': dict(outcomes), 'emit_cases': sum(1 for r in results if r['case'].get('kind') == 'emit'),
            'nan_named_units': sum(1 for r in results for x in walk(r['case']['v'])
                                   if (_kind(x) == 'u' and x['u'].startswith('nan'))),
            'nan_with_reciprocal_unit': sum(1 for r in results for x in walk(r['case']['v'])
                                            if _kind(x) == 'q' and x['q'][1].startswith('1 /')
                                            and _mag_token(_np(), x['q'][0]) == 'nan')}


def _depth(spec):
    cs = children(spec)
    return 1 + (max(map(_depth, cs)) if cs else 0)


def shrink(case):
    """drop one child of one container at a time; then replace the root by a child"""
    spec = case['v']

    def variants(s):
        k = _kind(s)
        if k in ('l', 't', 'set', 'ndo'):
            for i in range(len(s[k])):
                yield {k: s[k][:i] + s[k][i + 1:]}
            for i, c in enumerate(s[k]):
                for v in variants(c):
                    yield {k: s[k][:i] + [v] + s[k][i + 1:]}
        elif k == 'd':
            for i in range(len(s['d'])):
                yield {'d': s['d'][:i] + s['d'][i + 1:]}
            for i, (key, c) in enumerate(s['d']):
                for v in variants(c):
                    yield {'d': s['d'][:i] + [[key, v]] + s['d'][i + 1:]}
    if case.get('kind') != 'emit':
        for c in children(spec):
            yield dict(case, v=c)
    for v in variants(spec):
        yield dict(case, v=v)


# --------------------------------------------------------------------------- generators

def g_int(rng):
    r = rng.random()
    if r < 0.5:
        return {'i': str(rng.randrange(-20, 200))}
    if r < 0.75:
        return {'i': str(rng.choice(INT_EDGE))}
    return {'i': str(rng.randrange(-2 ** 63, 2 ** 64))}


def g_float_tok(rng, nonfinite=0.12):
    r = rng.random()
    if r < nonfinite:
        return rng.choice(NONFINITE)
    if r < 0.45:
        return rng.choice(FLOAT_EDGE)
    if r < 0.7:
        return repr(rng.randrange(-4000, 4000) / 8.0)
    if r < 0.85:
        return repr(rng.uniform(-1, 1) * 10.0 ** rng.randrange(-300, 300))
    return repr(rng.random())


def g_str(rng):
    r = rng.random()
    if r < 0.7:
        return rng.choice(PLAIN_STRS)
    if r < 0.85:
        return ''.join(rng.choice('abc xyz[]!\n"\\é😀') for _ in range(rng.randrange(0, 9)))
    return rng.choice(NEAR_TAGS)


def g_np_scalar(rng):
    r = rng.random()
    if r < 0.15:
        return {'np': ['bool_', rng.choice(['True', 'False'])]}
    if r < 0.55:
        dt = rng.choice(NP_INT)
        bits = int(re.sub(r'\D', '', dt))
        lo, hi = (0, 2 ** bits - 1) if dt.startswith('u') else (-2 ** (bits - 1), 2 ** (bits - 1) - 1)
        v = rng.choice([lo, hi, 0, rng.randrange(lo, hi + 1), rng.randrange(max(lo, -50), min(hi, 50) + 1)])
        return {'np': [dt, str(v)]}
    dt = rng.choice(NP_FLOAT)
    if dt == 'float64':
        return {'np': [dt, g_float_tok(rng)]}
    # narrow floats: literals that are finite at that width (or deliberately non-finite)
    tok = rng.choice(['0.1', '1.5', '-2.25', '0.0', '-0.0', '3.0', '1000.0', '0.333', '6e-05', '65504.0',
                      'nan', 'inf', '-inf', repr(rng.randrange(-4000, 4000) / 8.0),
                      repr(round(rng.uniform(-100, 100), 3))])
    if dt == 'float32' and rng.random() < 0.2:
        tok = rng.choice(['1e+20', '3.4028235e+38', '1e-38', '1.1754944e-38', '16777217.0'])
    return {'np': [dt, tok]}


def g_mag(rng):
    r = rng.random()
    if r < 0.3:
        return {'i': str(rng.choice([0, 1, 5, -3, -7, 2 ** 53 - 1, rng.randrange(-2 ** 53, 2 ** 53),
                                     rng.randrange(-100, 100), 2 ** 70, 123456789012345678]))}
    if r < 0.7:
        return {'f': g_float_tok(rng, nonfinite=0.25)}
    if r < 0.8:
        return {'np': ['float64', g_float_tok(rng, nonfinite=0.2)]}
    if r < 0.9:
        return {'np': [rng.choice(['int64', 'int32', 'uint8']), str(rng.randrange(0, 100))]}
    return {'np': ['float32', rng.choice(['0.1', '1.5', '2.25', 'nan', '1000.5'])]}


def g_unit(rng):
    r = rng.random()
    if r < 0.75:
        return rng.choice(UNITS)
    if r < 0.87:
        return rng.choice(RECIP_UNITS)
    return rng.choice(NAN_UNITS)     # names starting with "nan" (regression F27), bare or with a magnitude


def g_quantity(rng):
    if rng.random() < 0.2:
        dt = rng.choice(['float64', 'int64', 'float32'])
        n = rng.randrange(0, 4)
        lits = [str(rng.randrange(-9, 99)) if dt == 'int64' else
                rng.choice(['1.0', '2.5', '0.1', 'nan', 'inf', '-0.0', '1e+22', '5e-324'] if dt == 'float64'
                           else ['1.0', '2.5', '0.1', 'nan'])
                for _ in range(n)]
        return {'qa': [dt, lits, g_unit(rng)]}
    return _fit({'q': [g_mag(rng), g_unit(rng)]}, rng)


def _fit(q, rng):
    """keep a scalar quantity inside the property's quantifier: with a dividing / float-power
    unit pint re-reads an int magnitude as a float, exact only below 2^53 (we stay below 10^15 so
    that the token is `<int>.0`)."""
    mag, unit = q['q']
    if ('/' in unit or '.' in unit) and _kind(mag) == 'i' and abs(int(mag['i'])) >= 10 ** 15:
        mag = {'i': str(rng.randrange(-10 ** 15, 10 ** 15))}
    return {'q': [mag, unit]}


def g_ndarray(rng):
    dt = rng.choice(['float64', 'float64', 'int64', 'int32', 'uint8', 'float32', 'bool_', 'str', 'float16'])
    nd = rng.choice([1, 1, 1, 2, 2, 3])
    shape = [rng.randrange(0, 4) for _ in range(nd)]
    n = 1
    for d in shape:
        n *= d
    if dt == 'str':
        data = [rng.choice(['a', 'b', 'cc', '', 'é', '!units[1 gram]' if rng.random() < 0.1 else 'z'])
                for _ in range(n)]
    elif dt == 'bool_':
        data = [rng.choice(['True', 'False']) for _ in range(n)]
    elif dt in NP_INT:
        data = [str(rng.randrange(0, 100)) for _ in range(n)]
    elif dt == 'float64':
        data = [g_float_tok(rng) for _ in range(n)]
    else:
        data = [rng.choice(['0.1', '1.5', '-2.25', '0.0', 'nan', 'inf', '3.0', '0.333']) for _ in range(n)]
    return {'nd': {'dtype': dt, 'shape': shape, 'data': data,
                   'layout': rng.choice(['C', 'C', 'F', 'strided'])}}


def g_leaf(rng, hashable=False):
    r = rng.random()
    if r < 0.08:
        return None
    if r < 0.16:
        return rng.random() < 0.5
    if r < 0.34:
        return g_int(rng)
    if r < 0.50:
        return {'f': g_float_tok(rng, nonfinite=0.0 if hashable else 0.12)}
    if r < 0.66:
        return {'s': g_str(rng)}
    if r < 0.70:
        return {'ns': rng.choice(PLAIN_STRS)}
    if r < 0.78:
        x = g_np_scalar(rng)
        if hashable and x['np'][0] in NP_INT and x['np'][0] != 'int64':
            # numpy 2: np.uint8(3) == 3600 raises OverflowError while hashing into a set
            lit = int(x['np'][1])
            x = {'np': ['int64', str(lit if -2 ** 63 <= lit < 2 ** 63 else 7)]}
        return x
    if r < 0.90:
        if not hashable:
            return g_quantity(rng)
        q = _fit({'q': [g_mag(rng), g_unit(rng)]}, rng)
        if _kind(q['q'][0]) == 'np' and q['q'][0]['np'][0] in NP_INT:
            q['q'][0] = {'np': ['int64', q['q'][0]['np'][1]]}   # pint hashes via base units: 13 h overflows uint8
        return q
    if r < 0.94:
        return {'u': g_unit(rng)}
    if r < 0.97:
        return {'fn': rng.choice(FUNCS)}
    return {'p': [rng.choice(['A', 'B']), rng.choice(PROC_PARAMS)]}


def _standin(spec):
    """a python value with the same ==/hash behaviour, to keep set elements distinct"""
    k = _kind(spec)
    if k in ('none', 'bool'):
        return spec
    if k == 'i':
        return int(spec['i'])
    if k == 'f':
        return float(spec['f'])
    if k in ('s', 'ns'):
        return spec[k]
    if k == 'np':
        dt, lit = spec['np']
        if dt == 'bool_':
            return lit == 'True'
        if dt in NP_INT:
            return int(lit)
        import numpy as np
        return float(getattr(np, dt)(lit))
    if k == 't':
        return tuple(_standin(c) for c in spec['t'])
    if k == 'q' and spec['q'][1] == 'dimensionless':
        return _standin(spec['q'][0])    # pint: Quantity(1, dimensionless) == 1, same hash
    if k == 'u' and spec['u'] == 'dimensionless':
        return ('opaque', 'q')
    return ('opaque', 'q' if k in ('q', 'u') else k)   # at most one quantity-like / function / process per set


def g_set(rng, depth):
    elems, seen = [], set()
    has_q = has_num = False
    for _ in range(rng.randrange(0, 5)):
        if depth > 1 and rng.random() < 0.2:
            e = {'t': [g_leaf(rng, hashable=True) for _ in range(rng.randrange(0, 3))]}
            e = {'t': [c for c in e['t'] if _kind(c) not in ('qa',)]}
        else:
            e = g_leaf(rng, hashable=True)
        try:
            key = _standin(e)
            if key != key or key in seen:      # nan or duplicate
                continue
            # pint: a quantity of a dimensionless-reducible unit (count, …) equals a bare number
            qlike = any(_kind(x) in ('q', 'u') for x in walk(e))
            numlike = any(_kind(x) in ('bool', 'i', 'f', 'np') for x in walk(e)) and not qlike
            if (qlike and (has_num or _kind(e) == 't')) or (numlike and has_q):
                continue
            has_q, has_num = has_q or qlike, has_num or numlike
            if any(x != x for x in key) if isinstance(key, tuple) else False:
                continue
        except TypeError:
            continue
        seen.add(key)
        elems.append(e)
    return {'set': elems}


def g_tree(rng, depth, keys=None):
    if depth <= 0 or rng.random() < 0.28:
        return g_leaf(rng)
    r = rng.random()
    n = rng.choice([0, 1, 2, 2, 3, 4])
    if r < 0.38:
        ks = rng.sample(keys or KEYS, min(n, len(keys or KEYS)))
        return {'d': [[{'s': k}, g_tree(rng, depth - 1)] for k in ks]}
    if r < 0.62:
        return {'l': [g_tree(rng, depth - 1) for _ in range(n)]}
    if r < 0.76:
        return {'t': [g_tree(rng, depth - 1) for _ in range(n)]}
    if r < 0.86:
        return g_set(rng, depth)
    if r < 0.96:
        return g_ndarray(rng)
    return {'ndo': [g_tree(rng, min(depth - 1, 1)) for _ in range(n)]}


def _count(spec):
    return sum(1 for _ in walk(spec))


def _mutate_at(rng, spec, target, make, counter=None, in_set=False):
    """preorder walk; the node number `target` is replaced by make(node, in_set)"""
    counter = counter if counter is not None else [0]
    me = counter[0]
    counter[0] += 1
    if me == target:
        return make(spec, in_set)
    k = _kind(spec)
    if k in ('l', 't', 'set', 'ndo'):
        return {k: [_mutate_at(rng, c, target, make, counter, in_set or k == 'set') for c in spec[k]]}
    if k == 'd':
        return {'d': [[key, _mutate_at(rng, c, target, make, counter, in_set)] for key, c in spec['d']]}
    return spec


def make_malformed(rng):
    def make(node, in_set):
        r = rng.random()
        if in_set:
            if r < 0.6:
                return {'x': rng.choice(HASHABLE_UNSUPPORTED)}
            return {'i': str(rng.choice(INT_BAD))}
        if _kind(node) == 'd' and r < 0.6:
            items = list(node['d'])
            items.insert(rng.randrange(0, len(items) + 1), [rng.choice(BAD_KEYS), g_tree(rng, 1)])
            return {'d': items}
        if r < 0.35:
            return {'d': [[rng.choice(BAD_KEYS), node]]}
        if r < 0.75:
            return {'x': rng.choice(UNSUPPORTED)}
        return {'i': str(rng.choice(INT_BAD))}
    return make


def make_taglike(rng):
    def make(node, in_set):
        text = rng.choice(TAGS)[0] if rng.random() < 0.6 else rng.choice(NEAR_TAGS)
        return {'s': text} if rng.random() < 0.9 else {'ns': text}
    return make


def _dedupe_sets(spec):
    """after a mutation a set may hold equal elements; drop later duplicates"""
    k = _kind(spec)
    if k == 'set':
        out, seen = [], set()
        for c in spec['set']:
            try:
                key = _standin(c)
            except TypeError:
                key = ('opaque', id(c))
            if key in seen:
                continue
            seen.add(key)
            out.append(c)
        return {'set': out}
    if k in ('l', 't', 'ndo'):
        return {k: [_dedupe_sets(c) for c in spec[k]]}
    if k == 'd':
        out, seen = [], set()
        for key, c in spec['d']:
            kk = _key_standin(key)
            if kk in seen:
                continue
            seen.add(kk)
            out.append([key, _dedupe_sets(c)])
        return {'d': out}
    return spec


def _key_standin(key):
    k = _kind(key)
    if k in ('s', 'ns', 'ss'):
        return key[k]
    o = key['o']
    if o.startswith('int:'):
        return int(o[4:])
    if o.startswith('float:'):
        return float(o[6:])
    return {'bool': True, 'none': None}.get(o, ('opaque', o))


def generate(rng, n, tier):
    cases = []
    for _ in range(n):
        r = rng.random()
        depth = rng.choice([1, 2, 3, 3, 4, 5])
        if r < 0.12:
            keys = [k for k in KEYS if k != 'time']
            top = {'d': [[{'s': k}, g_tree(rng, depth - 1)]
                         for k in rng.sample(keys, rng.randrange(0, 4))]}
            case = {'kind': 'emit', 'v': top, 'time': rng.choice([0.0, 1.0, 2.5, 10.0]),
                    'embed': rng.choice([[], [], ['x'], ['agents', '1']]), 'stream': 'valid'}
            if rng.random() < 0.25:
                case['v'] = _dedupe_sets(_mutate_at(rng, top, rng.randrange(1, _count(top)) if _count(top) > 1 else 0,
                                                    make_malformed(rng)))
                case['stream'] = 'malformed'
                if _kind(case['v']) != 'd' or any(_kind(k) != 's' for k, _ in case['v']['d']):
                    case['kind'] = 'tree'
            cases.append(case)
            continue
        tree = g_tree(rng, depth)
        case = {'kind': 'tree', 'v': tree, 'stream': 'valid'}
        if r < 0.37:
            case['v'] = _dedupe_sets(_mutate_at(rng, tree, rng.randrange(0, _count(tree)), make_malformed(rng)))
            case['stream'] = 'malformed'
            if rng.random() < 0.3:   # a second defect elsewhere
                case['v'] = _dedupe_sets(_mutate_at(rng, case['v'], rng.randrange(0, _count(case['v'])),
                                                    make_malformed(rng)))
        elif r < 0.47:
            case['v'] = _dedupe_sets(_mutate_at(rng, tree, rng.randrange(0, _count(tree)), make_taglike(rng)))
            case['stream'] = 'taglike'
        cases.append(case)
    if tier == 'thorough':
        cases.extend(exhaustive_family())
    return cases


def exhaustive_family():
    """every container kind around every ordered pair (and single, and none) of a leaf alphabet
    that covers each leaf class incl. the malformed ones; and every such pair as dict values
    under every key class"""
    leaves = [None, True, {'i': '0'}, {'i': '18446744073709551615'}, {'i': '18446744073709551616'},
              {'i': '-9223372036854775809'}, {'f': '1.5'}, {'f': 'nan'}, {'f': '-inf'}, {'s': 'a'},
              {'s': '!units[5 gram]'}, {'s': '!units[5 gram]\n'}, {'ns': 'b'}, {'np': ['float32', '0.1']},
              {'np': ['uint64', '18446744073709551615']}, {'q': [{'f': 'nan'}, 'femtogram']},
              {'q': [{'i': '3'}, 'count / femtoliter']}, {'u': 'millimole / gram / hour'},
              {'u': 'nanometer'}, {'q': [{'f': 'nan'}, '1 / second']},
              {'qa': ['float64', ['1.0', 'nan'], 'gram']}, {'fn': 'plain'}, {'p': ['B', {'k': 3}]},
              {'x': 'frozenset'}, {'x': 'bytes'}, {'t': []}, {'l': [{'s': 'x'}]},
              {'d': [[{'o': 'int:1'}, None]]}, {'d': [[{'s': 'k'}, {'u': 'gram'}]]}]
    hashable = [x for x in leaves if _kind(x) not in ('l', 'd', 'qa')]
    out = []
    for kind in ('l', 't', 'set'):
        pool = hashable if kind == 'set' else leaves
        combos = [[]] + [[a] for a in pool] + [[a, b] for a in pool for b in pool]
        for combo in combos:
            spec = _dedupe_sets({kind: combo})
            if kind == 'set':
                # keep only sets whose elements stay distinct under python equality (pint: 3 count == 3)
                if len(spec['set']) != len(combo):
                    continue
                kinds = {_kind(c) for c in combo}
                if kinds & {'q', 'u'} and kinds & {'bool', 'i', 'f', 'np'}:
                    continue
            out.append({'kind': 'tree', 'v': spec, 'stream': 'exhaustive'})
    keys = [{'s': 'a'}, {'s': ''}, {'ns': 'n'}, {'ss': 'sub'}, {'o': 'int:1'}, {'o': 'none'}, {'o': 'tuple'}]
    for k1 in keys:
        for k2 in keys:
            if _key_standin(k1) == _key_standin(k2):
                continue
            for a in leaves[::3]:
                out.append({'kind': 'tree', 'stream': 'exhaustive',
                            'v': {'d': [[k1, a], [k2, {'d': [[{'s': 'in'}, a]]}]]}})
    return out


def _t(x):
    """python literal -> spec, for the corpus"""
    if x is None or isinstance(x, bool):
        return x
    if isinstance(x, int):
        return {'i': str(x)}
    if isinstance(x, float):
        return {'f': repr(x)}
    if isinstance(x, str):
        return {'s': x}
    if isinstance(x, list):
        return {'l': [_t(y) for y in x]}
    if isinstance(x, tuple):
        return {'t': [_t(y) for y in x]}
    if isinstance(x, dict):
        if any(k in x for k in ('__spec__',)):
            return x['__spec__']
        return {'d': [[{'s': k}, _t(v)] for k, v in x.items()]}
    raise ValueError(x)


def _sp(spec):
    return {'__spec__': spec}


def corpus():
    nd = lambda dt, shape, data, layout='C': _sp({'nd': {'dtype': dt, 'shape': shape, 'data': data, 'layout': layout}})
    q = lambda m, u: _sp({'q': [_t(m) if not isinstance(m, dict) else m, u]})
    full = _t({
        'process': _sp({'p': ['A', {}]}),
        'numpy_int': nd('int64', [3], ['1', '2', '3']),
        'numpy_float': nd('float64', [3], ['1.1', '2.2', '3.3']),
        'numpy_str': nd('str', [3], ['a', 'b', 'c']),
        'numpy_bool': nd('bool_', [3], ['True', 'True', 'False']),
        'numpy_matrix': nd('int64', [2, 2], ['1', '2', '3', '4']),
        'list_units': [q(1, 'femtogram'), q(2, 'femtogram')],
        'list': [True, False, 'test', 1, None],
        'quantity': q(5, 'femtogram'),
        'unit': _sp({'u': 'femtogram'}),
        'nan_unit': q(math.nan, 'femtogram'),
        'dict': {'a': False},
        'function': _sp({'fn': 'plain'}),
    })
    cases = [
        {'kind': 'tree', 'v': full, 'stream': 'valid', 'name': 'test_serialization_full'},
        {'kind': 'tree', 'stream': 'malformed', 'name': 'test_non_string_keys', 'v': {'d': [
            [{'ns': '1'}, _t([1, 2, 3])], [{'o': 'int:1'}, _t([1, 2, 3])],
            [{'s': 'string'}, {'d': [[{'s': 'string2'}, {'d': [[{'s': 'string3'}, {'d': [
                [{'ns': '1'}, _t(3)]]}]]}]]}]]}},
        {'kind': 'tree', 'stream': 'malformed', 'name': 'test_unsupported_types', 'v': {'d': [
            [{'s': 'serializer'}, {'x': 'class'}], [{'ns': 'bad string'}, _t(1)]]}},
        # design-time probe t11
        {'kind': 'tree', 'stream': 'valid', 'v': _t({'a': [1, (2, 3), _sp({'set': [_t(4), _t(5)]}),
                                                     nd('int64', [3], ['0', '1', '2']),
                                                     _sp({'np': ['float32', '1.5']}), None, True,
                                                     math.inf, math.nan]})},
        {'kind': 'tree', 'stream': 'malformed', 'v': _t({'a': 2 ** 70})},
        {'kind': 'tree', 'stream': 'malformed', 'v': _t({'a': 2 ** 64})},
        {'kind': 'tree', 'stream': 'valid', 'v': _t({'a': 2 ** 64 - 1, 'b': -2 ** 63})},
        {'kind': 'tree', 'stream': 'malformed', 'v': _t({'a': -2 ** 63 - 1})},
        {'kind': 'tree', 'stream': 'malformed', 'v': _t({'a': {'__spec__': {'d': [[{'o': 'tuple'}, _t(3)]]}}})},
        {'kind': 'tree', 'stream': 'malformed', 'v': _t([{'__spec__': {'d': [[{'ss': 'sub'}, _t(3)]]}}])},
        {'kind': 'tree', 'stream': 'malformed', 'v': _t({'a': _sp({'set': [{'x': 'frozenset'}, _t(1)]})})},
        {'kind': 'tree', 'stream': 'malformed', 'v': _t({'a': _sp({'x': 'surrogate'})})},
        {'kind': 'tree', 'stream': 'malformed', 'v': _sp({'ndo': [_t(1), {'x': 'bytes'}]})['__spec__']},
    ]
    mags = [1.5, math.nan, math.inf, -math.inf, 1e300, 5e-324, -3, 0, 2 ** 53, 2 ** 53 + 1, 1e22, 1e16,
            123456789012345678, 0.1, 1 / 3, 1e-7, -0.0, 0.0, 2 ** 70]
    unitsl = ['femtogram', 'gram / liter ** 2', 'millimole', 'femtogram', 'femtogram', 'dimensionless',
              'count', 'count', 'femtogram', 'femtogram', 'femtogram', 'femtogram', 'millimolar',
              'millimole / gram / hour', 'kelvin', 'femtogram ** 0.5', 'nanometer', 'nanometer / second',
              'meter * second']
    cases.append({'kind': 'tree', 'stream': 'valid', 'name': 'probe-magnitudes',
                  'v': _t({f'q{i}': q(m, u) for i, (m, u) in enumerate(zip(mags, unitsl))})})
    cases.append({'kind': 'tree', 'stream': 'valid', 'v': _t({
        'a': _sp({'q': [{'np': ['float64', '2.5']}, 'femtogram']}),
        'b': _sp({'q': [{'np': ['int64', '3']}, 'femtogram']}),
        'c': _sp({'q': [{'np': ['float32', '0.1']}, 'femtogram']}),
        'd': _sp({'qa': ['float64', ['1.0', '2.0'], 'femtogram']}),
        'e': _sp({'qa': ['int64', [], 'gram']}),
        'f': _sp({'u': 'millimole / gram / hour'}),
        'g': _sp({'q': [_t(5), '1 / second']}),
        'h': _sp({'q': [_t(math.nan), 'nanometer']}),
        'i': _sp({'u': '1 / second'}),
    })})
    # strings that look like tags (serialize_test.py: unmatched brackets, prefixes, '!' …)
    for text in ['!units[]x]', 'plain', '!units[5 gram]\n', '!units[5 gram]', '!units[hello]', '!units[a]b]',
                 '![hi there!]', 'hi there!]', '[hi there!', 'abc[hi there!', 'abc]hi there!',
                 '!ToySerializer[test]hi there!', '!hi there!', 'hi there!!', '!units[', '!units[]']:
        cases.append({'kind': 'tree', 'stream': 'taglike', 'v': _t({'s': text, 'l': [text]})})
        cases.append({'kind': 'tree', 'stream': 'taglike', 'v': _t(text)})
    # regression F27 (pre-fix witnesses; repaired by 0802664): must round-trip
    cases.append({'kind': 'tree', 'stream': 'valid', 'name': 'F27-nan-prefixed-unit',
                  'v': _t({'u': _sp({'u': 'nanometer'})})})
    cases.append({'kind': 'tree', 'stream': 'valid', 'name': 'F27-nan-reciprocal-unit',
                  'v': _t({'rate': _sp({'q': [_t(math.nan), '1 / second']})})})
    cases.append({'kind': 'tree', 'stream': 'valid', 'name': 'F27-more',
                  'v': _t([_sp({'u': u}) for u in NAN_UNITS] +
                          [_sp({'q': [_t(math.nan), u]}) for u in NAN_UNITS + RECIP_UNITS] +
                          [_sp({'q': [{'np': ['float32', 'nan']}, '1 / gram / second']}),
                           _sp({'qa': ['float64', ['nan', '2.5'], '1 / second']}),
                           _sp({'set': [{'u': 'nanomolar'}]})])})
    cases.append({'kind': 'emit', 'stream': 'valid', 'name': 'F27-emitter', 'time': 3.0, 'embed': ['x'],
                  'v': _t({'len': _sp({'u': 'nanometer'}), 'rate': _sp({'q': [_t(math.nan), '1 / second']})})})
    # through the emitter
    cases.append({'kind': 'emit', 'stream': 'valid', 'time': 1.0, 'embed': ['agents', '1'], 'v': _t({
        'mass': q(1.5, 'femtogram'), 'counts': nd('int64', [2], ['3', '4']), 'tags': ('a', 'b'),
        'nested': {'x': _sp({'set': [_t(1)]}), 'y': math.nan}})})
    cases.append({'kind': 'emit', 'stream': 'valid', 'time': 0.0, 'embed': [], 'v': _t({})})
    cases.append({'kind': 'emit', 'stream': 'malformed', 'time': 2.0, 'embed': ['x'],
                  'v': _t({'a': {'__spec__': {'d': [[{'o': 'int:1'}, _t(3)]]}}})})
    return cases


LEVEL_TEXT = ('Lean 4 theorems over an executable model of serialize.py, for all value trees (unbounded): the '
              'output is plain JSON data with 64-bit ints and no nan/inf (plain), serializing the output again '
              'returns it (idempotent), a tree is rejected with TypeError exactly when it holds a non-string '
              'key, an unsupported leaf or an int outside 64 bit (rejects/accepts), containers keep their shape '
              '(structure), plain data without reserved tags is returned unchanged by deserialize '
              '(plain_unchanged, plain_roundtrip_exact), and deserialize∘serialize restores every supported tree '
              'up to tuple/set/array→list, with the units regex modelled structurally and tied to the regex source '
              'extracted from the code (roundtrip_partial).')
LEVEL_NOTE = ('Partial for number formatting: pint\'s `units(str(q)) == q` is an explicit hypothesis of '
              'roundtrip_partial (shown satisfiable by a token-level parser) and orjson\'s number encoding is '
              'represented by tokens; both are sampled by the correspondence and by the oracle on the real code '
              '(nan, ±inf, ±0.0, 5e-324, 1e±300, ints up to 2^70, numpy scalars, compound units). Units whose name '
              'starts with "nan" and nan magnitudes with reciprocal units (defect F27, repaired) are covered: '
              'bare_unit_nan_prefix_roundtrips, nan_reciprocal_unit_roundtrips. Trusted: Lean kernel, the hand-written model as far '
              'as the differential runs sample it, extract_tables.py.')
TECHNIQUE = 'Lean 4 proof by structural induction over value trees + model/code correspondence (differential)'


# a user-defined serializer registered under a main key and an alternate key
from harness import customser as _cs                    # noqa: E402
from harness.mixins import add_family as _add_family    # noqa: E402
_add_family(globals(), _cs, 'customser', _cs.oracle, share=0.01)
