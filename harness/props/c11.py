"""C11 — division gives daughters what the dividers promise; daughters are independent.

Correspondence: every registered divider as a function (scripted `random.choice` /
`numpy.random.binomial`), and `{'_divide': …}` updates applied with `Store.apply_update` to real
stores built by `generate_state` (processes declaring the mother's variables) vs
`VivModel/Registry.lean` + `VivModel/Store.lean`, over several generations with a mutation phase.
Oracle: the dividers' laws, daughter state = defaults (+) divided (+) explicit initial state, frame,
separate process instances / store nodes, and behavioural independence of the daughters — evaluated
on the implementation alone."""
import copy
import random as _random

from harness.val import exc_name
from harness.props import _reg
from harness.props._reg import enc2, dec2, E, tag_of, CONV
from harness.props.c08 import (canon, norm_bool, _dget, _MISSING, spec_deep_merge, _short, g_dict,
                               g_plain, cfg_is_leaf, KEYS)

try:  # imported before the workers fork, so that no case pays (or is interrupted in) the import
    import vivarium  # noqa: F401
    import vivarium.core.store  # noqa: F401
except Exception:  # pragma: no cover - e.g. manifest generation without the repo on the path
    pass

PROP = 'C11'
LEAN_TARGETS = ['VivProps.C11']
DRIVER = 'Registry'
REQUIRED_THEOREMS = ['explicit_state_writes_no_shared_object', 'default_dividers_as_in_source', 
    'table_total', 'table_as_modelled', 'split_conserves', 'split_balanced', 'split_float_halves',
    'split_infinity_copies', 'binomial_conserves', 'split_dict_partitions', 'zero_law', 'set_law',
    'set_value_law', 'null_law', 'no_divide_raises', 'branch_divider_precedence',
    'divide_value_children', 'default_divider', 'daughter_leaf_state', 'divide_frame',
    'independent_partial', 'independent_fails_F12',
]
ANCHORS = [
    ('vivarium/core/registry.py', ['divide_set', 'divide_set_value', 'divide_split', 'divide_binomial',
                                   'divide_zero', 'divide_split_dict', 'assert_no_divide',
                                   'divide_null']),
    ('vivarium/core/store.py', ['Store._get_divider', 'Store.divide_value', 'Store.divide',
                                'Store.generate', 'Store._generate_paths', 'Store._topology_ports',
                                'Store._establish_path', 'Store.set_value', 'Store.apply_defaults',
                                'Store.get_processes', 'Store.get_topology', 'Store.topology_state',
                                'Store._delete_path', 'Store.apply_update']),
    ('vivarium/library/dict_utils.py', ['deep_merge']),
    ('vivarium/processes/division.py', ['get_divide_update']),
    ('vivarium/processes/meta_division.py', ['MetaDivision.next_update']),
]
BUDGET = {'quick': 900, 'thorough': 25000}
RULE = ('cases: (a) one registered or user divider called as a function (ints odd/even/zero/negative/'
        'beyond 2^53, dyadic floats, even quantities, "Infinity", dicts, None, foreign types; scripted '
        'coin and binomial draws; dict-divider keyword forms); (b) a hierarchy agents/<mother> whose '
        'variables are declared by 1-2 processes with every divider form (names, unknown names, '
        'branch-level, {divider, config}, {divider, topology}), 1-3 generations of `_divide` (daughters '
        'with and without explicit initial state / explicit processes) and after each division a '
        'mutation batch on one daughter. Non-trivial: a store case whose mother holds >= 3 variables '
        'or a second generation; a function case returning two values. Distinct by canonical JSON.')
TRUSTED = ['`random.choice` and `numpy.random.binomial` are scripted (their draws are inputs of the model); '
           'numpy\'s contract 0 <= k <= n is sampled by the oracle with the real generator',
           'copy.deepcopy of a Process gives an equivalent, separate instance (checked by identity)']
ASSUMPTIONS = [
    'port paths and divider topologies stay inside the mother compartment (no "..", no process nodes on '
    'the way); flat topologies; no subschemas',
    'quantities under `split` have even magnitudes (integer magnitudes in the model)',
    'a daughter\'s explicit processes come with the matching topology (as get_divide_update builds them)',
    'no mutable values below a branch-level `set` divider (sharing nested inside the shared branch dict '
    'is outside the model\'s one-level heap); `set_value` configs hold immutable values',
]
CASE_TIMEOUT = 30.0

DIVIDERS = ['binomial', 'set', 'split', 'split_dict', 'zero', 'no_divide', 'set_value', 'null']


# ------------------------------------------------------------------ scripted randomness

class _Script:
    def __init__(self, choices, binoms):
        self.choices = list(choices)
        self.binoms = list(binoms)

    def choice(self, seq):
        if not self.choices:
            raise AssertionError('script exhausted')
        b = self.choices.pop(0)
        return seq[0] if b else seq[1]

    def binomial(self, n, p, size=None):
        import numpy as np
        if isinstance(n, bool) or not isinstance(n, (int, np.integer)):
            raise TypeError('scripted binomial: n must be an int')
        if n < 0:
            raise ValueError('n < 0')
        if not self.binoms:
            raise AssertionError('script exhausted')
        return int(self.binoms.pop(0) % (n + 1))


class scripted:
    def __init__(self, choices, binoms):
        self.s = _Script(choices, binoms)

    def __enter__(self):
        import numpy as np
        from vivarium.core import registry
        self.old = (registry.random.choice, np.random.binomial)
        registry.random.choice = self.s.choice
        np.random.binomial = self.s.binomial
        return self.s

    def __exit__(self, *a):
        import numpy as np
        from vivarium.core import registry
        registry.random.choice, np.random.binomial = self.old


# ------------------------------------------------------------------ laws on encoded values

def _isint(j):
    return isinstance(j, int)


def _mutable(j):
    return isinstance(j, dict) and ('d' in j or 'l' in j) and tag_of(j) in (None, '__arr__')


def law_check(div, mv, a, b, config=None):
    """does the pair (a, b) of daughters' values satisfy the promise of divider `div` for the
    mother's value mv?  Returns None (ok / nothing promised) or a message."""
    ne = lambda x, y: norm_bool(canon(x)) != norm_bool(canon(y))  # noqa
    if div == 'set':
        if ne(a, mv) or ne(b, mv):
            return f'set: daughters hold {_short(a)} / {_short(b)}, mother held {_short(mv)}'
    elif div == 'zero':
        if ne(a, 0) or ne(b, 0):
            return f'zero: daughters hold {_short(a)} / {_short(b)}'
    elif div == 'set_value':
        v = _dget(config, 'value', _MISSING) if isinstance(config, dict) and 'd' in config else _MISSING
        if v is not _MISSING and (ne(a, v) or ne(b, v)):
            return f'set_value: daughters hold {_short(a)} / {_short(b)}, configured {_short(v)}'
    elif div == 'split':
        if _isint(mv) and not isinstance(mv, bool) or isinstance(mv, bool):
            m = int(mv)
            if not (_isint(a) and _isint(b)):
                return f'split: non-integer halves {_short(a)} / {_short(b)} of {m}'
            if int(a) + int(b) != m:
                return f'split: {a} + {b} != {m}'
            if abs(int(a) - int(b)) > 1:
                return f'split: halves {a} / {b} of {m} differ by more than the remainder'
        elif tag_of(mv) == '__flt__':
            from fractions import Fraction
            fm = Fraction(mv['l'][1], 2 ** mv['l'][2])
            for x in (a, b):
                if tag_of(x) != '__flt__' or Fraction(x['l'][1], 2 ** x['l'][2]) * 2 != fm:
                    return f'split: half {_short(x)} of the float {_short(mv)}'
        elif tag_of(mv) == '__qty__':
            for x in (a, b):
                if tag_of(x) != '__qty__' or x['l'][2] != mv['l'][2] or x['l'][1] * 2 != mv['l'][1]:
                    return f'split: half {_short(x)} of the quantity {_short(mv)}'
        elif mv == 'Infinity':
            if a != mv or b != mv:
                return f'split: infinite marker not copied: {_short(a)} / {_short(b)}'
    elif div == 'binomial':
        if _isint(mv) and not isinstance(mv, bool):
            if not (_isint(a) and _isint(b)) or int(a) + int(b) != mv:
                return f'binomial: {_short(a)} + {_short(b)} != {mv}'
            if int(a) < 0 or int(b) < 0:
                return f'binomial: negative share {_short(a)} / {_short(b)} of {mv}'
    elif div == 'split_dict':
        if mv is None:
            mv = {'d': []}
        if isinstance(mv, dict) and 'd' in mv:
            if not (isinstance(a, dict) and 'd' in a and isinstance(b, dict) and 'd' in b):
                return f'split_dict: daughters hold {_short(a)} / {_short(b)}'
            ka, kb, km = [k for k, _ in a['d']], [k for k, _ in b['d']], [k for k, _ in mv['d']]
            if set(ka) & set(kb) or sorted(ka + kb) != sorted(km):
                return f'split_dict: keys {ka} / {kb} do not partition {km}'
            mm = dict((k, v) for k, v in mv['d'])
            for k, v in a['d'] + b['d']:
                if ne(v, mm[k]):
                    return f'split_dict: value under {k} changed'
            if abs(len(ka) - len(kb)) > 1:
                return f'split_dict: {len(ka)} / {len(kb)} keys'
    return None


# ------------------------------------------------------------------ generators: function level

def g_split_state(rng):
    r = rng.random()
    if r < 0.55:
        return rng.choice([0, 1, -1, 2, 7, -3, -8, 2 ** 53 + 1, 2 ** 54 + 3, -(2 ** 60) - 1, 10 ** 30 + 7,
                           rng.randrange(-1000, 1000), rng.randrange(0, 10 ** 12)])
    if r < 0.7:
        n, e = rng.randrange(-300, 300), rng.randrange(0, 6)
        while e > 0 and n % 2 == 0:
            n //= 2
            e -= 1
        return {'l': ['__flt__', n, e]}
    if r < 0.8:
        return {'l': ['__qty__', 64 * rng.randrange(-50, 50), rng.choice(['mm', 'cm', 'm'])]}
    if r < 0.87:
        return 'Infinity'
    if r < 0.9:
        return rng.random() < 0.5
    return rng.choice([None, 'abc', {'d': []}, {'l': [1, 2]}, {'d': [['a', 1]]}])


def gen_fn_case(rng):
    r = rng.random()
    name = rng.choice(DIVIDERS) if r < 0.85 else rng.choice(['user:frac', 'user:with_state', 'user:count_state', 'user:skip'])
    c = {'kind': 'fn', 'name': name, 'choices': [rng.random() < 0.5 for _ in range(2)],
         'binoms': [rng.randrange(0, 10 ** 9) for _ in range(2)]}
    if name == 'split':
        c['state'] = g_split_state(rng)
    elif name == 'binomial':
        c['state'] = rng.choice([0, 1, 2, 5, 100, rng.randrange(0, 10 ** 6), 2 ** 31 - 1,
                                 rng.randrange(0, 50)]) if rng.random() < 0.9 else \
            rng.choice([-1, -7, None, 'x', {'d': []}])
    elif name == 'split_dict':
        c['state'] = g_dict(rng, 1) if rng.random() < 0.8 else rng.choice([None, 3, {'l': [1]}, 'ab', True])
    elif name == 'user:frac':
        c['state'] = rng.randrange(-50, 200)
        c['config'] = E({'num': rng.randrange(0, 5), 'den': rng.choice([1, 2, 3, 4, 0])})
    elif name == 'user:count_state':
        c['state'] = rng.randrange(-50, 200)
        c['tstate'] = E({k: rng.randrange(-9, 9) for k in rng.sample(['other', 'p', 'qq', 'rrr', '*'], rng.randrange(0, 4))})
    elif name == 'user:with_state':
        c['state'] = rng.randrange(-50, 200)
        c['tstate'] = E({'other': rng.randrange(-9, 9)})
    else:
        c['state'] = g_plain(rng, 2) if rng.random() < 0.7 else g_split_state(rng)
    if name == 'set_value':
        c['config'] = rng.choice([E({'value': rng.randrange(9)}), E({'value': None}),
                                  E({'value': {'x': 1}}), E({'val': 1}), E({})])
    # malformed keyword forms
    q = rng.random()
    if q < 0.06 and 'config' not in c:
        c['config'] = E({'value': 1})
    elif q < 0.12 and 'tstate' not in c:
        c['tstate'] = E({'other': 1})
    elif q < 0.15 and name == 'set_value':
        del c['config']
    return c


# ------------------------------------------------------------------ generators: store level

INT_POOL = [0, 1, 2, 3, 7, 10, -3, -8, 11, 2 ** 53 + 1, 2 ** 54 + 3, -(2 ** 60) - 1]


def g_var(rng, siblings):
    """a leaf schema: (config, divider description) — the default's type suits the divider"""
    r = rng.random()
    kvs = []
    if r < 0.2:
        div, default = None, rng.choice([rng.choice(INT_POOL), 'X', None, g_dict(rng, 1),
                                         {'l': [1, 2]}])
    elif r < 0.27:
        div, default = 'set', rng.choice([rng.choice(INT_POOL), g_dict(rng, 1), {'l': [3]}])
    elif r < 0.5:
        div, default = 'split', g_split_state(rng)
        if not (isinstance(default, int) or tag_of(default) or default == 'Infinity'):
            default = rng.choice(INT_POOL)
    elif r < 0.6:
        div, default = 'binomial', rng.choice([0, 1, 5, 100, rng.randrange(0, 10 ** 6)])
    elif r < 0.66:
        div, default = 'zero', rng.randrange(-5, 50)
    elif r < 0.74:
        div, default = 'split_dict', rng.choice([g_dict(rng, 1), g_dict(rng, 1), None])
    elif r < 0.8:
        div = {'d': [['divider', 'set_value'], ['config', E({'value': rng.choice([0, False, 9, 'z'])})]]}
        default = rng.randrange(9)
    elif r < 0.85:
        div, default = 'null', rng.randrange(9)
    elif r < 0.88:
        div = {'d': [['divider', {'l': ['__fn__', 'frac']}],
                     ['config', E({'num': rng.randrange(0, 4), 'den': rng.choice([2, 3, 4])})]]}
        default = rng.randrange(0, 60)
    elif r < 0.92 and siblings and rng.random() < 0.5:
        div = {'d': [['divider', {'l': ['__fn__', 'with_state']}],
                     ['topology', {'d': [['other', {'l': ['..', rng.choice(siblings)]}]]}]]}
        default = rng.randrange(0, 60)
    elif r < 0.92:
        # a wildcard topology: one entry per variable of the store this variable lives in (by name), optionally
        # next to a named entry
        topo = [['*', {'l': ['..']}]]
        if siblings and rng.random() < 0.4:
            topo.insert(rng.randrange(2), [rng.choice(['own', siblings[0]]), {'l': ['..', rng.choice(siblings)]}])
        div = {'d': [['divider', {'l': ['__fn__', 'count_state']}], ['topology', {'d': topo}]]}
        default = rng.randrange(0, 60)
    elif r < 0.94:
        div, default = {'l': ['__fn__', 'skip']}, rng.randrange(9)
    elif r < 0.96:
        div, default = 'bogus', rng.randrange(9)
    elif r < 0.975:
        div, default = 'no_divide', rng.randrange(9)
    elif r < 0.985:   # malformed dict dividers
        div = rng.choice([{'d': [['divider', 'split'], ['config', E({'value': 1})]]},
                          {'d': [['divider', 'bogus']]},
                          {'d': [['divider', 'set_value']]}])
        default = rng.randrange(9)
    else:
        div, default = 'split', rng.choice([None, 'abc', {'d': []}])
    kvs.append(['_default', default])
    if div is not None:
        kvs.append(['_divider', div])
    if isinstance(default, dict) and 'd' in default and not tag_of(default) and rng.random() < 0.6:
        kvs.append(['_updater', 'dict_value'])
    elif rng.random() < 0.3:
        kvs.append(['_updater', rng.choice(['set', 'accumulate', 'null'])])
    rng.shuffle(kvs)
    return {'d': kvs}


def g_store_cfg(rng, depth):
    n = rng.randrange(1, 4)
    kvs = []
    names = rng.sample(KEYS, n)
    int_sibs = []
    for k in names:
        if depth > 1 and rng.random() < 0.3:
            sub = g_store_cfg(rng, depth - 1)
            if rng.random() < 0.3:
                bd = rng.choice(['set', 'set', 'split_dict', 'null', 'zero', 'bogus'])
                if bd == 'set' and _has_mutable_default(sub):
                    # nested sharing (a mutable leaf object inside the shared branch dict) is outside
                    # the model's one-level heap
                    bd = 'split_dict'
                sub['d'].append(['_divider', bd])
            kvs.append([k, sub])
        else:
            v = g_var(rng, int_sibs)
            kvs.append([k, v])
            d = _dget(v, '_default')
            if isinstance(d, int) and not isinstance(d, bool) and abs(d) < 10 ** 6:
                int_sibs.append(k)
    return {'d': kvs}


def _has_mutable_default(cfg):
    if cfg_is_leaf(cfg):
        return _mutable(_dget(cfg, '_default')) or _dget(cfg, '_default') is None
    return any(_has_mutable_default(v) for k, v in cfg['d'] if isinstance(v, dict) and 'd' in v
               and k != '_divider')


def g_proc(rng, pid, stores):
    """a process with 1-2 ports, each mapped to one of the compartment's stores"""
    ports, topo = [], []
    for i, st in enumerate(stores):
        pn = f'port{i}'
        ports.append([pn, g_store_cfg(rng, rng.choice([1, 2]))])
        topo.append([pn, {'l': [st]}])
    return {'d': [['__proc__', {'d': [['pid', pid], ['ports', {'d': ports}], ['topo', {'d': topo}]]}]]}


def compartment_vars(procs):
    """{path tuple (inside the compartment): leaf config} and branch dividers {path: divider}
    declared by a compartment's processes (later declarations refine earlier ones)"""
    leaves, branches = {}, {}

    def walk(cfg, path):
        if cfg_is_leaf(cfg):
            leaves[path] = cfg
            return
        for k, v in cfg['d']:
            if k == '_divider':
                branches[path] = v
            elif isinstance(v, dict) and 'd' in v:
                walk(v, path + (k,))

    for name, p in procs['d']:
        spec = dict(p['d'][0][1]['d'])
        topo = dict((k, tuple(v['l'])) for k, v in spec['topo']['d'])
        for port, sub in spec['ports']['d']:
            walk(sub, topo.get(port, (port,)))
    return leaves, branches


class _T(dict):
    """a tree under construction (plain Python keys), as opposed to an encoded value"""


def _put(tree, path, v):
    """tree[path] = v unless the path collides with a value already placed"""
    cur = tree
    for k in path[:-1]:
        cur = cur.setdefault(k, _T())
        if not isinstance(cur, _T):
            return
    if path[-1] not in cur:
        cur[path[-1]] = v


def _enc_tree(x):
    if isinstance(x, _T):
        return {'d': [[k, _enc_tree(v)] for k, v in x.items()]}
    return x


def g_override(rng, leaves, p=0.25):
    """an explicit initial_state for a daughter: overrides some variables"""
    out = _T()
    for path, cfg in leaves.items():
        if rng.random() < p:
            d = _dget(cfg, '_default')
            if isinstance(d, int) and not isinstance(d, bool):
                v = rng.randrange(100, 200)
            elif tag_of(d) == '__qty__':   # pint treats a bare 0 specially: stay with quantities
                v = {'l': ['__qty__', 64 * rng.randrange(-9, 9), d['l'][2]]}
            elif tag_of(d) == '__flt__':
                v = rng.randrange(-64, 64)
            elif isinstance(d, dict) and 'd' in d and not tag_of(d):
                v = g_dict(rng, 1) if rng.random() < 0.9 else 5
            else:
                v = rng.choice([0, 'ov', None])
            _put(out, path, v)
    if rng.random() < 0.1:
        out['unknown'] = 1
    return _enc_tree(out)


def g_mutation(rng, agent, leaves):
    """a batch on one daughter: plain updates suited to the declared updaters"""
    upd = _T()
    for path, cfg in leaves.items():
        if rng.random() < 0.6:
            d = _dget(cfg, '_default')
            u = _dget(cfg, '_updater')
            if u == 'dict_value':
                v = {'d': [['_add', {'l': [{'d': [['key', rng.choice(['n1', 'n2'])],
                                                  ['state', rng.randrange(9)]]}]}]]}
            elif u in ('set', 'null'):
                v = rng.randrange(50, 60)
            elif isinstance(d, int) and not isinstance(d, bool) or isinstance(d, bool):
                v = rng.randrange(1, 5)
            elif isinstance(d, dict) and 'l' in d and not tag_of(d):
                v = {'l': [9]}
            elif isinstance(d, str):
                v = 'm'
            elif tag_of(d) == '__flt__':
                v = rng.randrange(1, 4)
            elif tag_of(d) == '__qty__':
                v = {'l': ['__qty__', 64, d['l'][2]]}
            else:
                continue
            _put(upd, path, v)
    return {'d': [['agents', {'d': [[agent, _enc_tree(upd)]]}]]}


def gen_store_case(rng):
    nproc = rng.choice([1, 1, 2])
    stores = ['internal', 'glob', 'extra', 'more']
    rng.shuffle(stores)
    procs = []
    for i in range(nproc):
        # mostly separate stores per process; sometimes two processes declare into one store
        mine = stores[2 * i:2 * i + rng.choice([1, 2])]
        pr = g_proc(rng, f'pid{i}', mine)
        if i > 0 and rng.random() < 0.2:
            # two processes declare the same variables (identical declarations) in one store
            spec = dict(pr['d'][0][1]['d'])
            first = dict(procs[0][1]['d'][0][1]['d'])
            spec['ports']['d'].append(['shared', first['ports']['d'][0][1]])
            spec['topo']['d'].append(['shared', first['topo']['d'][0][1]])
        procs.append([f'p{i}', pr])
    comp = {'d': procs}
    leaves, branches = compartment_vars(comp)
    top = [['agents', {'d': [['m', comp]]}]]
    init_agent = g_override(rng, leaves, 0.3)
    init = {'d': [['agents', {'d': [['m', init_agent]]}]]}
    if rng.random() < 0.5:
        # something outside the mother: a sibling agent with its own process and an environment
        top[0][1]['d'].append(['sib', {'d': [['q0', g_proc(rng, 'sibp', ['internal'])]]}])
    build = {'kind': 'generate', 'procs': {'d': top}, 'init': init}
    steps = []
    alive = ['m']
    gens = rng.choice([1, 1, 2, 3])
    for g in range(gens):
        mother = rng.choice(alive)
        alive.remove(mother)
        ds = []
        for side in '01':
            d = [['key', mother + side]]
            if rng.random() < 0.45:
                d.append(['initial_state', g_override(rng, leaves, 0.25)])
            if rng.random() < 0.15:
                d.append(['processes', comp])
            rng.shuffle(d)
            ds.append({'d': d})
        if rng.random() < 0.03:
            ds = ds[:1]
        dv = {'d': [['mother', mother], ['daughters', {'l': ds}]]}
        upd = {'d': [['agents', {'d': [['_divide', dv]]}]]}
        steps.append({'update': upd, 'choices': [rng.random() < 0.5 for _ in range(len(leaves) + 2)],
                      'binoms': [rng.randrange(0, 10 ** 9) for _ in range(len(leaves) + 2)],
                      'divide': mother})
        alive += [mother + '0', mother + '1']
        if rng.random() < 0.8:
            who = rng.choice([mother + '0', mother + '1'])
            steps.append({'update': g_mutation(rng, who, leaves), 'mutate': who})
    return {'kind': 'store', 'build': build, 'steps': steps}


def generate(rng, n, tier):
    return [gen_fn_case(rng) if rng.random() < 0.35 else gen_store_case(rng) for _ in range(n)]


def _simple_case(ports, init=None, daughters=None, mutate=None, choices=(True, False, True, False)):
    comp = {'d': [['p0', {'d': [['__proc__', {'d': [['pid', 'pid0'], ['ports', E({'port0': ports})],
                                                    ['topo', E({'port0': ['internal']})]]}]]}]]}
    build = {'kind': 'generate', 'procs': {'d': [['agents', {'d': [['m', comp]]}]]},
             'init': E({'agents': {'m': {'internal': init or {}}}})}
    ds = daughters or [{'key': 'm0'}, {'key': 'm1'}]
    steps = [{'update': E({'agents': {'_divide': {'mother': 'm', 'daughters': ds}}}),
              'choices': list(choices), 'binoms': [12345, 7], 'divide': 'm'}]
    if mutate:
        steps.append({'update': E({'agents': {'m0': {'internal': mutate}}}), 'mutate': 'm0'})
    return {'kind': 'store', 'build': build, 'steps': steps}


def corpus():
    return [
        {'kind': 'names'},
        # F11 witnesses (pre-fix: divide_split(-3) == [0, -1]; halves of 2**54+3 did not sum to it)
        {'kind': 'fn', 'name': 'split', 'state': -3, 'choices': [True], 'binoms': []},
        {'kind': 'fn', 'name': 'split', 'state': -3, 'choices': [False], 'binoms': []},
        {'kind': 'fn', 'name': 'split', 'state': 2 ** 54 + 3, 'choices': [True], 'binoms': []},
        {'kind': 'fn', 'name': 'split', 'state': -(2 ** 70) - 1, 'choices': [False], 'binoms': []},
        {'kind': 'fn', 'name': 'split_dict', 'state': E({'a': 1, 'b': 2, 'c': 3}), 'choices': [],
         'binoms': []},
        {'kind': 'fn', 'name': 'binomial', 'state': 11, 'choices': [], 'binoms': [4711]},
        _simple_case({'n': {'_default': -3, '_divider': 'split'},
                      'h': {'_default': 2 ** 54 + 3, '_divider': 'split'},
                      'z': {'_default': 5, '_divider': 'zero'},
                      'k': {'_default': 9, '_divider': 'binomial'},
                      'sub': {'_divider': 'split_dict', 'u': {'_default': 1}, 'v': {'_default': 2}}},
                     daughters=[{'key': 'm0', 'initial_state': {'internal': {'z': 100, 'q': 5}}},
                                {'key': 'm1'}]),
        # F12 witness: default `set` divider shares one dict between the daughters; dict_value
        # updates it in place
        dict(_simple_case({'d': {'_default': {'x': 1}, '_updater': 'dict_value'},
                           'n': {'_default': 4, '_divider': 'split'}},
                          mutate={'d': {'_add': [{'key': 'y', 'state': 2}]}, 'n': 1}),
             expect_known='F12'),
        # same variable, immutable value: independent
        _simple_case({'d': {'_default': 5, '_updater': 'set'}}, mutate={'d': 6}),
    ]


# ------------------------------------------------------------------ implementation side

def _strip(j):
    """drop nothing, but show processes by pid (already done by enc2)"""
    return j


def _walk_nodes(store, acc):
    acc.append(store)
    for c in store.inner.values():
        _walk_nodes(c, acc)
    return acc


def _get(j, path):
    for k in path:
        if not (isinstance(j, dict) and 'd' in j):
            return _MISSING
        j = _dget(j, k, _MISSING)
        if j is _MISSING:
            return _MISSING
    return j


def _effective_divider(leaves, branches, path):
    """outermost node on the way to `path` that carries a usable divider; returns
    (node path, divider description, config) — leaves default to 'set'"""
    for i in range(0, len(path) + 1):
        p = path[:i]
        if p in branches:
            d = branches[p]
            if isinstance(d, str) and d in DIVIDERS:
                return p, d, None
            if isinstance(d, dict):
                return p, 'other', None
    cfg = leaves.get(path)
    if cfg is None:
        return path, 'other', None
    d = _dget(cfg, '_divider', 'set')
    if isinstance(d, str):
        return path, (d if d in DIVIDERS else 'set'), None
    if isinstance(d, dict) and 'd' in d:
        name = _dget(d, 'divider')
        if name == 'set_value' and _dget(d, 'config', _MISSING) is not _MISSING \
                and _dget(d, 'topology', _MISSING) is _MISSING:
            return path, 'set_value', _dget(d, 'config')
    return path, 'other', None


def _shared_tag(leaves, branches, v, w, need_updater):
    """'[set-shared] ' when every variable that differs between v and w is a mutable value handed to
    both daughters by `set` / `set_value` (finding F12), else ''"""
    tag = ''
    for path, cfg in leaves.items():
        x, y = _get(v, path), _get(w, path)
        if x is not _MISSING and norm_bool(canon(x)) != norm_bool(canon(y)):
            node, div, _c = _effective_divider(leaves, branches, path)
            if div in ('set', 'set_value') and _mutable(x) and \
                    (need_updater is None or _dget(cfg, '_updater') == need_updater):
                tag = '[set-shared] '
            else:
                return ''
    return tag


def default_tree(leaves, path):
    if path in leaves:
        return _dget(leaves[path], '_default')
    out = _T()
    for p, cfg in leaves.items():
        if p[:len(path)] == path and len(p) > len(path):
            _put(out, p[len(path):], _dget(cfg, '_default'))
    return _enc_tree(out)


def check_division(case, step, before, after, leaves, branches, overrides, fails):
    """the property's division laws on the implementation's before/after values"""
    mother = step['divide']
    keys = [dict(d['d'])['key'] for d in _dget(_dget(_dget(step['update'], 'agents'), '_divide'),
                                               'daughters')['l']]
    agents_b, agents_a = _dget(before, 'agents'), _dget(after, 'agents')
    # frame: everything except the mother and the daughters is as before
    for k, v in before['d']:
        if k != 'agents' and norm_bool(canon(v)) != norm_bool(canon(_dget(after, k, _MISSING))):
            fails.append(f'divide-frame: {k} outside the compartment changed')
    for k, v in agents_b['d']:
        if k != mother and k not in keys and \
                norm_bool(canon(v)) != norm_bool(canon(_dget(agents_a, k, _MISSING))):
            tag = _shared_tag(leaves, branches, v, _dget(agents_a, k, _MISSING), None)
            fails.append(f'divide-frame: {tag}agent {k} changed when {mother} divided')
    if _dget(agents_a, mother, _MISSING) is not _MISSING and mother not in keys:
        fails.append('divide: the mother is still there')
    if len(keys) != 2:
        return
    da, db = _dget(agents_a, keys[0], _MISSING), _dget(agents_a, keys[1], _MISSING)
    if da is _MISSING or db is _MISSING:
        fails.append('divide: a daughter is missing')
        return
    mv_all = _dget(agents_b, mother)
    seen_nodes = set()
    for path, cfg in leaves.items():
        node, div, config = _effective_divider(leaves, branches, path)
        mv = _get(mv_all, node)
        if mv is _MISSING:
            continue
        vals = []
        for side, d in enumerate((da, db)):
            ov = _get(overrides[side], node) if overrides[side] is not None else _MISSING
            # an explicit value at, above or below the node: this side is (partly) overridden
            over = ov is not _MISSING
            for i in range(len(node)):
                if overrides[side] is not None:
                    pv = _get(overrides[side], node[:i])
                    if pv is not _MISSING and not (isinstance(pv, dict) and 'd' in pv):
                        over = True
            vals.append((_get(d, node), over, ov))
        if node in seen_nodes:
            continue
        seen_nodes.add(node)
        (a, oa, ova), (b, ob, ovb) = vals
        if a is _MISSING or b is _MISSING:
            continue
        shared_tag = '[set-shared] ' if div in ('set', 'set_value') and _mutable(mv) else ''
        # explicit initial state wins (non-dict values replace; dicts merge into the share)
        for side, (x, o, ov) in enumerate(vals):
            if o and ov is not _MISSING and not (isinstance(ov, dict) and 'd' in ov) and node in leaves:
                if norm_bool(canon(x)) != norm_bool(canon(ov)):
                    fails.append(f'daughter-state: {keys[side]}{node} holds {_short(x)}, explicit '
                                 f'initial state {_short(ov)}')
        if oa or ob:
            # the law constrains the side that was not overridden, where it is a function of mv
            for side, (x, o, ov) in enumerate(vals):
                if o or node not in leaves:
                    continue
                if div in ('set', 'zero', 'set_value'):
                    msg = law_check(div, mv, x, x, config)
                    if msg:
                        fails.append(f'divider-law: {shared_tag}{keys[side]}{node}: {msg}')
                elif div == 'split' and isinstance(mv, int):
                    m = int(mv)
                    if not isinstance(x, int) or int(x) not in (m // 2, m - m // 2):
                        fails.append(f'divider-law: {keys[side]}{node}: split share {_short(x)} of {m}')
            continue
        if div in ('null',):
            if node in leaves:
                dflt = _dget(leaves[node], '_default')
                for side, (x, o, ov) in enumerate(vals):
                    if norm_bool(canon(x)) != norm_bool(canon(dflt)):
                        fails.append(f'daughter-state: {keys[side]}{node} holds {_short(x)}; nothing was '
                                     f'divided, the default is {_short(dflt)}')
            continue
        if div == 'other' or div == 'no_divide':
            continue
        if node not in leaves and div == 'split_dict':
            # a branch divided by split_dict: every child goes to one daughter, the other one
            # falls back to the defaults
            if isinstance(mv, dict) and 'd' in mv:
                for k, v in mv['d']:
                    dk = default_tree(leaves, node + (k,))
                    xa, xb = _get(a, (k,)), _get(b, (k,))
                    eq = lambda x, y: norm_bool(canon(x)) == norm_bool(canon(y))  # noqa
                    if not ((eq(xa, v) and eq(xb, dk)) or (eq(xb, v) and eq(xa, dk))):
                        fails.append(f'divider-law: {node}: split_dict: child {k} holds {_short(xa)} / '
                                     f'{_short(xb)}; mother {_short(v)}, default {_short(dk)}')
            continue
        if node not in leaves and div != 'set':
            continue
        msg = law_check(div, mv, a, b, config)
        if msg:
            fails.append(f'divider-law: {shared_tag}{node}: {msg}')


def run_impl(case):
    from vivarium.core.registry import updater_registry, divider_registry
    kind = case['kind']
    if kind == 'names':
        return {'obs': {'updaters': sorted([k, f.__name__] for k, f in updater_registry.registry.items()),
                        'dividers': sorted([k, f.__name__] for k, f in divider_registry.registry.items())},
                'fails': []}
    fails = []
    if kind == 'fn':
        name = case['name']
        f = _reg.USER_DIV[name[5:]] if name.startswith('user:') else divider_registry.access(name)
        state = dec2(case['state'])
        kw = {}
        if 'config' in case:
            kw['config'] = dec2(case['config'])
        if 'tstate' in case:
            kw['state'] = dec2(case['tstate'])
        res_obj = None
        with scripted(case['choices'], case['binoms']):
            try:
                res_obj = f(state, **kw)
                res = {'ok': ({'some': [enc2(res_obj[0]), enc2(res_obj[1])]} if res_obj else
                              {'none': None})}
                if res_obj and len(res_obj) != 2:
                    fails.append('divider returned other than two values')
            except Exception as e:  # noqa
                res = {'err': 'err'}
                if name == 'no_divide' and not isinstance(e, AssertionError) and not kw:
                    fails.append('no_divide: raised something other than AssertionError')
        if name == 'no_divide' and 'ok' in res:
            fails.append('no_divide: did not raise')
        if res_obj and not kw and name in DIVIDERS:
            msg = law_check(name, case['state'], res['ok']['some'][0], res['ok']['some'][1])
            if msg:
                fails.append('divider-law: ' + msg)
            if name == 'set' and not (res_obj[0] is state and res_obj[1] is state):
                fails.append('divider-law: set did not hand over the mother\'s value itself')
        if res_obj and name == 'set_value' and 'config' in kw and 'state' not in kw:
            msg = law_check(name, case['state'], res['ok']['some'][0], res['ok']['some'][1], case['config'])
            if msg:
                fails.append('divider-law: ' + msg)
        if name == 'null' and not kw and res != {'ok': {'none': None}}:
            fails.append('divider-law: null returned something')
        if name == 'binomial' and isinstance(case['state'], int) and not isinstance(case['state'], bool) \
                and 0 <= case['state'] < 2 ** 31 and not kw:
            # the real generator, seeded: the total is conserved and both shares are counts
            import numpy as np
            np.random.seed(case['binoms'][0] % (2 ** 32) if case['binoms'] else 0)
            r = f(case['state'])
            if int(r[0]) + int(r[1]) != case['state'] or int(r[0]) < 0 or int(r[1]) < 0:
                fails.append(f'divider-law: binomial (numpy draw) {r} of {case["state"]}')
        if name == 'split' and isinstance(case['state'], int) and not kw:
            # the real random.choice, both sides
            seen = set()
            _random.seed(case['state'] % 1000)
            for _ in range(12):
                r = f(case['state'])
                seen.add(tuple(r))
                if r[0] + r[1] != case['state'] or abs(r[0] - r[1]) > 1:
                    fails.append(f'divider-law: split {r} of {case["state"]}')
                    break
        return {'obs': res, 'fails': fails}

    # ---- store level
    try:
        store = _reg.build_store(case['build'])
    except Exception as e:  # noqa: conflicting declarations are rejected when the store is built
        return {'obs': [{'err': exc_name(e)}], 'fails': []}
    obs = [{'ok': enc2(store.get_value())}]
    comp_procs = dict(dict(case['build']['procs']['d'])['agents']['d'])['m']
    leaves, branches = compartment_vars(comp_procs)
    for step in case['steps']:
        upd = _reg.dec_update(step['update'])
        before = obs[-1]['ok']
        nodes_before = _walk_nodes(store, [])
        with scripted(step.get('choices', []), step.get('binoms', [])):
            try:
                store.apply_update(upd)
                after = enc2(store.get_value())
                obs.append({'ok': after})
            except Exception as e:  # noqa
                obs.append({'err': exc_name(e)})
                break
        if 'divide' in step:
            dspec = _dget(_dget(_dget(step['update'], 'agents'), '_divide'), 'daughters')['l']
            overrides = []
            for d in dspec:
                ov = _dget(d, 'initial_state', _MISSING)
                overrides.append(None if ov is _MISSING else ov)
            while len(overrides) < 2:
                overrides.append(None)
            explicit = [(_dget(d, 'processes', _MISSING) is not _MISSING) for d in dspec]
            check_division(case, step, before, after, leaves, branches, overrides, fails)
            # separate process instances and separate store nodes
            keys = [dict(d['d'])['key'] for d in dspec]
            if len(keys) == 2 and all(k in store.inner['agents'].inner for k in keys):
                n0 = _walk_nodes(store.inner['agents'].inner[keys[0]], [])
                n1 = _walk_nodes(store.inner['agents'].inner[keys[1]], [])
                old = set(id(x) for x in nodes_before)
                if set(id(x) for x in n0) & set(id(x) for x in n1):
                    fails.append('daughter-dependence: the daughters share a store node')
                from vivarium.core.process import Process
                p0 = [x.value for x in n0 if isinstance(x.value, Process)]
                p1 = [x.value for x in n1 if isinstance(x.value, Process)]
                pold = [x.value for x in nodes_before if isinstance(x.value, Process)]
                if set(id(x) for x in p0) & set(id(x) for x in p1):
                    fails.append('daughter-dependence: the daughters share a process instance')
                if not any(explicit) and (set(id(x) for x in p0 + p1) & set(id(x) for x in pold)):
                    fails.append('daughter-dependence: a daughter runs the mother\'s process instance')
                if set(id(x.parameters) for x in p0) & set(id(x.parameters) for x in p1):
                    fails.append('daughter-dependence: the daughters\' processes share their parameters')
                if len(p0) != len(p1) and not any(explicit):
                    fails.append('daughter-state: the daughters hold different numbers of processes')
        if 'mutate' in step:
            who = step['mutate']
            ab, aa = _dget(before, 'agents'), _dget(after, 'agents')
            for k, v in before['d']:
                if k != 'agents' and norm_bool(canon(v)) != norm_bool(canon(_dget(after, k, _MISSING))):
                    fails.append(f'daughter-dependence: {k} outside changed when {who} was updated')
            for k, v in ab['d']:
                if k == who:
                    continue
                w = _dget(aa, k, _MISSING)
                if norm_bool(canon(v)) != norm_bool(canon(w)):
                    # which variable, and is it the known sharing?
                    tag = _shared_tag(leaves, branches, v, w, 'dict_value')
                    fails.append(f'daughter-dependence: {tag}updating {who} changed {k}')
    return {'obs': obs, 'fails': fails}


# ------------------------------------------------------------------ model side

def model_requests(case):
    k = case['kind']
    if k == 'names':
        return [{'op': 'tables'}]
    if k == 'fn':
        r = {'op': 'fn_div', 'name': case['name'], 'state': case['state'], 'choices': case['choices'],
             'binoms': case['binoms'], 'conv': CONV}
        for key in ('config', 'tstate'):
            if key in case:
                r[key] = case[key]
        return [r]
    steps = [{'update': s['update'], 'choices': s.get('choices', []), 'binoms': s.get('binoms', [])}
             for s in case['steps']]
    return [{'op': 'script', 'build': case['build'], 'steps': steps, 'conv': CONV}]


def model_obs(case, ans):
    k = case['kind']
    if k == 'names':
        a = ans[0]
        if not (a.get('updatersModelled') and a.get('dividersModelled')):
            return {'updaters': 'unmodelled entry', 'dividers': 'unmodelled entry'}
        return {'updaters': sorted(a['updaters']), 'dividers': sorted(a['dividers'])}
    if k == 'fn':
        a = ans[0]
        return {'err': 'err'} if 'err' in a else a
    return ans[0]


def compare(case, impl, model):
    io = impl.get('obs') if isinstance(impl, dict) else None
    if io is None:
        return f'implementation probe failed: {_short(impl)}'
    if norm_bool(canon(io)) != norm_bool(canon(model)):
        if isinstance(io, list) and isinstance(model, list):
            for i, (a, b) in enumerate(zip(io, model)):
                if norm_bool(canon(a)) != norm_bool(canon(b)):
                    return f'step {i}: impl={_short(a)} model={_short(b)}'
            return f'lengths differ: impl={len(io)} model={len(model)}'
        return f'impl={_short(io)} model={_short(model)}'
    return None


def oracle(case, impl):
    if not isinstance(impl, dict) or 'fails' not in impl:
        return [f'probe-crashed: {_short(impl)}']
    return impl['fails']


def classify(case, failure):
    if '[set-shared]' in failure:
        return 'F12'
    return None


def nontrivial(case, impl):
    if case['kind'] == 'fn':
        o = impl.get('obs', {})
        return isinstance(o.get('ok'), dict) and 'some' in o['ok']
    if case['kind'] == 'store':
        divs = [s for s in case['steps'] if 'divide' in s]
        ok = [o for o in impl.get('obs', []) if 'ok' in o]
        return len(ok) >= 2 and (len(divs) >= 2 or len(_short(case['build'])) > 300)
    return False


def stats(results):
    from collections import Counter
    kinds = Counter(r['case']['kind'] for r in results)
    fn = Counter(r['case']['name'] for r in results if r['case']['kind'] == 'fn')
    gens = Counter(sum(1 for s in r['case']['steps'] if 'divide' in s) for r in results
                   if r['case']['kind'] == 'store')
    rejected = sum(1 for r in results if r['case']['kind'] == 'store' and isinstance(r['impl'], dict)
                   and any('err' in o for o in (r['impl'].get('obs') or [])))
    divs = Counter()
    for r in results:
        if r['case']['kind'] == 'store':
            s = _short(r['case']['build'])
            for d in DIVIDERS + ['__fn__', 'topology', 'bogus']:
                if f'"{d}"' in _shortall(r['case']['build']):
                    divs[d] += 1
    f12 = sum(1 for r in results if any('[set-shared]' in f for f in r['fails']))
    return {'kinds': dict(kinds), 'fn_by_divider': dict(fn), 'generations': dict(gens),
            'store_cases_with_a_rejected_batch': rejected, 'store_cases_declaring': dict(divs),
            'cases_showing_F12': f12}


def _shortall(x):
    import json
    return json.dumps(x, default=str)


def shrink(case):
    if case['kind'] != 'store':
        return
    steps = case['steps']
    for i in range(len(steps) - 1, 0, -1):
        c = dict(case)
        c['steps'] = steps[:i]
        yield c


LEVEL_TEXT = ('Lean 4 theorems over the model of registry.py dividers and Store.divide_value / divide / '
              'generate: split on Int conserves the total for ALL integers and either coin (after F11), '
              'halves differ by at most the remainder; float halves are exact; infinite markers copied; '
              'binomial conserves the total for every draw; split_dict partitions the items; zero, set, '
              'set_value, null, no_divide; a branch-level divider takes precedence, otherwise the '
              'children are divided one by one; default divider = set (null for processes); a daughter '
              'leaf holds explicit initial state, else its share, else the default; nothing outside the '
              'mother and the daughters changes; updating one daughter leaves the other unchanged when the '
              'updated leaf owns its value or the updater is not in place (independent_partial), and the '
              'full statement is refuted on the F12 witness; every registered divider name is modelled.')
LEVEL_NOTE = ('Trusted: Lean kernel; axioms within {propext, Classical.choice, Quot.sound}; the hand-written '
              'model, validated against real Store objects over 1-3 generations on every run; random draws '
              'are scripted inputs. Independence of process instances / store nodes is checked on the '
              'implementation by object identity (the functional model has no process identity). Known '
              'finding F12 is reproduced by the model (shared heap object) and reported as KNOWN-FINDING.')
TECHNIQUE = 'Lean 4 proof (arithmetic, induction over the store) + model/code correspondence (differential) + law oracle'


# daughters built by one composer with per-daughter configuration: nothing is shared through the composer
from harness import composerdiv as _cdv                 # noqa: E402
from harness.mixins import add_family as _add_family    # noqa: E402
_add_family(globals(), _cdv, 'composerdiv', _cdv.oracle, share=0.03)
# daughters starting from one shared dictionary value, one of them merging into a nested entry afterwards
from harness import mergediv as _md                     # noqa: E402
_add_family(globals(), _md, 'mergediv', _md.oracle, share=0.02)


# dividers with a wildcard topology
from harness import wilddiv as _wd                      # noqa: E402
from harness.mixins import add_family as _add_family    # noqa: E402,F811
_add_family(globals(), _wd, 'wilddiv', _wd.oracle, share=0.03)
