"""C05 — steps run once per phase, after process updates, in dependency order.

Two kinds of cases: scheduler scenarios with steps (real Engine, traced) and operation sequences
on the real `_StepGraph` (add / add_sequential / remove) compared with `VivModel/StepGraph.lean`
(this is what validates the replacement of networkx by explicit Kahn layering)."""
from harness import sched_common as sc
from harness import sched_prop
from harness.sched_prop import P, S

PROP = 'C05'
LEAN_TARGETS = ['VivProps.C05']
DRIVER = 'Sched'
REQUIRED_THEOREMS = ['sequential_first', 'dependency_in_earlier_layer', 'step_in_one_layer',
                     'phase_runs_each_step_once', 'layer_same_view', 'phase_placement',
                     'phase_at_construction', 'layered_steps_are_nodes', 'every_step_layered']
ANCHORS = sched_prop.ENGINE_ANCHORS + [
    ('vivarium/core/engine.py', ['_StepGraph.add', '_StepGraph.add_sequential', '_StepGraph._validate',
                                 '_StepGraph.get_execution_layers', '_StepGraph.remove',
                                 'Engine._add_step_path', 'Engine._find_step_paths'])]
BUDGET = {'quick': 300, 'thorough': 8000}
RULE = ('(a) scheduler scenarios with 1–4 steps: random DAG flows registered out of dependency order, legacy '
        'derivers (no flow entry), step conditions, steps whose updates are derived from the state their '
        'dependencies wrote; (b) random operation sequences on _StepGraph over nested paths (add with '
        'dependencies incl. not-yet-registered ones, add_sequential, remove, cycles). Non-trivial: ≥ 2 steps '
        'with at least one dependency edge, or ≥ 4 graph operations.')
TRUSTED = ['networkx.topological_generations / descendants / is_directed_acyclic_graph (replaced by explicit '
           'definitions in the model; compared on every generated graph)',
           'IEEE float arithmetic of global_time (integer ticks in the model)']
ASSUMPTIONS = ['steps terminate, do not raise, do not mutate their arguments']
CASE_TIMEOUT = 20.0


def _graph_case(rng):
    names = [['a'], ['b'], ['c'], ['d'], ['n', 'x'], ['n', 'y'], ['e']]
    rng.shuffle(names)
    names = names[:rng.randrange(2, 7)]
    ops = []
    present = []
    seqs = []
    for _ in range(rng.randrange(2, 10)):
        r = rng.random()
        if r < 0.55 or not present:
            p = rng.choice(names)
            deps = rng.sample(names, rng.randrange(0, min(3, len(names))))
            deps = [d for d in deps if d != p or rng.random() < 0.1]
            ops.append({'k': 'add', 'p': p, 'deps': deps})
            present.append(p)
        elif r < 0.7:
            # (registering a deriver path again keeps its place: F54)
            fresh = [n for n in names if n not in present or (n in seqs and rng.random() < 0.3)]
            if not fresh:
                continue
            p = rng.choice(fresh)
            seqs.append(p)
            ops.append({'k': 'seq', 'p': p})
            present.append(p)
        else:
            ops.append({'k': 'remove', 'p': rng.choice(present if rng.random() < 0.85 else names)})
    return {'kind': 'graph', 'ops': ops}


def corpus():
    base = sched_prop.scheduler_corpus()[:3]
    st = lambda name, extra=None: {'pid': [name], 'ts': {'script': [1]}, 'cond': {'script': [True]},
                                   'upd': [{'var': sc.tok(name), 'a': 1, 'b': 0, 'c': 1, 'src': '', 'd': 0}] + (extra or []),
                                   'parallel': False}
    chain = S([P('p0', [2])], [[6, True]],
              steps=[st('s2', [{'var': 'x0', 'a': 0, 'b': 0, 'c': 0, 'src': 'x0', 'd': 1}]),
                     st('s0', [{'var': 'x0', 'a': 3, 'b': 0, 'c': 0, 'src': '', 'd': 0}]),
                     st('s1', [{'var': 'x0', 'a': 0, 'b': 0, 'c': 0, 'src': 'x0', 'd': 2}])],
              step_deps=[{'p': ['s2'], 'deps': [['s1']]}, {'p': ['s0'], 'deps': []},
                         {'p': ['s1'], 'deps': [['s0']]}])
    derivers = S([P('p0', [3])], [[7, True]],
                 steps=[st('d1', [{'var': 'x0', 'a': 0, 'b': 0, 'c': 0, 'src': 'x0', 'd': 1}]),
                        st('d0', [{'var': 'x0', 'a': 5, 'b': 0, 'c': 0, 'src': '', 'd': 0}]),
                        st('f', [{'var': 'x0', 'a': 1, 'b': 0, 'c': 0, 'src': '', 'd': 0}])],
                 step_deps=[{'p': ['d1'], 'deps': None}, {'p': ['d0'], 'deps': None}, {'p': ['f'], 'deps': []}])
    graphs = [
        {'kind': 'graph', 'ops': [{'k': 'add', 'p': ['c'], 'deps': [['a'], ['b']]}, {'k': 'add', 'p': ['b'], 'deps': [['a']]},
                                  {'k': 'add', 'p': ['a'], 'deps': []}, {'k': 'seq', 'p': ['d']}]},
        {'kind': 'graph', 'ops': [{'k': 'add', 'p': ['a'], 'deps': [['b']]}, {'k': 'add', 'p': ['b'], 'deps': [['a']]}]},
        # F55: a step registered again depends on what is listed now (`a` after `c` only; then the reverse of an
        # old edge is no cycle); F54: a deriver registered again keeps its place
        {'kind': 'graph', 'ops': [{'k': 'add', 'p': ['b'], 'deps': []}, {'k': 'add', 'p': ['c'], 'deps': []},
                                  {'k': 'add', 'p': ['a'], 'deps': [['b']]}, {'k': 'add', 'p': ['a'], 'deps': [['c']]},
                                  {'k': 'add', 'p': ['b'], 'deps': [['a']]}]},
        {'kind': 'graph', 'ops': [{'k': 'seq', 'p': ['d']}, {'k': 'seq', 'p': ['e']}, {'k': 'seq', 'p': ['d']}]},
        # F10: removing a step drops the steps that depend on it
        {'kind': 'graph', 'ops': [{'k': 'add', 'p': ['a'], 'deps': []}, {'k': 'add', 'p': ['b'], 'deps': [['a']]},
                                  {'k': 'remove', 'p': ['a']}]},
    ]
    return base + [chain, derivers] + graphs


def generate(rng, n, tier):
    out = []
    for _ in range(n):
        if rng.random() < 0.3:
            out.append(_graph_case(rng))
        else:
            out.append(sc.gen_scenario(rng, max_steps=4, p_quiet=0.2, emit_variants=False))
    return out


def run_impl(case):
    if case.get('kind') == 'graph':
        from vivarium.core.engine import _StepGraph
        g = _StepGraph()
        out = []
        for op in case['ops']:
            p = tuple(op['p'])
            try:
                if op['k'] == 'add':
                    g.add(p, [tuple(d) for d in op['deps']])
                elif op['k'] == 'seq':
                    g.add_sequential(p)
                else:
                    g.remove(p)
                out.append([[list(x) for x in layer] for layer in g.get_execution_layers()])
            except Exception as e:  # noqa
                out.append('error')
                if op['k'] != 'remove':
                    break        # a failed add leaves the real graph in an undefined state
        return {'graph': out}
    return sc.run_engine(case)


def model_requests(case):
    if case.get('kind') == 'graph':
        return [{'op': 'layers', 'ops': case['ops']}]
    return [sc.model_request(case)]


def model_obs(case, ans):
    return ans[0]


STEP_KINDS = ('stepCond', 'stepInvoke', 'stepApply')


def _step_view(events):
    seq = []
    for ev in events:
        if ev['e'] in STEP_KINDS:
            seq.append([ev['e'], ev['p'], ev.get('k', ev.get('n')), ev['t']] +
                       ([ev['ans']] if ev['e'] == 'stepCond' else []))
        elif ev['e'] == 'apply':
            if not seq or seq[-1][0] != 'batch' or seq[-1][1] != ev['t']:
                seq.append(['batch', ev['t']])
        elif ev['e'] in ('emit', 'config'):
            seq.append([ev['e']] + ([ev['t']] if 't' in ev else []))
    return seq


def compare(case, impl, model):
    if case.get('kind') == 'graph':
        got = impl.get('graph') if isinstance(impl, dict) else None
        if got is None:
            return f'probe failed: {impl}'
        want = model[:len(got)]
        return None if got == want else f'layers: impl={got} model={want}'
    guard = sched_prop.common_compare_guard(impl, model)
    if guard:
        return guard
    a = _step_view(impl.get('log', []))
    b = _step_view(sc.model_events(model))
    if a != b:
        for i, (x, y) in enumerate(zip(a, b)):
            if x != y:
                return f'step sequence differs at {i}: impl={x} model={y}'
        return f'step sequence length: impl={len(a)} model={len(b)}'
    if impl.get('raised'):
        return f'engine raised {impl["raised"]}: {impl.get("msg")}'
    return None


def _kahn(steps, deps):
    """independent layering for the oracle: derivers first (declaration order), then generations"""
    seq = [tuple(s) for s, d in zip(steps, deps) if d is None]
    graph = {tuple(s): [tuple(x) for x in d] for s, d in zip(steps, deps) if d is not None}
    for ds in list(graph.values()):
        for d in ds:
            graph.setdefault(d, [])
    layers = [[s] for s in seq]
    live = set(graph)
    while live:
        ready = sorted(n for n in live if not any(d in live for d in graph[n]))
        if not ready:
            return None
        layers.append(ready)
        live -= set(ready)
    return layers


def oracle(case, impl):
    fails = []
    if case.get('kind') == 'graph':
        # independent reading: after each successful op, layers must contain exactly the registered,
        # not-removed steps, sequential ones first in order, dependencies strictly earlier
        got = impl.get('graph') if isinstance(impl, dict) else None
        if got is None:
            return [f'probe-crashed: {impl}']
        seq, nodes, edges = [], [], []

        def acyclic(es):
            succ = {}
            for a, b in es:
                succ.setdefault(a, []).append(b)
            state = {}

            def visit(n):
                if state.get(n) == 1:
                    return False
                if state.get(n) == 2:
                    return True
                state[n] = 1
                ok = all(visit(m) for m in succ.get(n, []))
                state[n] = 2
                return ok
            return all(visit(n) for n in list(succ))
        for op, res in zip(case['ops'], got):
            p = tuple(op['p'])
            if res == 'error':
                if op['k'] == 'add':
                    # a registration may be refused for a cycle or for a path that is a deriver already, nothing else
                    new_edges = [(a, b) for a, b in edges if b != p] + [(tuple(d), p) for d in op['deps']]
                    touched = {p} | {tuple(d) for d in op['deps']}
                    if acyclic(new_edges) and not (touched & set(seq)):
                        fails.append(f'rejected: {op} was refused although the dependencies registered now '
                                     f'({sorted(new_edges)}) form a DAG')
                break        # a failed add leaves the real graph in an undefined state
            if op['k'] == 'add':
                if p not in nodes:
                    nodes.append(p)
                # a step registered again depends on what is listed now (F55)
                edges = [(a, b) for a, b in edges if b != p]
                for d in op['deps']:
                    if tuple(d) not in nodes:
                        nodes.append(tuple(d))
                    edges.append((tuple(d), p))
            elif op['k'] == 'seq':
                if p not in seq:           # registered again: it keeps its place (F54)
                    seq.append(p)
            else:
                if p in seq:
                    seq.remove(p)
                elif p in nodes:
                    nodes.remove(p)
                    edges = [(a, b) for a, b in edges if a != p and b != p]
            flat = [tuple(x) for layer in res for x in layer]
            pos = {}
            for i, layer in enumerate(res):
                for x in layer:
                    pos.setdefault(tuple(x), i)
            if len(flat) != len(set(flat)) and not (set(seq) & set(nodes)):
                fails.append(f'twice: a step is in two layers: {res}')
            missing = [x for x in nodes + seq if x not in pos]
            if missing:
                fails.append(f'dropped: steps {missing} are registered but in no layer after {op}')
                # the real graph has lost them for good: keep our bookkeeping in line with it
                nodes = [x for x in nodes if x in pos]
                edges = [(a, b) for a, b in edges if a in pos and b in pos]
            if [tuple(l[0]) for l in res[:len(seq)]] != seq:
                fails.append(f'sequential: derivers {seq} are not the first layers in order: {res}')
            for a, b in edges:
                if a in pos and b in pos and not pos[a] < pos[b]:
                    fails.append(f'order: {b} depends on {a} but is not in a later layer: {res}')
        return fails[:4]
    if 'harness_exception' in impl:
        return [f'probe-crashed: {impl["harness_exception"]}']
    if impl.get('timeout'):
        return []
    log = impl.get('log', [])
    steps = [sd['p'] for sd in case['stepDeps']]
    deps = [sd['deps'] for sd in case['stepDeps']]
    if not steps:
        return []
    layers = _kahn(steps, deps)
    layer_of = {s: i for i, l in enumerate(layers or []) for s in l}
    # split into phases: maximal runs of step events
    phases = []
    cur = None
    prev_kind = None
    batches_since_phase = 0
    placement = []
    for ev in log:
        if ev['e'] in STEP_KINDS:
            if cur is None:
                cur = []
                phases.append(cur)
                placement.append(prev_kind)
            cur.append(ev)
        else:
            cur = None
            if ev['e'] in ('apply', 'emit', 'config', 'invoke'):
                prev_kind = ev['e']
    n_batches = 0
    last_t = None
    for ev in log:
        if ev['e'] == 'apply' and ev['t'] != last_t:
            n_batches += 1
            last_t = ev['t']
    if not impl.get('raised') and len(phases) != 1 + n_batches:
        fails.append(f'placement: {len(phases)} step phases for 1 construction + {n_batches} batches')
    for k, pk in enumerate(placement):
        if k == 0 and pk is not None:
            fails.append('placement: the first phase is not at construction')
        if k > 0 and pk != 'apply':
            fails.append(f'placement: phase {k} follows a "{pk}" event, not a batch of process updates')
    ran_count = {}
    for ph in phases:
        conds = [ev for ev in ph if ev['e'] == 'stepCond']
        ids = [tuple(ev['p']) for ev in conds]
        if sorted(ids) != sorted(tuple(s) for s in steps):
            fails.append(f'once: phase at {ph[0]["t"]} polled {ids}, steps are {steps}')
            break
        for ev in ph:
            if ev['e'] in ('stepCond', 'stepInvoke') and ev['ts'] != 0:
                fails.append(f'timestep: step {ev["p"]} got timestep {ev["ts"]}')
        index = {}
        for i, ev in enumerate(ph):
            index.setdefault((ev['e'], tuple(ev['p'])), i)
        for s, ds in zip(steps, deps):
            for d in (ds or []):
                s_, d_ = tuple(s), tuple(d)
                if ('stepCond', d_) in index and index[('stepCond', s_)] < index[('stepCond', d_)]:
                    fails.append(f'order: {s} ran before its dependency {d}')
                if ('stepApply', d_) in index and index[('stepApply', d_)] > index[('stepCond', s_)]:
                    fails.append(f'order: {s} was started before the update of its dependency {d} was applied')
        derivers = [tuple(s) for s, d in zip(steps, deps) if d is None]
        if ids[:len(derivers)] != derivers:
            fails.append(f'sequential: derivers {derivers} did not run first in declaration order: {ids}')
        # same layer, same state; and a step sees the updates of its dependencies of this phase
        if layers:
            by_layer = {}
            for ev in conds:
                by_layer.setdefault(layer_of.get(tuple(ev['p'])), []).append(ev['view'])
            for li, views in by_layer.items():
                if any(v != views[0] for v in views):
                    fails.append(f'same-state: steps of layer {li} saw different states')
            for ev in conds:
                view = dict(ev['view'])
                for s, ds in zip(steps, deps):
                    if tuple(s) != tuple(ev['p']):
                        continue
                    for d in (ds or []):
                        name = d[0]
                        exp = sum(j + 1 for j in range(ran_count.get(tuple(d), 0)))
                        ran_now = ('stepInvoke', tuple(d)) in index
                        k_d = next((e2['k'] for e2 in ph if e2['e'] == 'stepInvoke' and tuple(e2['p']) == tuple(d)), None)
                        if ran_now and view.get(sc.tok(name)) is not None:
                            # token accumulates k+1 per run: the dependency's run of this phase must be in
                            prior = _tok_total(log, ph, d)
                            if view[sc.tok(name)] != prior + k_d + 1:
                                fails.append(f'sees-deps: {s} does not see the update {d} made in this phase')
        for ev in ph:
            if ev['e'] == 'stepInvoke':
                ran_count[tuple(ev['p'])] = ran_count.get(tuple(ev['p']), 0) + 1
        if fails:
            break
    return fails[:5]


def _tok_total(log, phase, d):
    """sum of token deltas (k+1) of step d applied strictly before this phase"""
    total = 0
    first = phase[0]
    for ev in log:
        if ev is first:
            break
        if ev['e'] == 'stepApply' and tuple(ev['p']) == tuple(d):
            total += ev['n'] + 1
    return total


def nontrivial(case, impl):
    if case.get('kind') == 'graph':
        return len(case['ops']) >= 4
    return len(case['steps']) >= 2 and any(sd['deps'] for sd in case['stepDeps'])


def classify(case, failure):
    if case.get('kind') == 'graph' and failure.startswith('dropped:'):
        # known finding F10 only when a removal preceded (descendants removed with the step)
        if any(op['k'] == 'remove' for op in case['ops']):
            return 'F10'
    return None


def stats(results):
    from collections import Counter
    c = Counter()
    for r in results:
        case = r['case']
        if case.get('kind') == 'graph':
            c['graph_cases'] += 1
            c['graph_ops'] += len(case['ops'])
            if isinstance(r['impl'], dict) and 'error' in (r['impl'].get('graph') or []):
                c['graph_errors(cycle/unknown)'] += 1
            continue
        c['steps=%d' % len(case['steps'])] += 1
        c['derivers'] += sum(1 for sd in case['stepDeps'] if sd['deps'] is None)
        c['edges'] += sum(len(sd['deps'] or []) for sd in case['stepDeps'])
        log = r['impl'].get('log', []) if isinstance(r['impl'], dict) else []
        c['step_runs'] += sum(1 for ev in log if ev['e'] == 'stepInvoke')
        c['quiet_step_polls'] += sum(1 for ev in log if ev['e'] == 'stepCond' and not ev['ans'])
    return dict(c)


def shrink(case):
    if case.get('kind') == 'graph':
        for i in range(len(case['ops'])):
            yield {'kind': 'graph', 'ops': case['ops'][:i] + case['ops'][i + 1:]}
        return
    yield from sched_prop.shrink(case)


LEVEL_TEXT = ('Lean 4 theorems: (graph) for every flow the execution layers are the legacy derivers one per layer in '
              'declaration order followed by the Kahn generations; every dependency of a layered step lies in a '
              'strictly earlier layer; no step is in two layers; layered steps are graph nodes; (engine) a step phase '
              'polls every step of the layers exactly once in layer order, all steps of a layer see the state at the '
              'beginning of the layer and the next layer sees all their updates; a loop pass runs exactly one phase '
              'after a batch of process updates (before the emit) and none otherwise; a phase runs at construction '
              'before the first row. Tied to engine.py by trace correspondence and by _StepGraph operation sequences.')
LEVEL_NOTE = ('Trusted: Lean kernel + standard axioms; networkx replaced by explicit definitions (validated by '
              'correspondence on generated graphs); the step graph is static inside the scheduler model — '
              'structural changes of the step set are C10. Known finding F10 (removing a step removes its '
              'dependants) is reproduced by the model and reported as KNOWN-FINDING. Completeness of the layering '
              '(every node of an acyclic graph is layered) is checked by the oracle, not proved.')
TECHNIQUE = 'Lean 4 proofs about Kahn layering and the step phase + trace/graph-operation correspondence'


# structural updates issued by steps: a dependent step sees what its dependencies did in this phase
from harness import structstep as _ss          # noqa: E402
from harness.mixins import add_family as _add_family   # noqa: E402
_add_family(globals(), _ss, 'structstep', lambda case, impl: _ss.oracle(case, impl, who=('census',)))

# flows of nested compartments and of compartments created at run time (constructor / composite / store entry,
# `_generate` with a key, `_divide` with inherited flow)
from harness import dynflow as _df                  # noqa: E402
_add_family(globals(), _df, 'dynflow', _df.oracle, share=0.1)


# legacy derivers (Process subclasses that say they are steps) among the processes, serial or parallel
from harness import legacypar as _lp                    # noqa: E402
from harness.mixins import add_family as _add_family    # noqa: E402,F811
_add_family(globals(), _lp, 'legacypar', _lp.oracle, share=0.04)
