"""C15 — every declared variable is built with its explicit or default initial value.

Correspondence: real `generate_state` / `Engine(...)` / `Composite.generate_store()` /
`Composite.initial_state()` / `default_state()` / `Store._apply_config` on composites of probe
processes vs `VivModel/Init.lean` (node-by-node dump of the built store).
Oracle: a *lexical* reading of (schemas, topology, initial state) — which absolute path every
declared variable is wired to, which declarations meet there — evaluated against the built
store: the variable exists, holds the initial state's value (if present and not None) or the
winning default; conflicting `_value`/`_units`/`_serializer` raise ValueError."""
import copy
import json

from harness.val import enc, dec, sort_enc, exc_name

try:   # imported here so that the forked workers do not pay the import inside a case's watchdog
    import vivarium.core.engine  # noqa: F401
    import vivarium.core.composer  # noqa: F401
except Exception:  # a broken tree shows up as a failing probe in every case
    pass

PROP = 'C15'
LEAN_TARGETS = ['VivProps.C15']
DRIVER = 'Init'
REQUIRED_THEOREMS = [
    'leaf_default_last_wins', 'leaf_emit_last_wins', 'leaf_value_conflict_raises',
    'leaf_units_conflict_raises', 'leaf_serializer_conflict_raises',
    'leaf_updater_never_raises', 'leaf_updater_kept', 'updateIn_reads_old', 'shared_store_initial_values_kept', 'divider_never_raises', 'applyDefaults_value', 'setValue_leaf',
    'exists_and_value', 'untouched_value', 'establish_reaches_lexical',
    'declared_default_last_wins', 'exists_and_value_generate_partial', 'engineInitial_spec',
    'deepMerge_later_wins', 'composite_given_state_wins',
]
ANCHORS = [
    ('vivarium/core/store.py', [
        'generate_state', 'Store.generate', 'Store._generate_paths', 'Store._topology_ports',
        'Store.outer_path', 'Store._establish_path', 'Store.get_path', 'Store._apply_config',
        'Store._check_default', 'Store._check_schema', 'Store._check_schema_support_defaults',
        'Store._apply_subschema_config', 'Store._merge_subtopology', 'Store._apply_subschema',
        'Store._apply_subschemas', 'Store.set_emit_value', 'Store.set_value',
        'Store.apply_defaults', 'Store.__init__']),
    ('vivarium/core/composer.py', ['_get_composite_state_recur', '_get_composite_state',
                                   'Composite.initial_state', 'Composite.default_state',
                                   'Composite.generate_store']),
    ('vivarium/core/process.py', ['Process.initial_state', 'Process.default_state',
                                  'Process.get_schema']),
    ('vivarium/library/topology.py', ['inverse_topology', 'normalize_path', 'update_in',
                                      'assoc_path']),
    ('vivarium/library/dict_utils.py', ['deep_merge']),
    ('vivarium/core/engine.py', ['Engine._make_store']),
]
BUDGET = {'quick': 3000, 'thorough': 40000}
RULE = ('cases: (gen) composites of 1-6 probe processes/steps in nested groups whose ports share '
        'variables through generated topologies (tuple paths with "..", `_path` dicts, nested '
        'port schemas, `*` globs with sub-schemas) x partial initial states (falsy values 0, '
        'False, "", [], None, extra keys) x construction route (generate_state, Engine(processes=), '
        'Engine(composite=), Composite.generate_store); (leaf) sequences of 1-5 leaf/branch '
        'configs applied to one Store (conflict stream); a malformed stream (leaf over branch, '
        'undeclared ports, wrong-shaped states, paths above the root). Non-trivial: at least two '
        'declarations meet on one node, or a glob child is created, or the initial state overrides '
        'a declared default. Distinct by canonical JSON of the case.')
TRUSTED = ['CPython dict ordering and `==` on plain values (modelled, not verified; the walk order of the processes '
           'and steps of a composite level — declaration order since fix c6db333 — is an input of the model)',
           'pint unit equality and the registries\' contents (read from the implementation at run time)']
ASSUMPTIONS = [
    'no wiring leads through a process node (topology redirection in _establish_path is outside the model)',
    'no pint Quantity / numpy defaults (their unit and array special cases are outside the model)',
    'glob sub-topologies never climb with ".." (would change a dict during iteration)',
    'Engine(composite=c, initial_state=x) is not generated with both c.state and x non-empty (F21)',
    'oracle predictions are made only for well-formed cases: declared paths are prefix-free, glob '
    'sub-schemas non-empty (F20), not nested and wired by tuple paths',
]
CASE_TIMEOUT = 10.0
FUEL = 40

SCHEMA_KEYS = {'_default', '_updater', '_value', '_properties', '_emit', '_serializer'}
POPPED = ['_output', '*', '_subschema', '_subtopology', '_topology', '_flow', '_divider']
UNITS = ['fg', 'mM', 's']
QKEY = "<class 'pint.Quantity'>"


# ------------------------------------------------------------------ plain helpers

def topo_dec(j):
    """decode an encoded topology: lists are tuples"""
    v = dec(j)

    def conv(x):
        if isinstance(x, list):
            return tuple(conv(y) for y in x)
        if isinstance(x, dict):
            return {k: conv(y) for k, y in x.items()}
        return x
    return conv(v)


def norm(path):
    """lexical resolution of '..'; None when the path climbs above the root"""
    out = []
    for s in path:
        if s == '..':
            if not out:
                return None
            out.pop()
        else:
            out.append(s)
    return tuple(out)


def registries():
    from vivarium.core.registry import updater_registry, divider_registry, serializer_registry
    return {'updaters': list(updater_registry.registry), 'dividers': list(divider_registry.registry),
            'serializers': list(serializer_registry.registry), 'quantityKey': QKEY}


_REG = None


def reg():
    global _REG
    if _REG is None:
        _REG = registries()
    return _REG


# ------------------------------------------------------------------ lexical declarations (oracle side)

class NotWF(Exception):
    pass


def walk_lex(pos, path, out):
    """follow `path` from the absolute `pos` lexically; every position stepped on is recorded
    as a ('node', p) declaration (the code creates those nodes on the way)"""
    cur = list(pos)
    for s in path:
        if s == '..':
            if not cur:
                raise NotWF('above root')
            cur.pop()
        else:
            cur.append(s)
            out.append(('node', tuple(cur)))
    return tuple(cur)


def flatten_cfg(a, cfg, out):
    """what `_apply_config(cfg)` at absolute path `a` declares, read lexically"""
    if cfg == '**':
        return
    if not isinstance(cfg, dict):
        raise NotWF('config is not a dict')
    if '*' in cfg:
        out.append(('glob', a, cfg['*'], {}))
    if '_subschema' in cfg:
        out.append(('glob', a, cfg['_subschema'], {}))
    if '_subtopology' in cfg or '_topology' in cfg or '_flow' in cfg:
        raise NotWF('special key')
    rest = {k: v for k, v in cfg.items() if k not in POPPED}
    if '_divider' in cfg:
        out.append(('divider', a, cfg['_divider']))
    if SCHEMA_KEYS & set(rest):
        out.append(('leaf', a, rest))
    else:
        for k, child in rest.items():
            if k.startswith('_'):
                raise NotWF('special key as child')
            flatten_cfg(a + (k,), child, out)


def flatten_ports(pos, schema, topo, out):
    """what `_topology_ports(schema, topo)` at absolute `pos` declares, read lexically"""
    if not isinstance(schema, dict):
        raise NotWF('schema')
    if SCHEMA_KEYS & set(schema):
        if isinstance(topo, dict):
            if topo:
                raise NotWF('dict topology for a variable')
            a = pos
        else:
            a = walk_lex(pos, tuple(topo), [])
        flatten_cfg(a, schema, out)
        return
    if not isinstance(topo, dict):
        raise NotWF('tuple topology for ports')
    if set(topo) - set(schema):
        raise NotWF('undeclared ports')
    for port, sub in schema.items():
        path = topo.get(port, (port,))
        if port == '*':
            if isinstance(path, dict):
                raise NotWF('glob with dict topology')
            a = walk_lex(pos, tuple(path), out)
            out.append(('glob', a, sub, {}))
        elif isinstance(path, dict):
            node = walk_lex(pos, tuple(path.get('_path', ())), out)
            if isinstance(sub, dict) and '*' in sub and not (SCHEMA_KEYS & set(sub)):
                # glob port reached through a dict topology: see notes (node literally named '*')
                raise NotWF('glob under dict topology')
            flatten_ports(node, sub, {k: v for k, v in path.items() if k != '_path'}, out)
        else:
            a = walk_lex(pos, tuple(path), out)
            flatten_cfg(a, sub, out)


def walk_tree(tree, prefix=()):
    """[(group path, key, proc dict)] in listing order"""
    out = []
    for key, node in tree:
        if 'proc' in node:
            out.append((prefix, key, node['proc']))
        else:
            out.extend(walk_tree(node['group'], prefix + (key,)))
    return out


def group_paths(tree, prefix=()):
    out = []
    for key, node in tree:
        if 'group' in node:
            out.append(prefix + (key,))
            out.extend(group_paths(node['group'], prefix + (key,)))
    return out


def topo_at(topology, path):
    t = topology
    for k in path:
        t = t[k]
    return t


def declarations(case):
    """lexical declarations of the whole composite in the order the code meets them:
    processes first, then steps (each in listing order)"""
    tree = case['tree']
    topology = topo_dec(case['topology'])
    procs = walk_tree(tree)
    ordered = [p for p in procs if not p[2].get('step')] + [p for p in procs if p[2].get('step')]
    out = []
    proc_paths = []
    for g, key, pr in ordered:
        proc_paths.append(g + (key,))
        try:
            tp = topo_at(topology, g + (key,))
        except (KeyError, TypeError):
            raise NotWF('no topology for process')
        flatten_ports(g, dec(pr['schema']), tp, out)
    return out, proc_paths


def is_prefix(a, b):
    return len(a) <= len(b) and tuple(b[:len(a)]) == tuple(a)


def py_eq_conflict(cur, new):
    return cur is not None and not (cur == new)


class Expect:
    """expected state of one variable node, from its declarations in order"""

    def __init__(self):
        self.default = None
        self.value = None
        self.units = None
        self.serializer = None
        self.emit = False
        self.updater = None
        self.has_units = False
        self.has_serializer = False
        self.conflict = None
        self.n = 0

    def declare(self, cfg):
        self.n += 1
        if '_units' in cfg:
            if py_eq_conflict(self.units, cfg['_units']):
                self.conflict = 'units'
            self.units = cfg['_units']
            self.has_units = True
            self.serializer = QKEY
        if '_serializer' in cfg:
            s = cfg['_serializer']
            s = s if s in reg()['serializers'] else None
            if py_eq_conflict(self.serializer, s):
                self.conflict = self.conflict or 'serializer'
            self.serializer = s
            self.has_serializer = True
        if '_default' in cfg:
            self.default = cfg['_default']
        if '_value' in cfg:
            if py_eq_conflict(self.value, cfg['_value']):
                self.conflict = self.conflict or 'value'
            self.value = cfg['_value']
        if '_updater' in cfg:
            u = cfg['_updater']
            self.updater = (u if u in reg()['updaters'] else None) if isinstance(u, str) else u
        if '_emit' in cfg:
            self.emit = cfg['_emit']


MISSING = object()


def state_get(state, path):
    cur = state
    for k in path:
        if not isinstance(cur, dict) or k not in cur:
            return MISSING
        cur = cur[k]
    return cur


def predict(case, init, why=None):
    """Returns None when the case is outside the well-formed class, else a dict:
    {'error': 'ValueError' | None, 'vars': {path: Expect}, 'globs': {path: subschema}}.
    `init` is the decoded initial state that reaches `generate`."""
    try:
        decls, proc_paths = declarations(case)
    except NotWF as e:
        return _nw(why, 'decl:' + str(e))
    gpaths = group_paths(case['tree'])
    globs = {}
    leaves = {}
    order = []
    nodes = set()
    for d in decls:
        if d[0] == 'glob':
            _, a, sub, subtopo = d
            if not isinstance(sub, dict) or not sub or subtopo:
                return _nw(why, 2)     # F20 (empty sub-schema) and sub-topologies: outside
            if _has_star(sub):
                return _nw(why, 3)     # nested globs: outside (see notes)
            if a in globs and not _disjoint_merge_ok(globs[a], sub):
                return _nw(why, 4)
            globs[a] = _deep_merge(copy.deepcopy(globs.get(a, {})), sub)
        elif d[0] == 'leaf':
            order.append((d[1], d[2]))
        elif d[0] == 'node':
            nodes.add(d[1])
        # ('divider', …): any node may carry a divider; nothing to predict
    # children of globs: named in the initial state, or declared explicitly below the glob
    glob_children = {}
    for g, sub in globs.items():
        kids = []
        st = state_get(init, g)
        if st is not MISSING:
            if not isinstance(st, dict):
                return _nw(why, 6)
            kids.extend(st.keys())
        for a, _ in order:
            if is_prefix(g, a) and len(a) > len(g) and a[len(g)] not in kids:
                kids.append(a[len(g)])
        for n in nodes:
            if is_prefix(g, n) and len(n) > len(g) and n[len(g)] not in kids:
                kids.append(n[len(g)])
        glob_children[g] = kids
        for c in kids:
            extra = []
            try:
                if SCHEMA_KEYS & set(sub):
                    flatten_cfg(g + (c,), sub, extra)
                else:
                    for port, s in sub.items():
                        if port.startswith('_'):
                            return _nw(why, 7)
                        flatten_cfg(g + (c, port), s, extra)
            except NotWF:
                return _nw(why, 8)
            for e in extra:
                if e[0] == 'divider':
                    continue
                if e[0] != 'leaf':
                    return _nw(why, 9)
                order.append((e[1], e[2]))      # the sub-schema is (re)applied last
    for a, cfg in order:
        leaves.setdefault(a, Expect())
    # ---- well-formedness: prefix-free, away from processes and groups
    lpaths = list(leaves)
    nodes -= set(lpaths)
    for a in lpaths:
        if len(a) == 0:
            return _nw(why, 10)
        for b in lpaths:
            if a != b and is_prefix(a, b):
                return _nw(why, 11)
        for g in globs:
            if is_prefix(a, g):
                return _nw(why, 12)
        for pp in proc_paths:
            if is_prefix(a, pp) or is_prefix(pp, a):
                return _nw(why, 13)
        for gp in gpaths:
            if is_prefix(a, gp):
                return _nw(why, 14)
        for n in nodes:
            if is_prefix(a, n) and a != n:
                return _nw(why, 15)
    for g in globs:
        if len(g) == 0:
            return _nw(why, 16)
        for pp in proc_paths:
            if is_prefix(g, pp) or is_prefix(pp, g):
                return _nw(why, 17)
        for g2 in globs:
            if g != g2 and is_prefix(g, g2):
                return _nw(why, 18)
        for gp in gpaths:
            if is_prefix(g, gp):
                return _nw(why, 19)
    for n in nodes:
        for pp in proc_paths:
            if is_prefix(pp, n):
                return _nw(why, 20)
    # ---- the initial state must have dictionaries wherever the hierarchy branches
    if not isinstance(init, dict):
        return _nw(why, 21)
    branch = set()
    for a in list(leaves) + list(globs) + list(proc_paths):
        for i in range(len(a)):
            branch.add(a[:i])
    for g in globs:
        branch.add(g)
        for c in glob_children[g]:
            if any(is_prefix(g + (c,), a) and a != g + (c,) for a in leaves):
                branch.add(g + (c,))
    for b in branch:
        st = state_get(init, b)
        if st is not MISSING and not isinstance(st, dict):
            return _nw(why, 22)
    for pp in proc_paths:
        if state_get(init, pp) is not MISSING:
            return _nw(why, 23)
    # ---- fold the declarations
    for a, cfg in order:
        leaves[a].declare(cfg)
    for e in leaves.values():
        if e.has_units and e.has_serializer:
            return _nw(why, 24)          # `_units` silently replaces a declared serializer: not predicted
    err = None
    # the first conflict in declaration order decides; any conflict means ValueError
    if any(e.conflict for e in leaves.values()):
        err = 'ValueError'
    return {'error': err, 'vars': leaves, 'globs': globs, 'glob_children': glob_children}


def _nw(why, tag):
    if why is not None:
        why.append(tag)
    return None


def _has_star(sub):
    if isinstance(sub, dict):
        return any(k in ('*', '_subschema') or _has_star(v) for k, v in sub.items())
    return False


def _deep_merge(a, b):
    for k, v in b.items():
        if k in a and isinstance(a[k], dict) and isinstance(v, dict):
            _deep_merge(a[k], v)
        else:
            a[k] = v
    return a


def _disjoint_merge_ok(a, b):
    return True


# ------------------------------------------------------------------ implementation side

_PROBES = None


def probes():
    global _PROBES
    if _PROBES is None:
        from vivarium.core.process import Process, Step

        class Probe(Process):
            def ports_schema(self):
                return copy.deepcopy(self.parameters['schema'])

            def initial_state(self, config=None):
                return copy.deepcopy(self.parameters['init'])

            def next_update(self, timestep, states):
                return {}

        class ProbeStep(Step):
            def ports_schema(self):
                return copy.deepcopy(self.parameters['schema'])

            def initial_state(self, config=None):
                return copy.deepcopy(self.parameters['init'])

            def next_update(self, timestep, states):
                return {}
        _PROBES = (Probe, ProbeStep)
    return _PROBES


def to_units(schema):
    """`_units` are strings in the case; real pint units for the implementation"""
    from vivarium.library.units import units
    if isinstance(schema, dict):
        out = {}
        for k, v in schema.items():
            if k == '_units' and isinstance(v, str) and v in UNITS:
                out[k] = getattr(units, v)
            else:
                out[k] = to_units(v)
        return out
    return schema


def build(tree, want_step):
    Probe, ProbeStep = probes()
    out = {}
    for key, node in tree:
        if 'proc' in node:
            pr = node['proc']
            if bool(pr.get('step')) != want_step:
                continue
            cls = ProbeStep if want_step else Probe
            out[key] = cls({'name': key, 'schema': to_units(dec(pr['schema'])),
                            'init': dec(pr['init'])})
        else:
            sub = build(node['group'], want_step)
            if sub:
                out[key] = sub
    return out


def split_tree(tree, want_step):
    """the same split on the encoded tree (for the model)"""
    out = []
    for key, node in tree:
        if 'proc' in node:
            if bool(node['proc'].get('step')) == want_step:
                out.append([key, {'proc': {'schema': node['proc']['schema'],
                                           'init': node['proc']['init']}}])
        else:
            sub = split_tree(node['group'], want_step)
            if sub:
                out.append([key, {'group': sub}])
    return out


def ordered_union(procs, steps):
    """processes and steps of one level merged in the order in which `_get_composite_state_recur` walks them:
    declaration order, processes first, then the steps not already named (since fix c6db333; it used to be the
    iteration order of a set of the names, which depends on the hash seed — finding F44)"""
    pd = {k: v for k, v in procs}
    sd = {k: v for k, v in steps}
    keys = list(pd.keys()) + [k for k in sd.keys() if k not in pd]
    out = []
    for k in keys:
        p, s = pd.get(k), sd.get(k)
        if (p is not None and 'group' in p) or (s is not None and 'group' in s):
            out.append([k, {'group': ordered_union(p['group'] if p and 'group' in p else [],
                                                   s['group'] if s and 'group' in s else [])}])
        else:
            out.append([k, p if p is not None else s])
    return out


def _unit_name(u):
    from vivarium.library.units import units
    for nm in UNITS:
        if u == getattr(units, nm):
            return nm
    return {'opaque': str(u)}


def _reg_name(registry, f):
    if f is None or isinstance(f, (str, int, bool)):
        return f
    if isinstance(f, dict):
        return enc({k: _reg_name(registry, v) for k, v in f.items()})
    for k, v in registry.registry.items():
        if v is f:
            return k
    return {'opaque': repr(f)}


def dump(store):
    """[[path, record]] of every node, sorted by path"""
    from vivarium.core.process import Process
    from vivarium.core.registry import updater_registry, divider_registry, serializer_registry
    out = []

    def rec(node, path):
        is_proc = isinstance(node.value, Process)
        out.append([list(path), {
            'leaf': bool(node.leaf),
            'default': enc(node.default),
            'value': '<process>' if is_proc else enc(node.value),
            'updater': _reg_name(updater_registry, node.updater),
            'divider': _reg_name(divider_registry, node.divider),
            'emit': enc(node.emit),
            'units': None if node.units is None else _unit_name(node.units),
            'serializer': _reg_name(serializer_registry, node.serializer),
            'properties': enc(node.properties),
            'subschema': enc(_units_back(node.subschema)),
            'isProcess': is_proc,
        }])
        for k, c in node.inner.items():
            rec(c, path + (k,))
    rec(store, ())
    out.sort(key=lambda e: e[0])
    return out


def _units_back(x):
    if isinstance(x, dict):
        return {k: (_unit_name(v) if k == '_units' and not isinstance(v, (str, dict)) else _units_back(v))
                for k, v in x.items()}
    return x


def _try(f):
    try:
        return {'ok': f()}
    except Exception as e:  # noqa
        return {'err': exc_name(e)}


def run_impl(case):
    import warnings
    warnings.simplefilter('ignore')
    kind = case['kind']
    if kind == 'leaf':
        return run_leaf(case)
    if kind == 'gen':
        return run_gen(case)
    raise ValueError(kind)


def run_leaf(case):
    from vivarium.core.store import Store
    cfgs = [to_units(dec(c)) for c in case['cfgs']]

    def go():
        s = Store({})
        for c in cfgs:
            s._apply_config(copy.deepcopy(c))
        return dump(s)
    obs = {'fold': _try(go)}
    fails = []
    # ---- oracle: the merging rules of the property on this one node (leaf configs only)
    plain = [dec(c) for c in case['cfgs']]
    if all(isinstance(c, dict) and (SCHEMA_KEYS & set(c)) and
           not (set(c) & set(POPPED)) for c in plain):
        e = Expect()
        for c in plain:
            e.declare({k: v for k, v in c.items()})
            if e.conflict:
                break
        bad_props = any('_properties' in c and not isinstance(c['_properties'], (dict, type(None)))
                        for c in plain)
        bad_upd = any(isinstance(c.get('_updater'), dict) and 'updater' not in c['_updater']
                      for c in plain)
        if e.has_units and e.has_serializer or bad_props or bad_upd:
            pass
        elif e.conflict:
            if obs['fold'].get('err') != 'ValueError':
                fails.append(f'conflict: incompatible {e.conflict} declarations did not raise '
                             f'ValueError: {_short(obs["fold"])}')
        elif 'ok' not in obs['fold']:
            fails.append(f'merge: compatible declarations raised {obs["fold"]}')
        else:
            root = obs['fold']['ok'][0][1]
            if root['default'] != enc(e.default):
                fails.append(f'default: node default {root["default"]} is not the last declared '
                             f'{enc(e.default)}')
            if root['emit'] != enc(e.emit):
                fails.append(f'emit: node emit {root["emit"]} is not the last declared {e.emit}')
            if root['value'] != enc(e.value):
                fails.append(f'value: node value {root["value"]} is not the declared {enc(e.value)}')
            exp_upd = e.updater if e.updater else '_default'
            if isinstance(exp_upd, str) and root['updater'] != exp_upd:
                fails.append(f'updater: node updater {root["updater"]} is not the last declared {exp_upd}')
            if root['units'] != e.units:
                fails.append(f'units: {root["units"]} vs {e.units}')
    return {'obs': obs, 'fails': fails}


def run_gen(case):
    from vivarium.core.store import generate_state
    from vivarium.core.engine import Engine
    from vivarium.core.composer import Composite
    tree = case['tree']
    topology = topo_dec(case['topology'])
    init = dec(case['init'])
    cstate = dec(case['cstate'])
    route = case['route']
    fails = []
    obs = {}

    def fresh():
        return build(tree, False), build(tree, True)

    # ---- Composite.initial_state() / default_state()
    processes, steps = fresh()
    comp_init = None

    def ci():
        nonlocal comp_init
        c = Composite({'processes': processes, 'steps': steps,
                       'topology': copy.deepcopy(topology), 'state': copy.deepcopy(cstate)})
        comp_init = c.initial_state({'initial_state': copy.deepcopy(init)}
                                    if route == 'composite_store' else None)
        return sort_enc(enc(copy.deepcopy(comp_init)))
    obs['compositeInitial'] = _try(ci)

    def cd():
        p2, s2 = fresh()
        c = Composite({'processes': p2, 'steps': s2, 'topology': copy.deepcopy(topology)})
        return sort_enc(enc(c.default_state()))
    obs['compositeDefault'] = _try(cd)

    # ---- build the store
    built = {}
    eff = effective_init(case, comp_init)

    def direct():
        """`Store.generate` alone (what `generate_state` does before it builds the views)"""
        from vivarium.core.store import Store
        p, s = fresh()
        st = Store({})
        st.generate(tuple(), p, s, None, copy.deepcopy(topology), copy.deepcopy(eff))
        return st

    def go():
        p, s = fresh()
        tp = copy.deepcopy(topology)
        try:
            if route == 'store_generate':
                st = direct()
            elif route == 'generate_state':
                st = generate_state(p, tp, copy.deepcopy(init), s)
            elif route == 'engine_args':
                st = Engine(processes=p, steps=s, topology=tp, initial_state=copy.deepcopy(init),
                            display_info=False, emitter='null').state
            elif route == 'engine_composite':
                c = Composite({'processes': p, 'steps': s, 'topology': tp,
                               'state': copy.deepcopy(cstate)})
                st = Engine(composite=c, initial_state=copy.deepcopy(init),
                            display_info=False, emitter='null').state
            elif route == 'composite_store':
                c = Composite({'processes': p, 'steps': s, 'topology': tp,
                               'state': copy.deepcopy(cstate)})
                st = c.generate_store({'initial_state': copy.deepcopy(init)})
            else:
                raise ValueError(route)
        except Exception as e:  # noqa
            # the routes go on after the store is generated (topology views, emitter); only
            # generation is this property's business: was it generation that failed?
            if route == 'store_generate' or eff is MISSING or exc_name(e) == 'ValueError':
                raise
            st = direct()
            obs['after_generation'] = exc_name(e)
        built['store'] = st
        return dump(st)
    obs['store'] = _try(go)

    # ---- oracle
    if eff is not MISSING:
        pred = predict(case, eff)
        if pred is not None:
            fails.extend(check_store(case, pred, eff, obs['store'], built.get('store')))
    fails.extend(check_composite_state(case, obs, comp_init))
    return {'obs': obs, 'fails': fails}


def effective_init(case, comp_init):
    """the initial state that reaches `generate` on this route, by the documented rules"""
    init = dec(case['init'])
    cstate = dec(case['cstate'])
    route = case['route']
    if route in ('generate_state', 'engine_args', 'store_generate'):
        return init if (init or route != 'engine_args') else {}
    if route == 'engine_composite':
        if cstate and init:
            return MISSING       # F21: outside
        return cstate or init or {}
    if route == 'composite_store':
        return comp_init if comp_init is not None else MISSING
    return MISSING


def check_store(case, pred, init, store_obs, store):
    fails = []
    if pred['error']:
        if store_obs.get('err') != pred['error']:
            fails.append(f'conflict: incompatible declarations for one variable did not raise '
                         f'{pred["error"]}: {_short(store_obs)}')
        return fails
    if 'ok' not in store_obs:
        fails.append(f'construction: well-formed composite raised {store_obs}')
        return fails
    nodes = {tuple(p): r for p, r in store_obs['ok']}
    children = {}
    for p in nodes:
        if p:
            children.setdefault(p[:-1], []).append(p[-1])
    for a, e in pred['vars'].items():
        r = nodes.get(a)
        if r is None:
            fails.append(f'exists: declared variable {a} has no node')
            continue
        if children.get(a):
            fails.append(f'exists: declared variable {a} is not a leaf (children {children[a]})')
            continue
        given = state_get(init, a)
        if given is not MISSING and given is not None:
            want, why = given, 'initial state'
        elif given is MISSING and e.value is not None:
            want, why = e.value, 'declared _value'
        else:
            want, why = e.default, 'declared default'
        if r['value'] != enc(want):
            fails.append(f'value: variable {a} holds {r["value"]}, expected {enc(want)} ({why})')
        if r['default'] != enc(e.default):
            fails.append(f'default: variable {a} has default {r["default"]}, declared {enc(e.default)}')
        if r['emit'] != enc(e.emit):
            fails.append(f'emit: variable {a} has emit {r["emit"]}, last declared {e.emit}')
        exp_upd = e.updater if e.updater else '_default'
        if isinstance(exp_upd, str) and r['updater'] != exp_upd:
            fails.append(f'updater: variable {a} has updater {r["updater"]}, last declared {exp_upd}')
    for g, kids in pred['glob_children'].items():
        for c in kids:
            if g + (c,) not in nodes:
                fails.append(f'glob: child {c} of glob {g} named in the initial state was not created')
    # the value tree the user sees agrees with the nodes
    if store is not None and not fails:
        gv = store.get_value()
        for a in pred['vars']:
            got = state_get(gv, a)
            if got is MISSING or enc(got) != nodes[a]['value']:
                fails.append(f'get_value: {a} reads {None if got is MISSING else enc(got)}')
                break
    return fails


def check_composite_state(case, obs, comp_init):
    """each process's own initial/default values sit at the nodes its ports are wired to"""
    fails = []
    try:
        decls_by_proc = per_process_placements(case)
    except NotWF:
        return fails
    if decls_by_proc is None:
        return fails
    for which, key in (('init', 'compositeInitial'), ('default', 'compositeDefault')):
        o = obs.get(key, {})
        placements = {}
        for pl in decls_by_proc[which]:
            for a, v in pl:
                placements.setdefault(a, []).append(v)
        # dictionary-valued placements merge into whatever is there (or raise on a non-dict):
        # no prediction for such composites
        if any(isinstance(v, dict) for vals in placements.values() for v in vals):
            continue
        pl_paths = list(placements)
        if any(a != b and is_prefix(a, b) for a in pl_paths for b in pl_paths):
            continue
        if 'ok' not in o:
            fails.append(f'composite-{which}: raised {o}')
            continue
        state = dec(o['ok'])
        override = {}
        if which == 'init':
            override = _deep_merge(copy.deepcopy(dec(case['cstate'])),
                                   copy.deepcopy(dec(case['init'])) if case['route'] == 'composite_store' else {})
        paths = list(placements)
        if any(a != b and is_prefix(a, b) for a in paths for b in paths):
            continue
        for a, vals in placements.items():
            if any(isinstance(v, dict) for v in vals):
                continue
            ov = state_get(override, a)
            # anything the override says along the way hides the process's value
            if any(state_get(override, a[:i]) is not MISSING for i in range(1, len(a) + 1)):
                if ov is not MISSING and not isinstance(ov, dict):
                    got = state_get(state, a)
                    if got is MISSING or sort_enc(enc(got)) != sort_enc(enc(ov)):
                        fails.append(f'composite-{which}: {a} is {_e(got)}, the given state says {enc(ov)}')
                continue
            got = state_get(state, a)
            if got is MISSING or not any(sort_enc(enc(got)) == sort_enc(enc(v)) for v in vals):
                fails.append(f'composite-{which}: {a} is {_e(got)}, processes place {[enc(v) for v in vals]} there')
    return fails


def _e(got):
    return 'missing' if got is MISSING else enc(got)


def per_process_placements(case):
    """for every process: [(absolute path, value)] of its initial_state() and default_state()
    leaves, read lexically through its topology (tuple paths and `_path` dicts, no globs)"""
    tree = case['tree']
    topology = topo_dec(case['topology'])
    out = {'init': [], 'default': []}
    for g, key, pr in walk_tree(tree):
        try:
            tp = topo_at(topology, g + (key,))
        except (KeyError, TypeError):
            return None
        schema = dec(pr['schema'])
        if _has_star(schema):
            return None
        for which, st in (('init', dec(pr['init'])), ('default', _defaults(schema) or {})):
            pl = []
            _place(g, st, tp, pl)
            out[which].append(pl)
    return out


def _defaults(d):
    out = {}
    for k, v in d.items():
        if isinstance(v, dict):
            dv = v['_default'] if '_default' in v else _defaults(v)
            if dv is not None:
                out[k] = dv
    return out or None


def _place(outer, update, topo, out):
    if not isinstance(update, dict) or not isinstance(topo, dict):
        raise NotWF('shape')
    for key, path in topo.items():
        if key == '_path' or key == '*':
            raise NotWF('glob')
        if key not in update:
            continue
        v = update[key]
        if isinstance(path, dict):
            inner = norm(outer + tuple(path.get('_path', ())))
            if inner is None:
                raise NotWF('above root')
            sub = {k: p for k, p in path.items() if k != '_path'}
            if '_path' in path and isinstance(v, dict):
                for uk in v:
                    sub.setdefault(uk, (uk,))
            _place(inner, v, sub, out)
        else:
            a = norm(outer + tuple(path))
            if a is None:
                raise NotWF('above root')
            _leaves(a, v, out)


def _leaves(a, v, out):
    if isinstance(v, dict) and v:
        for k, x in v.items():
            _leaves(a + (k,), x, out)
    else:
        out.append((a, v))


# ------------------------------------------------------------------ model side

def model_requests(case):
    if case['kind'] == 'leaf':
        return [{'op': 'leafFold', 'reg': reg(), 'cfgs': case['cfgs']}]
    tree = case['tree']
    procs = split_tree(tree, False)
    steps = split_tree(tree, True)
    kids = ordered_union(procs, steps)
    route = case['route']
    reqs = [
        {'op': 'compositeInitial', 'fuel': FUEL, 'kids': kids, 'topology': case['topology'],
         'state': case['cstate'],
         'cfgInit': case['init'] if route == 'composite_store' else enc({})},
        {'op': 'compositeDefault', 'fuel': FUEL, 'kids': kids, 'topology': case['topology']},
    ]
    base = {'reg': reg(), 'fuel': FUEL, 'procs': procs, 'steps': steps,
            'topology': case['topology']}
    if route in ('generate_state', 'store_generate'):
        reqs.append(dict(base, op='generate', init=case['init']))
    elif route == 'engine_args':
        # `self.initial_state = initial_state or {}`
        reqs.append(dict(base, op='generate',
                         init=case['init'] if dec(case['init']) else enc({})))
    elif route == 'engine_composite':
        reqs.append({'op': 'engineInitial', 'state': case['cstate'], 'init': case['init']})
        reqs.append(dict(base, op='generate', init='$prev'))
    else:
        reqs.append(dict(base, op='generateStore', kids=kids, state=case['cstate'],
                         cfgInit=case['init']))
    return _resolve_prev(reqs)


def _resolve_prev(reqs):
    """`engineInitial` is a pure function of two values; evaluate its model twin here so that the
    request list stays static (the driver is asked as well and the two must agree)"""
    out = []
    for r in reqs:
        if r.get('init') == '$prev':
            prev = out[-1]
            st, ini = dec(prev['state']), dec(prev['init'])
            r = dict(r, init=enc(st if st else (ini if ini else {})))
        out.append(r)
    return out


def _model_tree(ans):
    if 'ok' not in ans:
        return ans
    rows = []
    for p, r in ans['ok']:
        r = dict(r)
        r.pop('subtopology', None)
        rows.append([p, r])
    rows.sort(key=lambda e: e[0])
    return {'ok': rows}


def model_obs(case, ans):
    if case['kind'] == 'leaf':
        return {'fold': _model_tree(ans[0])}
    out = {'compositeInitial': _sorted(ans[0]), 'compositeDefault': _sorted(ans[1]),
           'store': _model_tree(ans[-1])}
    if case['route'] == 'engine_composite':
        st, ini = dec(case['cstate']), dec(case['init'])
        out['_engineInitial_agrees'] = sort_enc(ans[2]) == sort_enc(enc(st if st else (ini if ini else {})))
    return out


def _sorted(a):
    return {'ok': sort_enc(a['ok'])} if 'ok' in a else a


def _canon_err(o):
    """only ValueError (the promised conflict error) is distinguished from other exceptions"""
    if isinstance(o, dict) and 'err' in o:
        return {'err': 'ValueError' if o['err'] == 'ValueError' else 'other'}
    return o


def _canon_tree(o):
    if not (isinstance(o, dict) and 'ok' in o):
        return _canon_err(o)
    rows = []
    for p, r in o['ok']:
        r = {k: sort_enc(v) for k, v in r.items()}
        rows.append([p, r])
    return {'ok': rows}


def compare(case, impl, model):
    io = impl.get('obs') if isinstance(impl, dict) else None
    if io is None:
        return f'implementation probe failed: {_short(impl)}'
    diffs = []
    for key, mv in model.items():
        if key == '_engineInitial_agrees':
            if not mv:
                diffs.append('engineInitial: driver disagrees with the harness twin')
            continue
        iv = io.get(key)
        if key in ('store', 'fold'):
            a, b = _canon_tree(iv), _canon_tree(mv)
            if a != b:
                diffs.append(f'{key}: ' + _tree_diff(a, b))
        else:
            a, b = _canon_err(iv), _canon_err(mv)
            if a != b:
                diffs.append(f'{key}: impl={_short(a)} model={_short(b)}')
    return '; '.join(diffs) if diffs else None


def _tree_diff(a, b):
    if 'ok' not in a or 'ok' not in b:
        return f'impl={_short(a)} model={_short(b)}'
    da = {tuple(p): r for p, r in a['ok']}
    db = {tuple(p): r for p, r in b['ok']}
    for p in sorted(set(da) | set(db)):
        if p not in da:
            return f'node {p} only in model: {_short(db[p])}'
        if p not in db:
            return f'node {p} only in impl: {_short(da[p])}'
        if da[p] != db[p]:
            ks = [k for k in da[p] if da[p].get(k) != db[p].get(k)]
            return f'node {p} differs in {ks}: impl={_short({k: da[p][k] for k in ks})} ' \
                   f'model={_short({k: db[p].get(k) for k in ks})}'
    return 'order'


def _short(x):
    s = json.dumps(x, default=str)
    return s if len(s) < 400 else s[:400] + '…'


def oracle(case, impl):
    if not isinstance(impl, dict) or 'fails' not in impl:
        return [f'probe-crashed: {_short(impl)}']
    return impl['fails']


def nontrivial(case, impl):
    if case['kind'] == 'leaf':
        return len(case['cfgs']) >= 2
    try:
        decls, _ = declarations(case)
    except NotWF:
        return False
    paths = [d[1] for d in decls if d[0] == 'leaf']
    shared = len(paths) != len(set(paths))
    glob = any(d[0] == 'glob' for d in decls)
    init = dec(case['init']) or dec(case['cstate'])
    return shared or glob or bool(init)


def classify(case, failure):
    return None


def stats(results):
    from collections import Counter
    kinds = Counter()
    routes = Counter()
    errs = Counter()
    wf = 0
    shared = 0
    globs = 0
    nproc = Counter()
    for r in results:
        c = r['case']
        kinds[c['kind']] += 1
        io = r['impl'].get('obs', {}) if isinstance(r['impl'], dict) else {}
        if c['kind'] == 'gen':
            routes[c['route']] += 1
            nproc[len(walk_tree(c['tree']))] += 1
            o = io.get('store', {})
            errs[o.get('err', 'ok')] += 1
            try:
                decls, _ = declarations(c)
                paths = [d[1] for d in decls if d[0] == 'leaf']
                shared += len(paths) != len(set(paths))
                globs += any(d[0] == 'glob' for d in decls)
                if predict(c, dec(c['init']) if isinstance(dec(c['init']), dict) else {}) is not None:
                    wf += 1
            except NotWF:
                pass
        else:
            o = io.get('fold', {})
            errs['leaf:' + o.get('err', 'ok')] += 1
    return {'kinds': dict(kinds), 'routes': dict(routes), 'outcomes': dict(errs),
            'oracle_well_formed': wf, 'with_shared_variables': shared, 'with_globs': globs,
            'processes_per_composite': dict(nproc)}


# ------------------------------------------------------------------ generators

VARS = ['x', 'y', 'z', 'u', 'v']
STORES = ['s1', 's2', 's3']
CHILDREN = ['c1', 'c2', 'c3']
DEFAULTS = [0, 1, 5, -2, False, True, '', 'abc', [], [1, 2], 0, 3]
UPDATERS = ['set', 'accumulate', 'null', 'merge', 'nonnegative_accumulate', 'dict_value']
DIVIDERS = ['set', 'split', 'zero', 'binomial']
SERIALIZERS = ["<class 'list'>", "<class 'dict'>", "<class 'set'>"]


def gen_leafcfg(rng, rich=0.5, conflicty=0.12, units_ok=True):
    c = {}
    if rng.random() < 0.85:
        r = rng.random()
        if r < 0.04:
            c['_default'] = None
        elif r < 0.08:
            c['_default'] = {'k': rng.randrange(3)}
        else:
            c['_default'] = copy.deepcopy(rng.choice(DEFAULTS))
    if rng.random() < rich * 0.6:
        c['_updater'] = rng.choice(UPDATERS) if rng.random() < 0.93 else 'bogus'
    if rng.random() < rich * 0.6:
        c['_emit'] = rng.random() < 0.6
    if rng.random() < rich * 0.2:
        c['_divider'] = rng.choice(DIVIDERS)
    if rng.random() < rich * 0.15:
        c['_properties'] = {'mw': rng.randrange(4)}
    if rng.random() < conflicty:
        c['_value'] = rng.choice([1, 2, True, 1, 'v', None, [1]])
    if rng.random() < conflicty * 0.6 and units_ok:
        c['_units'] = rng.choice(UNITS[:2])
    if rng.random() < conflicty * 0.5:
        c['_serializer'] = rng.choice(SERIALIZERS[:2] + ['bogus'])
    if not (SCHEMA_KEYS & set(c)):
        c['_default'] = rng.choice(DEFAULTS)
    return c


def rel_path(rng, depth, target):
    """a relative path from a group at `depth` to the absolute `target`, sometimes with a detour"""
    p = ['..'] * depth + list(target)
    if rng.random() < 0.15 and len(target) >= 1:
        i = rng.randrange(len(p))
        p[i:i] = [rng.choice(STORES + ['tmp']), '..']
    return p


def gen_process(rng, depth, rich, conflicty, allow_glob=True, malformed=False, units_ok=True):
    """(schema, topology, init) of one probe process living in a group at `depth`"""
    schema = {}
    topo = {}
    init = {}
    nports = rng.choice([1, 1, 2, 2, 3])
    for i in range(nports):
        port = f'p{i}'
        r = rng.random()
        store = [rng.choice(STORES)] if rng.random() < 0.8 else [rng.choice(STORES), 'deep']
        if r < 0.5:
            # port -> store of variables
            vs = rng.sample(VARS, rng.choice([1, 2, 2, 3]))
            schema[port] = {v: gen_leafcfg(rng, rich, conflicty, units_ok) for v in vs}
            if rng.random() < 0.9:
                topo[port] = rel_path(rng, depth, store)
            if rng.random() < 0.4:
                init[port] = {v: copy.deepcopy(rng.choice(DEFAULTS)) for v in vs if rng.random() < 0.6}
        elif r < 0.62:
            # the port is one variable
            schema[port] = gen_leafcfg(rng, rich, conflicty, units_ok)
            topo[port] = rel_path(rng, depth, store + [rng.choice(VARS)])
            if rng.random() < 0.4:
                init[port] = copy.deepcopy(rng.choice(DEFAULTS))
        elif r < 0.8:
            # nested port, split by a `_path` topology or applied as a nested config
            subs = rng.sample(['a', 'b'], rng.choice([1, 2]))
            schema[port] = {s: {v: gen_leafcfg(rng, rich, conflicty, units_ok)
                                for v in rng.sample(VARS, rng.choice([1, 2]))} for s in subs}
            if rng.random() < 0.6:
                t = {'_path': rel_path(rng, depth, store)}
                for s in subs:
                    if rng.random() < 0.6:
                        t[s] = rng.choice([['..', rng.choice(STORES)], [s + 'x']])
                if rng.random() < 0.2:
                    t.pop('_path')
                topo[port] = t
            else:
                topo[port] = rel_path(rng, depth, store)
            if rng.random() < 0.4:
                init[port] = {s: {v: copy.deepcopy(rng.choice(DEFAULTS)) for v in schema[port][s]
                                  if rng.random() < 0.6} for s in subs if rng.random() < 0.7}
        elif allow_glob:
            # glob port
            r2 = rng.random()
            if r2 < 0.45:
                sub = gen_leafcfg(rng, rich, 0.0)
            elif r2 < 0.9:
                sub = {v: gen_leafcfg(rng, rich, 0.0) for v in rng.sample(VARS, rng.choice([1, 2]))}
            elif r2 < 0.95:
                sub = {}
            else:
                sub = {'*': gen_leafcfg(rng, rich, 0.0)}
            schema[port] = {'*': sub}
            gstore = [rng.choice(['g1', 'g2'])] if rng.random() < 0.8 else store
            topo[port] = rel_path(rng, depth, gstore)
            if rng.random() < 0.25:
                init[port] = {rng.choice(CHILDREN): ({v: 1 for v in sub if not v.startswith('_')}
                                                    if not (SCHEMA_KEYS & set(sub)) else 4)}
        else:
            schema[port] = {rng.choice(VARS): gen_leafcfg(rng, rich, conflicty, units_ok)}
            topo[port] = rel_path(rng, depth, store)
    if malformed:
        r = rng.random()
        if r < 0.25:
            topo['ghost'] = ['nowhere']                      # undeclared port
        elif r < 0.45 and topo:
            k = rng.choice(list(topo))
            topo[k] = ['..'] * (depth + 1) + ['s1']          # above the root
        elif r < 0.6:
            schema['pm'] = {'x': {'_default': 1, 'sub': {'_default': 2}}}   # leaf keys + child
            topo['pm'] = rel_path(rng, depth, [rng.choice(STORES)])
        elif r < 0.75:
            schema['pm'] = {'x': {'y': gen_leafcfg(rng, rich, 0)}}          # branch over a variable
            topo['pm'] = rel_path(rng, depth, [rng.choice(STORES)])
        elif r < 0.85:
            schema['pm'] = {'*': {'*': {}}}
            topo['pm'] = {'_path': rel_path(rng, depth, ['g1'])}
        else:
            schema['pm'] = {'x': 5}                                          # config is not a dict
            topo['pm'] = rel_path(rng, depth, [rng.choice(STORES)])
    return schema, topo, init


def gen_init(rng, case_wo_init, malformed=False):
    """a partial initial state over the declared hierarchy"""
    try:
        decls, proc_paths = declarations(case_wo_init)
    except NotWF:
        decls, proc_paths = [], []
    init = {}
    leaves = [d[1] for d in decls if d[0] == 'leaf' and d[1] is not None and len(d[1]) > 0]
    globs = [(d[1], d[2]) for d in decls if d[0] == 'glob' and d[1] is not None and len(d[1]) > 0]
    p_take = rng.choice([0.0, 0.3, 0.6, 1.0])
    for a in leaves:
        if rng.random() < p_take:
            r = rng.random()
            v = None if r < 0.12 else copy.deepcopy(rng.choice(DEFAULTS + [0, False, '', []]))
            _assoc(init, a, v)
    for g, sub in globs:
        if rng.random() < 0.7:
            for c in rng.sample(CHILDREN, rng.choice([1, 2])):
                if isinstance(sub, dict) and (SCHEMA_KEYS & set(sub)):
                    v = rng.choice([None, 0, 9, 'q'])
                elif isinstance(sub, dict):
                    v = {k: rng.choice([0, 8, None]) for k in sub
                         if not k.startswith('_') and k != '*' and rng.random() < 0.6}
                else:
                    v = {}
                _assoc(init, g + (c,), v)
    if rng.random() < 0.2:
        _assoc(init, (rng.choice(STORES), 'extra'), 1)       # ignored extra key
    if rng.random() < 0.1:
        init['unknown'] = {'k': 2}
    if malformed and rng.random() < 0.5:
        if leaves and rng.random() < 0.5:
            a = rng.choice(leaves)
            _assoc(init, a[:-1] if len(a) > 1 else a, 7)     # a value where a branch is
        elif leaves:
            a = rng.choice(leaves)
            _assoc(init, a, {'inner': 1})                    # a dict for a variable
    return init


def _assoc(d, path, v):
    cur = d
    for k in path[:-1]:
        if not isinstance(cur.get(k), dict):
            cur[k] = {}
        cur = cur[k]
    if isinstance(cur, dict):
        if isinstance(cur.get(path[-1]), dict) and isinstance(v, dict):
            cur[path[-1]].update(v)
        else:
            cur[path[-1]] = v


def gen_case(rng, malformed=False):
    nproc = rng.choice([1, 2, 2, 3, 3, 4, 5, 6])
    rich = rng.choice([0.2, 0.5, 0.9])
    conflicty = rng.choice([0.0, 0.0, 0.1, 0.3])
    names = ['pA', 'pB', 'pC', 'pD', 'pE', 'pF']
    tree = []
    topology = {}
    groups = {(): tree}
    topo_at_group = {(): topology}
    bad = rng.randrange(nproc) if malformed else -1
    route = rng.choice(['generate_state', 'store_generate', 'engine_args', 'engine_composite',
                        'composite_store'])
    # the Engine goes on to emit the store, where a unit on a non-quantity value raises
    units_ok = not route.startswith('engine')
    for i in range(nproc):
        # pick / create a group
        gp = ()
        while rng.random() < 0.3 and len(gp) < 3:
            g = rng.choice(['agents', 'cell'])
            ngp = gp + (g,)
            if ngp not in groups:
                kids = []
                groups[gp].append([g, {'group': kids}])
                groups[ngp] = kids
                topo_at_group[gp][g] = {}
                topo_at_group[ngp] = topo_at_group[gp][g]
            gp = ngp
        schema, topo, init = gen_process(rng, len(gp), rich, conflicty, malformed=(i == bad),
                                         units_ok=units_ok)
        step = rng.random() < 0.15
        groups[gp].append([names[i], {'proc': {'schema': enc(schema), 'init': enc(init),
                                               'step': step}}])
        topo_at_group[gp][names[i]] = topo
    case = {'kind': 'gen', 'tree': tree, 'topology': enc(topology), 'init': enc({}),
            'cstate': enc({}), 'route': 'generate_state'}
    init = gen_init(rng, case, malformed=malformed)
    case['route'] = route
    if route == 'engine_composite':
        if rng.random() < 0.5:
            case['cstate'] = enc(init)
        else:
            case['init'] = enc(init)
    elif route == 'composite_store':
        if rng.random() < 0.5:
            a, b = _split_state(rng, init)
            case['cstate'], case['init'] = enc(a), enc(b)
        else:
            case['init'] = enc(init)
    else:
        case['init'] = enc(init)
        if malformed and rng.random() < 0.1:
            case['init'] = enc(None)
    return case


def _split_state(rng, init):
    """composite `state` and config `initial_state`: disjoint parts, and some entries given by
    both with different values (the config's wins)"""
    a, b = {}, {}
    for k, v in init.items():
        r = rng.random()
        if r < 0.35:
            a[k] = v
        elif r < 0.7:
            b[k] = v
        else:
            a[k] = _relabel(v)
            b[k] = v
    return a, b


def _relabel(v):
    if isinstance(v, dict):
        return {k: _relabel(x) for k, x in v.items()}
    return 77


def gen_leaf_case(rng):
    n = rng.choice([1, 2, 2, 3, 4, 5])
    conflicty = rng.choice([0.0, 0.15, 0.4])
    cfgs = []
    for _ in range(n):
        r = rng.random()
        if r < 0.8:
            cfgs.append(gen_leafcfg(rng, 0.8, conflicty))
        elif r < 0.88:
            cfgs.append({rng.choice(VARS): gen_leafcfg(rng, 0.5, 0.0)})      # branch config
        elif r < 0.92:
            cfgs.append({'_emit': rng.random() < 0.5})
        elif r < 0.95:
            cfgs.append({'*': gen_leafcfg(rng, 0.5, 0.0), '_divider': rng.choice(DIVIDERS)})
        elif r < 0.97:
            cfgs.append('**')
        else:
            cfgs.append({'_updater': {'updater': rng.choice(UPDATERS)}, '_default': 1})
    return {'kind': 'leaf', 'cfgs': [enc(c) for c in cfgs]}


def generate(rng, n, tier):
    cases = []
    for i in range(n):
        r = rng.random()
        if r < 0.22:
            cases.append(gen_leaf_case(rng))
        elif r < 0.9:
            cases.append(gen_case(rng))
        else:
            cases.append(gen_case(rng, malformed=True))
    return cases


def _proc(schema, init=None, step=False):
    return {'proc': {'schema': enc(schema), 'init': enc(init or {}), 'step': step}}


def corpus():
    out = []
    # two processes share a variable; the initial state gives a falsy value and a None
    out.append({'kind': 'gen', 'route': 'generate_state', 'cstate': enc({}),
                'tree': [['pA', _proc({'p0': {'x': {'_default': 1, '_emit': True}, 'y': {'_default': 0}}})],
                         ['agents', {'group': [['pB', _proc({'q': {'x': {'_default': 2, '_updater': 'set'}}})]]}]],
                'topology': enc({'pA': {'p0': ['s1']}, 'agents': {'pB': {'q': ['..', 's1']}}}),
                'init': enc({'s1': {'x': 0, 'y': None}})})
    # glob children named in the initial state
    out.append({'kind': 'gen', 'route': 'engine_args', 'cstate': enc({}),
                'tree': [['pA', _proc({'g': {'*': {'m': {'_default': 7}, 'n': {'_default': 'k'}}}})]],
                'topology': enc({'pA': {'g': ['g1']}}),
                'init': enc({'g1': {'c1': {'m': 0}, 'c2': {}}})})
    # conflicting explicit values / units / serializers
    out.append({'kind': 'gen', 'route': 'generate_state', 'cstate': enc({}),
                'tree': [['pA', _proc({'p0': {'x': {'_value': 1}}})], ['pB', _proc({'p0': {'x': {'_value': 2}}})]],
                'topology': enc({'pA': {'p0': ['s1']}, 'pB': {'p0': ['s1']}}), 'init': enc({})})
    out.append({'kind': 'leaf', 'cfgs': [enc({'_default': 1, '_units': 'fg'}), enc({'_default': 1, '_units': 'mM'})]})
    out.append({'kind': 'leaf', 'cfgs': [enc({'_default': 1, '_serializer': "<class 'list'>"}),
                                         enc({'_default': 1, '_serializer': "<class 'dict'>"})]})
    out.append({'kind': 'leaf', 'cfgs': [enc({'_default': 5, '_value': 1}), enc({'_default': 0, '_value': True})]})
    out.append({'kind': 'leaf', 'cfgs': [enc({'_default': 5, '_updater': 'set', '_emit': True}),
                                         enc({'_default': 0, '_updater': 'accumulate', '_emit': False})]})
    # composite route: process initial states placed through the topology, state overrides
    out.append({'kind': 'gen', 'route': 'composite_store', 'cstate': enc({'s1': {'y': 9}}),
                'tree': [['pA', _proc({'p0': {'x': {'_default': 1}, 'y': {'_default': 2}}}, {'p0': {'x': 0, 'y': 3}})],
                         ['cell', {'group': [['pB', _proc({'q': {'_path_port': {'z': {'_default': 4}}}},
                                                          {'q': {'_path_port': {'z': 5}}})]]}]],
                'topology': enc({'pA': {'p0': ['s1']},
                                 'cell': {'pB': {'q': {'_path': ['..', 's2'], '_path_port': ['deep']}}}}),
                'init': enc({'s1': {'x': False}})})
    # F20 neighbourhood (kept for the model comparison only): empty sub-schema, children in the state
    out.append({'kind': 'gen', 'route': 'generate_state', 'cstate': enc({}),
                'tree': [['pA', _proc({'g': {'*': {}}})]],
                'topology': enc({'pA': {'g': ['g1']}}), 'init': enc({'g1': {'c1': {'m': 1}}})})
    # F21 neighbourhood: only the composite's state given
    out.append({'kind': 'gen', 'route': 'engine_composite', 'cstate': enc({'s1': {'x': 4}}),
                'tree': [['pA', _proc({'p0': {'x': {'_default': 1}}})]],
                'topology': enc({'pA': {'p0': ['s1']}}), 'init': enc({})})
    # step and process declare the same variable: processes are declared first
    out.append({'kind': 'gen', 'route': 'generate_state', 'cstate': enc({}),
                'tree': [['pA', _proc({'p0': {'x': {'_default': 1}}}, step=True)],
                         ['pB', _proc({'p0': {'x': {'_default': 2}}})]],
                'topology': enc({'pA': {'p0': ['s1']}, 'pB': {'p0': ['s1']}}), 'init': enc({})})
    return out


def shrink(case):
    if case['kind'] == 'leaf':
        for i in range(len(case['cfgs'])):
            if len(case['cfgs']) > 1:
                yield dict(case, cfgs=case['cfgs'][:i] + case['cfgs'][i + 1:])
        return
    # drop a process (and its topology entry)
    tree = case['tree']
    flat = walk_tree(tree)
    if len(flat) > 1:
        for g, key, _ in flat:
            t2 = _drop(tree, g, key)
            yield dict(case, tree=t2)
    # drop a port of a process
    for g, key, pr in flat:
        schema = dec(pr['schema'])
        if isinstance(schema, dict) and len(schema) > 1:
            for port in list(schema):
                s2 = {k: v for k, v in schema.items() if k != port}
                tp = topo_dec(case['topology'])
                try:
                    t = topo_at(tp, g + (key,))
                    if isinstance(t, dict):
                        t.pop(port, None)
                except Exception:
                    continue
                yield dict(case, tree=_replace(tree, g, key, dict(pr, schema=enc(s2))),
                           topology=enc(_tuples_to_lists(tp)))
    # simplify the states
    for fld in ('init', 'cstate'):
        st = dec(case[fld])
        if isinstance(st, dict) and st:
            for k in list(st):
                yield dict(case, **{fld: enc({a: b for a, b in st.items() if a != k})})
    if case['route'] != 'generate_state' and not dec(case['cstate']):
        yield dict(case, route='generate_state')


def _tuples_to_lists(x):
    if isinstance(x, tuple):
        return [_tuples_to_lists(y) for y in x]
    if isinstance(x, dict):
        return {k: _tuples_to_lists(v) for k, v in x.items()}
    return x


def _drop(tree, g, key):
    out = []
    for k, node in tree:
        if not g and k == key and 'proc' in node:
            continue
        if g and k == g[0] and 'group' in node:
            out.append([k, {'group': _drop(node['group'], g[1:], key)}])
        else:
            out.append([k, node])
    return out


def _replace(tree, g, key, pr):
    out = []
    for k, node in tree:
        if not g and k == key and 'proc' in node:
            out.append([k, {'proc': pr}])
        elif g and k == g[0] and 'group' in node:
            out.append([k, {'group': _replace(node['group'], g[1:], key, pr)}])
        else:
            out.append([k, node])
    return out


LEVEL_TEXT = ('Lean 4 theorems over an executable model of store generation, all unbounded: for every '
              'sequence of declarations on one node the last `_default`/`_emit`/`_updater` wins and a second, '
              'different `_value`/`_units`/`_serializer` is ValueError while `_updater`/`_divider` '
              'disagreements never raise; `_establish_path` lands at the lexical normal form of the wiring '
              '(".." anywhere); for every list of leaf declarations by any number of processes on any tree '
              'the declared node exists and carries the last declared default; for every tree and value, '
              'set_value + apply_defaults leave the state\'s value unless it is None, then the default '
              '(falsy values kept); later deep_merge wins in Composite.initial_state(). The model is tied to '
              'the code by a node-by-node correspondence check of generate_state / Store.generate / Engine / '
              'Composite on generated composites, and a lexical oracle checks the property on the '
              'implementation alone.')
LEVEL_NOTE = ('Trusted: Lean kernel; axioms ⊆ {propext, Classical.choice, Quot.sound}; the hand-written '
              'model of store.py/composer.py/topology.py generation, validated by differential runs. '
              'Proved in part (`exists_and_value_generate_partial`): that generate\'s walk over nested '
              'schemas/topologies/globs yields the list of declarations, and set_value\'s descent from the '
              'root, are covered by the correspondence check only. Candidate findings F20, F21 and two quirks '
              'of glob ports under dict topologies are outside the oracle\'s well-formed class (notes/C15.md).')
TECHNIQUE = ('Lean 4 proof (invariants over folds of declarations, induction over wiring paths) + '
             'model/code correspondence (differential) + lexical oracle on the implementation')


# instances of one process class sharing their ports_schema dictionary: each variable gets the
# default its OWN declarer gave it (an override on one instance must not leak into the others)
from harness import schemaleak as _sl          # noqa: E402
from harness.mixins import add_family as _add_family   # noqa: E402
_add_family(globals(), _sl, 'schemaleak', lambda case, impl: _sl.oracle(case, impl, who=('views', 'values')), share=0.02)


# competing initial values are merged in declaration order, whatever the hash seed (F44)
from harness import initorder as _io                    # noqa: E402
from harness.mixins import add_family as _add_family    # noqa: E402
_add_family(globals(), _io, 'initorder', _io.oracle, share=0.015)
# glob children that come with Engine(store=, initial_state=) get their declared defaults (F46)
from harness import storeinit as _si                    # noqa: E402
_add_family(globals(), _si, 'storeinit', _si.oracle, share=0.01)


# compatible declarations of one variable (an updater named by the writer only) in every listing order
from harness import declorder as _do                    # noqa: E402
from harness.mixins import add_family as _add_family    # noqa: E402,F811
_add_family(globals(), _do, 'declorder', _do.oracle, share=0.04)


# a schema override (another default, another updater) on a process that is wrapped for parallel execution
from harness import paroverride as _po                  # noqa: E402
from harness.mixins import add_family as _add_family    # noqa: E402,F811
_add_family(globals(), _po, 'paroverride', _po.oracle, share=0.01)
