"""C13 — parallel processes are transparent and always shut down cleanly.

(a) transparency: every scheduler scenario is run serially and with a random subset of its
processes/steps as real `ParallelProcess` workers (forkserver OS processes); emitted trajectory,
final state and the absence of errors must agree, and agree with the Lean scheduler model;
(b) shutdown sweep: a parallel process inside a compartment; `Engine.end()` is called once, twice
or never (the engine is dropped), after a forced or an unforced last call (so an update may be in
flight), optionally after the compartment was deleted or divided away by another process at a tick
at which the parallel process is idle / due in the same batch / in flight."""
import gc
import multiprocessing

from harness import sched_common as sc
from harness import sched_prop

PROP = 'C13'
LEAN_TARGETS = ['VivProps.C13']
DRIVER = 'Sched'
REQUIRED_THEOREMS = ['engine_requests_are_commands', 'end_safe_at_any_point', 'engine_requests_disciplined', 'stop_idle', 'stop_inflight',
                     'stop_twice', 'send_while_pending_rejected', 'accepted_is_disciplined',
                     'get_after_stop_returns_the_pending_result', 'fresh_idle', 'send_idle', 'get_inflight']
ANCHORS = sched_prop.ENGINE_ANCHORS + [
    ('vivarium/core/process.py', ['ParallelProcess.__init__', 'ParallelProcess.send_command',
                                  'ParallelProcess.get_command_result', 'ParallelProcess.end',
                                  'ParallelProcess.__del__', '_handle_parallel_process',
                                  'Process.pre_send_command', 'Process.send_command',
                                  'Process.get_command_result', 'Process.run_command']),
    ('vivarium/core/engine.py', ['Engine.end', 'Engine._end_process_if_parallel',
                                 'Engine._parallelize_processes']),
    ('vivarium/core/store.py', ['Store.recursive_end_process', 'Store._delete_path']),
]
BUDGET = {'quick': 30, 'thorough': 400}
DRIFT_FACTOR = 2
RULE = ('(a) scheduler scenarios (1–3 processes, 0–2 steps) with each process/step marked parallel with '
        'probability 0.6, run serially and in parallel on real OS workers; (b) shutdown sweep over end() × {once, '
        'twice, never} × last call forced/unforced × {no structural change, delete, divide} × kill tick × '
        'timestep of the parallel process (idle / due in the same batch / in flight at the kill). Non-trivial: at '
        'least one parallel process and ≥ 2 batches, or a structural change with the process in flight.')
TRUSTED = ['multiprocessing (pipes, forkserver, join), pickling of arguments/results — observed, not modelled',
           'IEEE float arithmetic of global_time (integer ticks in the model)']
ASSUMPTIONS = ['process code is picklable and deterministic; callbacks terminate']
CASE_TIMEOUT = 60.0
WORKERS = 6


def corpus():
    base = []
    # F14: end() with an update in flight, and deletion in flight
    base.append({'kind': 'shutdown', 'ends': 1, 'last_forced': False, 'kill': None, 'kill_at': 0,
                 'par_ts': 5, 'run': [3]})
    # the worker is still computing when it is told to stop (end() / deletion with the result not yet there)
    base.append({'kind': 'shutdown', 'ends': 1, 'last_forced': False, 'kill': None, 'kill_at': 0,
                 'par_ts': 5, 'run': [3], 'sleep': 0.5})
    base.append({'kind': 'shutdown', 'ends': 1, 'last_forced': True, 'kill': 'delete', 'kill_at': 1,
                 'par_ts': 3, 'run': [3], 'sleep': 0.5})
    # F31: the deleting update comes first in the batch in which the parallel process is due
    base.append({'kind': 'shutdown', 'ends': 1, 'last_forced': True, 'kill': 'delete', 'kill_at': 1,
                 'par_ts': 1, 'run': [3], 'killer_first': True})
    # F32: a structural update while an unrelated parallel process is in flight
    base.append({'kind': 'shutdown', 'ends': 1, 'last_forced': True, 'kill': 'delete', 'kill_at': 1,
                 'par_ts': 1, 'run': [6], 'bystander': True})
    base.append({'kind': 'shutdown', 'ends': 2, 'last_forced': True, 'kill': 'delete', 'kill_at': 2,
                 'par_ts': 3, 'run': [4]})
    # F47: a compartment with an idle parallel process is moved to another store and goes on there
    base.append({'kind': 'shutdown', 'ends': 1, 'last_forced': True, 'kill': 'move', 'kill_at': 2,
                 'par_ts': 1, 'run': [5]})
    # F37: parallel daughters (timestep 5) in flight when the next structural update rebuilds the views
    base.append({'kind': 'shutdown', 'ends': 1, 'last_forced': True, 'kill': 'divide', 'kill_at': 1,
                 'par_ts': 5, 'run': [7], 'second_change': True})
    # a parallel step declared through `processes`; quantities crossing the pipe
    base.append({'kind': 'shutdown', 'ends': 1, 'last_forced': True, 'kill': None, 'kill_at': 0,
                 'par_ts': 1, 'run': [3], 'legacy_step': True, 'units': True, 'override': True})
    # a new process is generated over the parallel one while its update is in flight: the old worker is stopped
    base.append({'kind': 'shutdown', 'ends': 1, 'last_forced': True, 'kill': 'replace', 'kill_at': 1,
                 'par_ts': 3, 'run': [4]})
    # a compartment with several processes (a serial one first, two parallel ones, one of them nested) is deleted /
    # divided away: every worker is stopped
    base.append({'kind': 'shutdown', 'ends': 1, 'last_forced': True, 'kill': 'delete', 'kill_at': 2,
                 'par_ts': 3, 'run': [4], 'crowd': True})
    base.append({'kind': 'shutdown', 'ends': 0, 'last_forced': True, 'kill': 'divide', 'kill_at': 1,
                 'par_ts': 1, 'run': [3], 'crowd': True})
    # the same with a legacy deriver: a Process subclass that overrides is_step()
    base.append({'kind': 'shutdown', 'ends': 1, 'last_forced': True, 'kill': None, 'kill_at': 0,
                 'par_ts': 1, 'run': [3], 'legacy_step': True, 'legacy_kind': 'process'})
    base.append({'kind': 'shutdown', 'ends': 0, 'last_forced': False, 'kill': 'divide', 'kill_at': 2,
                 'par_ts': 3, 'run': [4]})
    c = sched_prop.scheduler_corpus()[7]
    c = dict(c)
    c['procs'] = [dict(p, parallel=(i != 1)) for i, p in enumerate(c['procs'])]
    c['kind'] = 'transparent'
    base.append(c)
    return base


def generate(rng, n, tier):
    out = []
    for _ in range(n):
        if rng.random() < 0.5:
            c = sc.gen_scenario(rng, max_procs=3, max_steps=2, allow_empty=False, p_quiet=0.2, parallel=0.6,
                                max_calls=3, emit_variants=False)
            if not any(p['parallel'] for p in c['procs'] + c['steps']):
                c['procs'][0]['parallel'] = True
            c['kind'] = 'transparent'
            out.append(c)
        else:
            if rng.random() < 0.15:
                # a move (the parallel process idle at every tick: timestep 1; a move with an update in flight is
                # the known finding F19 of C10)
                out.append({'kind': 'shutdown', 'ends': rng.choice([0, 1, 2]), 'last_forced': True, 'kill': 'move',
                            'kill_at': rng.choice([1, 2, 3]), 'par_ts': 1, 'run': [rng.choice([4, 5])],
                            'bystander': rng.random() < 0.4})
                continue
            out.append({'kind': 'shutdown', 'ends': rng.choice([0, 1, 1, 2]),
                        'last_forced': rng.random() < 0.5,
                        'kill': rng.choice([None, 'delete', 'delete', 'divide', 'replace']),
                        'kill_at': rng.choice([1, 2, 3]), 'par_ts': rng.choice([1, 2, 3, 4, 5]),
                        'sleep': rng.choice([0.0, 0.0, 0.3]), 'killer_first': rng.random() < 0.5,
                        'bystander': rng.random() < 0.4, 'legacy_step': rng.random() < 0.3,
                        'legacy_kind': rng.choice(['step', 'process']), 'crowd': rng.random() < 0.4,
                        'units': rng.random() < 0.3, 'second_change': rng.random() < 0.4,
                        'override': rng.random() < 0.3,
                        'run': [rng.choice([2, 3, 4, 5]) for _ in range(rng.choice([1, 2]))]})
    return out


def _rows(log):
    return [[ev['t'], ev['row']] for ev in log if ev['e'] == 'emit']


def _children_left():
    gc.collect()
    kids = multiprocessing.active_children()
    for k in kids:
        k.join(timeout=2.0)
    kids = [k for k in multiprocessing.active_children() if k.name != 'SyncManager']
    # the forkserver itself is not a child Process object; workers are
    return len(kids)


def _shutdown_run(case, obs):
    from vivarium.core.engine import Engine
    from harness.probes import TickProcess, Killer, TickStep, UnitTick, LegacyTick
    eng = None
    try:
        par = TickProcess({'ts': case['par_ts'], '_parallel': True, 'sleep': case.get('sleep', 0.0)})
        # a second compartment keeps the glob store non-empty when `cell` goes (noted edge F20)
        agents = {'cell': {'par': par}, 'other': {'p': TickProcess({'ts': 1, 'var': 'o'})}}
        agents_topo = {'cell': {'par': {'vars': ('vars',)}}, 'other': {'p': {'vars': ('vars',)}}}
        if case.get('crowd'):
            # the compartment holds more than one process: a serial one listed first, the parallel one, and a second
            # parallel one in a sub-compartment — all of them go when the compartment goes
            agents['cell'] = {'ser': TickProcess({'ts': 1, 'var': 's0'}), 'par': par,
                              'inner': {'deep': TickProcess({'ts': case['par_ts'], '_parallel': True, 'var': 'dp'})}}
            agents_topo['cell'] = {'ser': {'vars': ('vars',)}, 'par': {'vars': ('vars',)},
                                   'inner': {'deep': {'vars': ('vars',)}}}
        processes, topology = {}, {}
        killer = None
        if case['kill']:
            killer = Killer({'at': case['kill_at'], 'mode': case['kill'], 'daughter_ts': case['par_ts']})
        killer_topo = {'agents': ('agents',)}
        if case['kill'] == 'move':
            # the compartment moves to another store: its (idle) parallel process goes on there (F47)
            killer_topo['agents2'] = ('agents2',)
            processes['agents2'] = {'keep': {'p': TickProcess({'ts': 1, 'var': 'k'})}}
            topology['agents2'] = {'keep': {'p': {'vars': ('vars',)}}}
        if killer is not None and case.get('killer_first'):
            # the deleting update is applied BEFORE the parallel process's own update of the same batch
            processes['killer'] = killer
            topology['killer'] = dict(killer_topo)
        processes['agents'] = agents
        topology['agents'] = agents_topo
        processes['watch'] = TickProcess({'ts': 1, 'var': 'w'})
        topology['watch'] = {'vars': ('vars',)}
        if case.get('bystander'):
            # an unrelated parallel process that is in flight while the structure changes
            processes['bystander'] = TickProcess({'ts': 5, '_parallel': True, 'var': 'b'})
            topology['bystander'] = {'vars': ('vars',)}
        if case.get('legacy_step'):
            # a parallel step declared through the `processes` dictionary (the legacy placement of derivers)
            # (either a Step subclass or a Process subclass that overrides is_step(): a legacy deriver)
            cls = LegacyTick if case.get('legacy_kind') == 'process' else TickStep
            processes['legacy'] = cls({'_parallel': True, 'var': 'ls'})
            topology['legacy'] = {'vars': ('vars',)}
        if case.get('override'):
            # a parallel process carrying a schema override (`_schema`: its variable is `set`, not accumulated)
            processes['ovr'] = TickProcess({'_parallel': True, 'var': 'ov', 'ts': 1,
                                            '_schema': {'vars': {'ov': {'_updater': 'set'}}}})
            topology['ovr'] = {'vars': ('vars',)}
        if case.get('units'):
            # a parallel and a serial process add quantities to one variable: the values cross the pipe
            processes['ugrow'] = UnitTick({'_parallel': True})
            processes['uleak'] = UnitTick({})
            topology['ugrow'] = {'vars': ('vars',)}
            topology['uleak'] = {'vars': ('vars',)}
        if killer is not None and not case.get('killer_first'):
            processes['killer'] = killer
            topology['killer'] = dict(killer_topo)
        if killer is not None and case.get('second_change'):
            # one tick later another structural update: parallel processes created by the first one (daughters of
            # the division) are in flight when the views are rebuilt (F37)
            processes['killer2'] = Killer({'at': case['kill_at'] + 1, 'mode': 'delete', 'target': 'other'})
            topology['killer2'] = {'agents': ('agents',)}
        eng = Engine(processes=processes, topology=topology, emitter={'type': 'null'},
                     display_info=False, progress_bar=False)
        # the OS process of the first worker: whatever happens to its wrapper, it is told to stop and reaped
        first_worker = getattr(eng.processes['agents']['cell']['par'], 'multiprocess', None)
        for i, iv in enumerate(case['run']):
            last = i == len(case['run']) - 1
            if last and not case['last_forced']:
                eng.run_for(iv)
            else:
                eng.update(iv)
        obs['gt'] = eng.global_time
        obs['agents'] = sorted((eng.state.get_value().get('agents') or {}).keys())
        if case['kill'] == 'move':
            moved = (eng.state.get_value().get('agents2') or {}).get('cell')
            obs['moved_x'] = None if moved is None else moved['vars']['x']
        if case.get('legacy_step'):
            obs['ls'] = eng.state.get_value()['vars']['ls']
        if case.get('override'):
            obs['ov'] = eng.state.get_value()['vars']['ov']
        if case.get('units'):
            m = eng.state.get_value()['vars']['mass']
            obs['mass'] = [float(m.magnitude), str(m.units)]
        for _ in range(case['ends']):
            eng.end()
        if first_worker is not None and case['kill'] in ('delete', 'replace') and sum(case['run']) >= case['kill_at'] \
                and not obs.get('raised'):
            gc.collect()
            try:
                first_worker.join(timeout=5.0)
                obs['first_exit'] = first_worker.exitcode
            except ValueError:
                obs['first_exit'] = 0               # joined and closed by end()
        if case['ends']:
            # Engine.end() itself must have stopped and reaped every worker (not only the garbage collector, later)
            kids = [k for k in multiprocessing.active_children() if k.name != 'SyncManager']
            for k in kids:
                k.join(timeout=2.0)
            obs['alive_after_end'] = max(0, len([k for k in multiprocessing.active_children()
                                                 if k.name != 'SyncManager']) - obs.get('baseline', 0))
    except Exception as e:  # noqa
        obs['raised'] = f'{type(e).__name__}: {str(e)[:160]}'
    # every reference to the engine dies with this frame


def _shutdown(case):
    before = len(multiprocessing.active_children())
    obs = {'baseline': before}
    _shutdown_run(case, obs)
    obs['children_left'] = max(0, _children_left() - before)
    return obs


def run_impl(case):
    if case['kind'] == 'shutdown':
        return {'shutdown': _shutdown(case)}
    before = len(multiprocessing.active_children())
    serial = sc.run_engine(case, parallel_ok=False)
    par = sc.run_engine(case, parallel_ok=True)
    left = max(0, _children_left() - before)
    return {'serial': {k: v for k, v in serial.items() if k != 'log'}, 'serial_rows': _rows(serial.get('log', [])),
            'parallel': {k: v for k, v in par.items() if k != 'log'}, 'parallel_rows': _rows(par.get('log', [])),
            'children_left': left}


def model_requests(case):
    if case['kind'] == 'shutdown':
        reqs = []
        for tail in (['stop'], ['send', 'stop'], ['send', 'stop', 'get']):
            seq = ['send', 'get'] * 2 + tail + ['stop'] * max(0, case['ends'] - 1)
            reqs.append({'op': 'proto', 'reqs': seq})
        return reqs
    return [sc.model_request(case)]


def model_obs(case, ans):
    if case['kind'] == 'shutdown':
        return {'clean': all(a.get('ok', {}).get('ended') and not a['ok']['alive'] and a['ok']['joined']
                             and a['ok']['unread'] == 0 for a in ans)}
    return ans[0]


def compare(case, impl, model):
    if case['kind'] == 'shutdown':
        o = impl['shutdown']
        clean = not o.get('raised') and o.get('children_left') == 0
        if clean != model['clean']:
            return f'shutdown: implementation {o}, protocol model says clean={model["clean"]}'
        return None
    if 'log' not in model:
        return f'model: {model}'
    m_rows = [[ev['t'], sorted(ev['row'])] for ev in model['log'] if ev['e'] == 'emit']
    for side in ('serial', 'parallel'):
        if impl[side].get('raised') or impl[side].get('timeout'):
            return f'{side} run did not complete: {impl[side]}'
        if impl[side + '_rows'] != m_rows:
            return f'{side} rows differ from the model: {str(impl[side + "_rows"])[:300]} vs {str(m_rows)[:300]}'
    return None


def oracle(case, impl):
    if 'harness_exception' in impl:
        return [f'probe-crashed: {impl["harness_exception"]}']
    if impl.get('timeout'):
        return ['hang: a run with parallel processes (or its shutdown) did not return']
    fails = []
    if case['kind'] == 'shutdown':
        o = impl['shutdown']
        if o.get('raised'):
            fails.append(f'shutdown-error: {o["raised"]} ({case})')
        if o.get('children_left'):
            fails.append(f'worker-left: {o["children_left"]} worker OS process(es) still alive after shutdown')
        elif o.get('alive_after_end'):
            fails.append(f'worker-left: {o["alive_after_end"]} worker OS process(es) still alive when Engine.end() '
                         f'returned')
        if 'first_exit' in o and o['first_exit'] != 0:
            fails.append(f'worker-left: the worker of the parallel process that was {case["kill"]}d at t={case["kill_at"]} '
                         f'(timestep {case["par_ts"]}) was not stopped cleanly: exit code {o["first_exit"]} '
                         f'(None = still running)')
        if case.get('units') and not o.get('raised') and case['last_forced'] \
                and o.get('mass') != [2.0 * o['gt'], 'femtogram']:
            fails.append(f'transparent: a parallel and a serial process each add 1 fg per time unit; after '
                         f'{o["gt"]} the variable holds {o.get("mass")}')
        if case.get('legacy_step') and not o.get('raised') and case['last_forced'] \
                and o.get('ls') != 1 + int(o.get('gt', 0)):
            fails.append(f'transparent: a parallel step declared among the processes runs once per step phase (at '
                         f'construction and after every batch, one per time unit): after {o.get("gt")} time units its '
                         f'counter reads {o.get("ls")}, expected {1 + int(o.get("gt", 0))}')
        if case.get('override') and not o.get('raised') and o.get('gt', 0) >= 1 and o.get('ov') != 1:
            fails.append(f'transparent: the schema override of a parallel process (updater `set`) is not in force: its '
                         f'variable holds {o.get("ov")} after {o.get("gt")} time units, `set` leaves 1')
        if case['kill'] == 'move' and not o.get('raised') and o.get('moved_x') != o.get('gt'):
            fails.append(f'transparent: the compartment was moved at t={case["kill_at"]}; its parallel process (+1 per '
                         f'time unit) has counted {o.get("moved_x")} by t={o.get("gt")}')
        if case['kill'] == 'delete' and not o.get('raised') and 'cell' in o.get('agents', []) \
                and sum(case['run']) >= case['kill_at']:
            fails.append('delete: the compartment is still there')
        return fails
    s, p = impl['serial'], impl['parallel']
    if p.get('raised') or p.get('end_raised'):
        fails.append(f'parallel-error: {p.get("raised") or p.get("end_raised")}: {p.get("msg")}')
    if impl['serial_rows'] != impl['parallel_rows']:
        fails.append('transparent: the emitted trajectory differs between the serial and the parallel run')
    if s.get('store') != p.get('store') or s.get('gt') != p.get('gt'):
        fails.append('transparent: final state / clock differ between the serial and the parallel run')
    if impl.get('children_left') or p.get('alive_after_end'):
        fails.append(f'worker-left: {p.get("alive_after_end") or impl["children_left"]} worker OS process(es) '
                     'alive after Engine.end()')
    return fails


def nontrivial(case, impl):
    if case['kind'] == 'shutdown':
        return case['kill'] is not None or not case['last_forced']
    return len(impl.get('serial_rows', [])) >= 3


def classify(case, failure):
    return None


def stats(results):
    from collections import Counter
    c = Counter()
    for r in results:
        case = r['case']
        c[case['kind']] += 1
        if case['kind'] == 'shutdown':
            c['ends=%d' % case['ends']] += 1
            c['kill=%s' % case['kill']] += 1
            c['unforced_last'] += 0 if case['last_forced'] else 1
        else:
            c['parallel_procs'] += sum(1 for p in case['procs'] if p['parallel'])
            c['parallel_steps'] += sum(1 for p in case['steps'] if p['parallel'])
    return dict(c)


LEVEL_TEXT = ('Lean 4 theorems: the command protocol (parent handle, FIFO pipes, worker loop) accepts end() from every '
              'state the engine can leave a process in — idle or one next_update in flight — collecting the pending '
              'result, stopping and joining the worker, with nothing unread left; a second end() is a no-op; a '
              'command sent while one is pending is rejected; and in every reachable log of the scheduler model the '
              'requests to each process alternate send/get (the engine never sends to a busy process, collects each '
              'result once), so end() is safe at any point of any run. Transparency of the logic holds by '
              'construction (one send/get interface). OS-level behaviour is observed on real workers.')
LEVEL_NOTE = ('Partial by nature: reaping of the worker OS process, pipe closure, forkserver start-up, __del__ timing '
              'and pickling are observed by the correspondence (serial-vs-parallel runs and a shutdown sweep with real '
              'multiprocessing), not proved. Trusted: Lean kernel + standard axioms; scheduler and protocol models.')
TECHNIQUE = 'Lean 4 proof of the command protocol + engine discipline; serial/parallel differential runs'


# an adaptive timestep inside a parallel worker (calculate_timestep travels through the pipe)
from harness import adaptpar as _ap                     # noqa: E402
from harness.mixins import add_family as _add_family    # noqa: E402
_add_family(globals(), _ap, 'adaptpar', _ap.oracle, share=0.1)
# parallel processes / steps generated at run time, then another structural change (move of their compartment,
# views rebuilt while a port-less parallel process is in flight)
from harness import parstruct as _ps                    # noqa: E402
_add_family(globals(), _ps, 'parstruct', _ps.oracle, share=0.1)


# legacy derivers (Process subclasses that say they are steps) among the processes, serial or parallel
from harness import legacypar as _lp                    # noqa: E402
from harness.mixins import add_family as _add_family    # noqa: E402,F811
_add_family(globals(), _lp, 'legacypar', _lp.oracle, share=0.04)


# an update due in the batch that removes the compartment of a parallel process; one description, two simulations
from harness import duedelete as _dd                    # noqa: E402
_add_family(globals(), _dd, 'duedelete', _dd.oracle, share=0.08)
