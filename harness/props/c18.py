"""C18 — timeseries and query views of emitted data lose nothing.

Correspondence: a real `RAMEmitter` (emit rows, then every accessor) vs `VivModel/Emitter.lean`.
Oracle: from the raw emitted rows, computed directly: the saved data, the column of every leaf
path (aligned with the time vector when the history is rectangular, the packed shorter list
otherwise), the path timeseries, and for every time exactly the queried non-None values."""
import copy
import warnings

from harness.val import enc, dec, sort_enc, exc_name

PROP = 'C18'
LEAN_TARGETS = ['VivProps.C18']
DRIVER = 'Emitter'
REQUIRED_THEOREMS = [
    'timeseries_columns', 'timeseries_time', 'aligned', 'roundtrip', 'path_timeseries_reads',
    'path_timeseries_only_leaves',
    'query_exact', 'query_keeps_falsy',
]
ANCHORS = [
    ('vivarium/core/emitter.py', ['RAMEmitter.emit', 'RAMEmitter.get_data', 'timeseries_from_data',
                                  'path_timeseries_from_data',
                                  'path_timeseries_from_embedded_timeseries',
                                  'Emitter.get_timeseries', 'Emitter.get_path_timeseries',
                                  'Emitter.get_data_deserialized', 'Emitter.get_data_unitless']),
    ('vivarium/library/dict_utils.py', ['value_in_embedded_dict', 'get_path_list_from_dict',
                                        'get_value_from_path', 'make_path_dict', 'deep_merge_check']),
    ('vivarium/library/topology.py', ['get_in', 'assoc_path', 'paths_to_dict']),
]
BUDGET = {'quick': 1200, 'thorough': 40000}
RULE = ('cases: (rows = [(time, nested row)], embed_path, query paths). Rows follow a random schema '
        'of leaf paths (nesting ≤ 4, keys a..e); values ints incl. 0, bools, "", strings, None, [], '
        'lists, {} ; ~30% of the histories are non-rectangular (rows missing variables), a few have '
        'leaf/branch shape conflicts or repeated times (merged, or ValueError on conflict); queries '
        'mix leaf paths, branch paths, missing paths, overlapping paths and paths through leaves. '
        'Non-trivial: ≥ 2 rows, ≥ 2 leaf paths and (a falsy value or a missing variable or a query).')
TRUSTED = ['serialize_value / deserialize_value (orjson round trip; identity on the plain values used)']
ASSUMPTIONS = [
    'modelled values are None, bool, int (64-bit), str, list, dict with string keys (quantities: qviews family, '
    'oracle only, variables of a fixed shape with registry units fg / um / mmol/L); no '
    'strings that a registered deserializer would pick up; no variable named "time" at the top level',
    'leaf strings never contain a key as substring, lists hold no key strings (get_in through them '
    'answers "absent", as modelled)',
    'integer emit times',
]
CASE_TIMEOUT = 20.0

KEYS = ['a', 'b', 'c', 'd', 'e']


def _warm():
    """import the implementation once in the parent: the forked workers inherit the loaded modules,
    so the per-case watchdog times the case, not the imports"""
    try:
        with warnings.catch_warnings():
            warnings.simplefilter('ignore')
            import importlib
            for m in ['vivarium.core.emitter']:
                importlib.import_module(m)
    except Exception:  # a broken import shows up in run_impl
        pass


_warm()


# ------------------------------------------------------------------ generators

def gen_value(rng):
    r = rng.random()
    if r < 0.22:
        return 0
    if r < 0.45:
        return rng.randrange(-9, 100)
    if r < 0.57:
        return rng.random() < 0.5
    if r < 0.65:
        return ''
    if r < 0.72:
        return rng.choice(['X', 'YY'])
    if r < 0.80:
        return None
    if r < 0.87:
        return []
    if r < 0.95:
        return [rng.choice([0, 1, False, None, 'X', [], 2]) for _ in range(rng.randrange(1, 4))]
    return {}


def gen_schema(rng, depth):
    """list of leaf paths, prefix-free"""
    out = []

    def rec(prefix, d):
        # below the top level a variable (or branch) may be called `time` like any other (a clock variable at
        # ('global', 'time'), an agent's own time); only the top-level key is the row's time stamp
        keys = KEYS + ['time'] if prefix else KEYS
        for k in rng.sample(keys, rng.choice([1, 2, 2, 3])):
            if d > 1 and rng.random() < 0.45:
                rec(prefix + [k], d - 1)
            else:
                out.append(prefix + [k])
    rec([], depth)
    return out


def nest(pairs):
    d = {}
    for p, v in pairs:
        cur = d
        for k in p[:-1]:
            nxt = cur.get(k)
            if not isinstance(nxt, dict):
                nxt = {}
                cur[k] = nxt
            cur = nxt
        cur[p[-1]] = v
    return d


def gen_case(rng):
    schema = gen_schema(rng, rng.choice([1, 2, 3, 4]))
    n = rng.choice([0, 1, 2, 2, 3, 3, 4, 5, 6])
    mode = rng.random()
    rows = []
    t = rng.randrange(0, 3)
    for _ in range(n):
        pairs = []
        for p in schema:
            if mode > 0.7 and rng.random() < 0.3:
                continue                      # non-rectangular: variable missing in this row
            pairs.append((p, gen_value(rng)))
        if mode > 0.93 and pairs and rng.random() < 0.5:
            # shape conflict: a leaf where other rows have a branch, or the reverse
            p, _ = rng.choice(pairs)
            if len(p) > 1 and rng.random() < 0.5:
                pairs = [(q, v) for q, v in pairs if q[:len(p) - 1] != p[:-1]] + [(p[:-1], gen_value(rng))]
            else:
                pairs = [(q, v) for q, v in pairs if q != p] + [(p + ['z'], gen_value(rng))]
        rng.shuffle(pairs) if rng.random() < 0.3 else None
        rows.append([t, enc(nest(pairs))])
        r = rng.random()
        if r < 0.08:
            pass                              # same time again: merged into the saved row
        else:
            t += rng.choice([1, 1, 2, 5])
    if len(rows) > 2 and rng.random() < 0.15:
        # rows that reach the emitter late (several engines sharing one emitter, merged data): the views list the
        # times in the order of the history and keep every value next to its own time
        rng.shuffle(rows)
    embed = [] if rng.random() < 0.8 else rng.choice([['em'], ['em', 'bed']])
    # queries
    cand = [embed + p for p in schema]
    query = []
    for _ in range(rng.choice([0, 1, 1, 2, 3, 4])):
        r = rng.random()
        if cand and r < 0.55:
            query.append(rng.choice(cand))
        elif cand and r < 0.75:
            p = rng.choice(cand)
            query.append(p[:rng.randrange(1, len(p) + 1)])          # a branch (or the leaf)
        elif cand and r < 0.85:
            query.append(rng.choice(cand) + [rng.choice(KEYS)])       # through a leaf
        elif r < 0.95:
            query.append([rng.choice(KEYS + ['zz']) for _ in range(rng.randrange(1, 4))])
        else:
            query.append([])
    return {'rows': rows, 'embed': embed, 'query': query}


def generate(rng, n, tier):
    return [gen_case(rng) for _ in range(n)]


def corpus():
    row = lambda **kw: enc(kw)
    return [
        # F16 pre-fix witness: the query dropped 0 / False / '' / []
        {'rows': [[0, row(a=0, b=False, c='', d=[], e=5)], [1, row(a=1, b=True, c='X', d=[0], e=0)]],
         'embed': [], 'query': [['a'], ['b'], ['c'], ['d'], ['e']]},
        {'rows': [[0, enc({'p': {'x': 0, 'y': None}})], [2, enc({'p': {'x': False, 'y': 0}})]],
         'embed': [], 'query': [['p', 'x'], ['p', 'y']]},
        # non-rectangular: b missing at time 1 — the column is shorter, alignment is lost
        {'rows': [[0, row(a=1, b=2)], [1, row(a=3)], [2, row(a=4, b=5)]], 'embed': [], 'query': []},
        # repeated time: consistent merge, then a conflicting one (ValueError)
        {'rows': [[0, row(a=1)], [0, row(b=2)], [0, row(a=True)]], 'embed': [], 'query': [['a']]},
        {'rows': [[0, row(a=1)], [0, row(a=2)]], 'embed': [], 'query': []},
        # shape conflicts: leaf then branch (TypeError), branch then leaf (AttributeError)
        {'rows': [[0, row(a=1)], [1, enc({'a': {'x': 1}})]], 'embed': [], 'query': []},
        {'rows': [[0, enc({'a': {'x': 1}})], [1, row(a=1)]], 'embed': [], 'query': []},
        {'rows': [[0, row(a=1)], [1, enc({'a': {}})]], 'embed': [], 'query': [['a']]},
        # embed path, overlapping and missing queries, a query through a leaf (TypeError)
        {'rows': [[0, enc({'a': {'b': 1, 'c': {'d': 0}}})], [1, enc({'a': {'b': 2, 'c': {'d': ''}}})]],
         'embed': ['em'], 'query': [['em', 'a'], ['em', 'a', 'c', 'd'], ['zz'], ['em', 'a', 'zz']]},
        {'rows': [[0, row(a=1)]], 'embed': [], 'query': [['a', 'b']]},
        {'rows': [], 'embed': [], 'query': [['a']]},
    ]


# ------------------------------------------------------------------ implementation side

def _try(f):
    try:
        return {'ok': f()}
    except Exception as e:  # noqa
        return {'err': exc_name(e)}


def _hist(d):
    return [[t, sort_enc(enc(r))] for t, r in d.items()]


def _pts(d):
    return {'paths': sorted([[list(k), enc(v)] for k, v in d.items() if k != 'time'],
                            key=lambda pv: pv[0]),
            'time': enc(d['time'])}


def run_impl(case):
    warnings.simplefilter('ignore')
    from vivarium.core.emitter import RAMEmitter, path_timeseries_from_embedded_timeseries
    em = RAMEmitter({'embed_path': tuple(case['embed'])})
    em.emit({'table': 'configuration', 'data': {'time': 99, 'ignored': 1}})
    for t, r in case['rows']:
        data = dec(r)
        data['time'] = t
        try:
            em.emit({'table': 'history', 'data': data})
        except Exception as e:  # noqa
            return {'emitErr': exc_name(e)}
    q = [tuple(p) for p in case['query']]
    obs = {
        'data': _hist(em.get_data()),
        'query': _try(lambda: _hist(em.get_data(q))),
        'timeseries': _try(lambda: sort_enc(enc(em.get_timeseries()))),
        'pathTimeseries': _try(lambda: _pts(em.get_path_timeseries())),
        'queryTimeseries': _try(lambda: sort_enc(enc(em.get_timeseries(q)))),
        'queryPathTimeseries': _try(lambda: _pts(em.get_path_timeseries(q))),
    }
    # side observations for the oracle only
    obs['_unitless'] = _try(lambda: _hist(em.get_data_unitless(q)))
    obs['_deserialized'] = _try(lambda: _hist(em.get_data_deserialized()))
    obs['_pts_from_ts'] = _try(lambda: _pts(path_timeseries_from_embedded_timeseries(em.get_timeseries())))
    # the conversion must leave the embedded timeseries it is given intact (it is used again)
    def _reuse():
        import copy
        ts = em.get_timeseries()
        before = copy.deepcopy(ts)
        path_timeseries_from_embedded_timeseries(ts)
        return ts == before
    obs['_ts_intact_after_conversion'] = _try(_reuse)
    obs['_data_again'] = _hist(em.get_data())       # the accessors must not change the saved data
    return obs


# ------------------------------------------------------------------ model side

def model_requests(case):
    return [{'op': 'views', 'rows': case['rows'], 'embed': case['embed'], 'query': case['query']}]


def _m_hist(h):
    return [[t, sort_enc(r)] for t, r in h]


def _m_pts(r):
    return {'paths': sorted(r['paths'], key=lambda pv: pv[0]), 'time': r['time']}


def model_obs(case, ans):
    a = ans[0]
    if 'emitErr' in a:
        return {'emitErr': a['emitErr']}

    def ex(x, f):
        return {'ok': f(x['ok'])} if 'ok' in x else x
    return {
        'data': _m_hist(a['data']),
        'query': ex(a['query'], _m_hist),
        'timeseries': ex(a['timeseries'], sort_enc),
        'pathTimeseries': ex(a['pathTimeseries'], _m_pts),
        'queryTimeseries': ex(a['queryTimeseries'], sort_enc),
        'queryPathTimeseries': ex(a['queryPathTimeseries'], _m_pts),
    }


def compare(case, impl, model):
    if not isinstance(impl, dict) or 'harness_exception' in impl or 'timeout' in impl:
        return f'implementation probe failed: {_short(impl)}'
    if 'emitErr' in impl or 'emitErr' in model:
        if impl.get('emitErr') != model.get('emitErr'):
            return f'emit: impl={impl.get("emitErr", "ok")} model={model.get("emitErr", "ok")}'
        return None
    diffs = []
    for key, mv in model.items():
        iv = impl.get(key)
        if iv != mv:
            diffs.append(f'{key}: impl={_short(iv)} model={_short(mv)}')
    return '; '.join(diffs) if diffs else None


def _short(x):
    import json
    s = json.dumps(x, default=str)
    return s if len(s) < 400 else s[:400] + '…'


# ------------------------------------------------------------------ oracle (independent of the model)

class Conflict(Exception):
    pass


def _merge_checked(dst, src):
    for k, v in src.items():
        if k in dst and isinstance(dst[k], dict) and isinstance(v, dict):
            _merge_checked(dst[k], v)
        elif k in dst and dst[k] != v:
            raise Conflict()
        else:
            dst[k] = v


def _leaves(d, prefix=()):
    out = {}
    for k, v in d.items():
        if isinstance(v, dict):
            out.update(_leaves(v, prefix + (k,)))
        else:
            out[prefix + (k,)] = v
    return out


def _branches(d, prefix=()):
    out = set()
    for k, v in d.items():
        if isinstance(v, dict):
            out.add(prefix + (k,))
            out |= _branches(v, prefix + (k,))
    return out


def _read(d, p):
    """('val', v) | ('absent',) | ('through-leaf',)"""
    for i, k in enumerate(p):
        if not isinstance(d, dict):
            return ('through-leaf', d)
        if k not in d:
            return ('absent',)
        d = d[k]
    return ('val', d)


def _expected_columns(hist):
    """None when some path is a leaf in one row and a branch in another"""
    leaf_paths, branch_paths = set(), set()
    for row in hist.values():
        leaf_paths |= set(_leaves(row))
        branch_paths |= _branches(row)
    if leaf_paths & branch_paths:
        return None
    for p in leaf_paths:          # a leaf above/below another leaf path is a conflict as well
        for i in range(1, len(p)):
            if p[:i] in leaf_paths:
                return None
    cols = {}
    for row in hist.values():
        for p, v in _leaves(row).items():
            cols.setdefault(p, []).append(v)
    return cols


def _check_views(what, hist, ts_obs, pts_obs, fails):
    cols = _expected_columns(hist)
    times = list(hist.keys())
    if cols is None:
        return   # exact (raising) behaviour on shape conflicts is covered by the correspondence
    if 'time' in [p[0] for p in cols]:
        return
    if 'err' in ts_obs:
        fails.append(f'{what}timeseries: raised {ts_obs["err"]} on a history without shape conflicts')
        return
    ts = dec(ts_obs['ok'])
    if ts.get('time') != times:
        fails.append(f'{what}timeseries: time vector {ts.get("time")} is not the emitted times {times}')
    got = _leaves({k: v for k, v in ts.items() if k != 'time'})
    n = len(times)
    for p, col in cols.items():
        g = got.get(p)
        if not _same(g, col):
            kind = 'aligned' if len(col) == n else 'packed'
            fails.append(f'{what}timeseries-{kind}: column {list(p)} is {_short(enc(g))}; emitted values in '
                         f'time order are {_short(enc(col))}')
            return
    extra = set(got) - set(cols)
    if extra:
        fails.append(f'{what}timeseries: columns {sorted(extra)} were never emitted')
    if 'err' in pts_obs:
        fails.append(f'{what}path-timeseries: raised {pts_obs["err"]}')
        return
    pt = {tuple(p): dec(v) for p, v in pts_obs['ok']['paths']}
    if dec(pts_obs['ok']['time']) != times:
        fails.append(f'{what}path-timeseries: time vector differs from the emitted times')
    if set(pt) != set(cols):
        fails.append(f'{what}path-timeseries: paths {sorted(pt)} ≠ emitted leaf paths {sorted(cols)}')
        return
    for p, col in cols.items():
        if not _same(pt[p], col):
            fails.append(f'{what}path-timeseries: {list(p)} is {_short(enc(pt[p]))}, emitted {_short(enc(col))}')
            return
    # round trip cell by cell (rectangular part)
    for i, (t, row) in enumerate(hist.items()):
        for p, v in _leaves(row).items():
            if len(cols[p]) == n and not _same(pt[p][i], v):
                fails.append(f'{what}roundtrip: cell ({t}, {list(p)}) reads back {pt[p][i]!r}, emitted {v!r}')
                return


def _same(a, b):
    """equality that tells False from 0 and True from 1"""
    return a == b and enc(a) == enc(b) and type(a) is type(b)


def oracle(case, impl):
    if not isinstance(impl, dict) or 'harness_exception' in impl or 'timeout' in impl:
        return [f'probe-crashed: {_short(impl)}']
    fails = []
    embed = case['embed']
    hist = {}
    conflict = False
    for t, r in case['rows']:
        row = dec(r)
        for k in reversed(embed):
            row = {k: row}
        try:
            _merge_checked(hist.setdefault(t, {}), copy.deepcopy(row))
        except Conflict:
            conflict = True
            break
    if conflict:
        if impl.get('emitErr') != 'ValueError':
            fails.append(f'emit: two different values for one variable at one time were accepted '
                         f'({impl.get("emitErr", "no error")})')
        return fails
    if 'emitErr' in impl:
        return [f'emit: raised {impl["emitErr"]} on consistent rows']
    want = [[t, sort_enc(enc(r))] for t, r in hist.items()]
    if impl['data'] != want:
        fails.append(f'saved-data: get_data() = {_short(impl["data"])}; emitted {_short(want)}')
        return fails
    if impl['_data_again'] != want:
        fails.append('saved-data: changed by calling the accessors')
    if impl['_deserialized'] != {'ok': want}:
        fails.append(f'saved-data: get_data_deserialized() = {_short(impl["_deserialized"])}')
    _check_views('', hist, impl['timeseries'], impl['pathTimeseries'], fails)
    if 'ok' in impl['timeseries'] and impl.get('_ts_intact_after_conversion') not in ({'ok': True}, None) \
            and 'ok' in impl.get('_ts_intact_after_conversion', {}):
        fails.append('timeseries-changed: converting an embedded timeseries to a path timeseries modified the '
                     'embedded timeseries')
    if 'ok' in impl['timeseries'] and impl['_pts_from_ts'] != impl['pathTimeseries']:
        fails.append('path-timeseries: from_data differs from from_embedded_timeseries(timeseries)')
    # ---- query
    query = [tuple(p) for p in case['query']]
    if not query:
        if impl['query'] != {'ok': want}:
            fails.append('query: an empty query does not return the saved data')
        return fails
    qhist = {}
    unspecified = False
    for t, row in hist.items():
        pairs = []
        for p in query:
            r = _read(row, p)
            if r[0] == 'through-leaf':
                unspecified = True     # get_in through a leaf: raises or not depending on its type
            elif r[0] == 'val' and r[1] is not None:
                pairs.append((p, r[1]))
        if () in query:
            unspecified = True         # the whole row merged in: outside the property's wording
        # exactly the queried variables with their emitted values
        d = {}
        for p, v in pairs:
            cur = d
            for k in p[:-1]:
                nxt = cur.get(k)
                if not isinstance(nxt, dict):
                    nxt = {}
                    cur[k] = nxt
                cur = nxt
            if p:
                cur[p[-1]] = copy.deepcopy(v)
        qhist[t] = d
    if unspecified:
        return fails
    if 'err' in impl['query']:
        fails.append(f'query: raised {impl["query"]["err"]}')
        return fails
    got = {t: dec(r) for t, r in impl['query']['ok']}
    if list(got) != list(hist):
        fails.append(f'query: times {list(got)} ≠ emitted times {list(hist)}')
        return fails
    for t in hist:
        if not (got[t] == qhist[t] and sort_enc(enc(got[t])) == sort_enc(enc(qhist[t]))):
            dropped = [list(p) for p in query
                       if _read(hist[t], p)[0] == 'val' and _read(hist[t], p)[1] is not None
                       and _read(got[t], p)[0] != 'val']
            fails.append(f'query-exact: at time {t} the query returns {_short(enc(got[t]))}; the queried '
                         f'variables hold {_short(enc(qhist[t]))}' + (f' (dropped: {dropped})' if dropped else ''))
            return fails
    if impl['_unitless'] != impl['query']:
        fails.append('query: get_data_unitless(query) differs from get_data(query) on unit-free data')
    _check_views('query-', qhist, impl['queryTimeseries'], impl['queryPathTimeseries'], fails)
    return fails


def nontrivial(case, impl):
    rows = case['rows']
    if len(rows) < 2:
        return False
    leaves = set()
    falsy = False
    counts = []
    for _, r in rows:
        lv = _leaves(dec(r))
        leaves |= set(lv)
        counts.append(len(lv))
        falsy = falsy or any((v in (0, '', None) or v == [] or v is False) for v in lv.values())
    return len(leaves) >= 2 and (falsy or len(set(counts)) > 1 or bool(case['query']))


def classify(case, failure):
    return None


def stats(results):
    from collections import Counter
    nrows = Counter(min(len(r['case']['rows']), 6) for r in results)
    nonrect = conflicts = emit_err = qerr = falsy_q = 0
    depth = Counter()
    for r in results:
        c = r['case']
        sets = [frozenset(_leaves(dec(x))) for _, x in c['rows']]
        nonrect += len(set(sets)) > 1
        for s in sets:
            for p in s:
                depth[len(p)] += 1
        io = r['impl'] if isinstance(r['impl'], dict) else {}
        emit_err += 'emitErr' in io
        conflicts += 'err' in io.get('timeseries', {})
        qerr += 'err' in io.get('query', {})
        for _, x in c['rows']:
            row = dec(x)
            for p in c['query']:
                rr = _read(row, p[len(c['embed']):] if p[:len(c['embed'])] == c['embed'] else ['\0'])
                if rr[0] == 'val' and not isinstance(rr[1], dict) and not rr[1] and rr[1] is not None:
                    falsy_q += 1
    return {'rows_per_history': dict(sorted(nrows.items())), 'non_rectangular': nonrect,
            'timeseries_raising_shape_conflict': conflicts, 'emit_conflicts': emit_err,
            'queries_raising': qerr, 'queried_falsy_cells': falsy_q,
            'leaf_depths': dict(sorted(depth.items())),
            'with_query': sum(1 for r in results if r['case']['query']),
            'with_embed_path': sum(1 for r in results if r['case']['embed'])}


def shrink(case):
    rows = case['rows']
    for i in range(len(rows)):
        c = copy.deepcopy(case)
        c['rows'] = rows[:i] + rows[i + 1:]
        yield c
    for i in range(len(case['query'])):
        c = copy.deepcopy(case)
        c['query'] = case['query'][:i] + case['query'][i + 1:]
        yield c
    if case['embed']:
        c = copy.deepcopy(case)
        c['embed'] = []
        c['query'] = [p[len(case['embed']):] if p[:len(case['embed'])] == case['embed'] else p
                      for p in case['query']]
        yield c
    for i, (t, r) in enumerate(rows):
        d = dec(r)
        for p in list(_leaves(d)):
            c = copy.deepcopy(case)
            dd = copy.deepcopy(d)
            cur = dd
            for k in p[:-1]:
                cur = cur[k]
            del cur[p[-1]]
            c['rows'][i] = [t, enc(dd)]
            yield c


LEVEL_TEXT = ('Lean 4 theorems, for all histories and all query sets (unbounded): the embedded timeseries '
              'holds, at every leaf path, exactly the values emitted at that path in time order (so for a '
              'rectangular history every column is aligned one-to-one with the time vector and reading '
              'back cell by cell reproduces the raw data; for a non-rectangular one the packed shorter '
              'list), the time vector is the list of emitted times, the path timeseries reads the same '
              'columns, and a query returns for every time exactly the queried paths whose value is not '
              'None, with their values — 0, False, "" and [] included. The model is tied to emitter.py by '
              'a correspondence check through a real RAMEmitter and every accessor.')
LEVEL_NOTE = ('Trusted: Lean kernel; axioms ⊆ {propext, Classical.choice, Quot.sound}; the hand-written model '
              'of emitter.py / dict_utils.py helpers validated by differential runs; orjson serialisation '
              'round trip taken as the identity on plain values; Quantity values are covered by the oracle-only qviews family, not by a theorem; the database emitter '
              'is out of scope.')
TECHNIQUE = 'Lean 4 proof by induction over rows and paths + model/code correspondence (differential)'


# histories with quantities: heterogeneous records, lists of quantities, nested containers
from harness import qviews as _qv                       # noqa: E402
from harness.mixins import add_family as _add_family    # noqa: E402
_add_family(globals(), _qv, 'qviews', _qv.oracle, share=0.1)
