"""C02 — the timestep handed to a process equals the simulated interval it covers."""
from harness import sched_common as sc
from harness.sched_prop import install, zero_length_corpus


def view(case, events, info):
    inv = sc.project(events, ('invoke',), drop=('view', 'due', 'u', 'gt'))
    cond = sc.project(events, ('askCond',), drop=('gt',))
    forced_last = bool(case['calls'] and case['calls'][-1][1])
    if 'log' in info:     # implementation
        complete = info.get('raised') != 'AssertionError'
    else:
        complete = info['complete'] or not forced_last
    return {'invoke': inv, 'askCond': cond, 'complete': complete, 'gt': info.get('gt')}


def oracle(case, impl):
    fails = []
    if impl.get('timeout'):
        return []
    log = impl['log']
    if impl.get('raised') == 'AssertionError':
        fails.append(f'drained: update() left a process behind or pending: {impl.get("msg")}')
    elif impl.get('raised'):
        fails.append(f'engine-raised: {impl["raised"]}: {impl.get("msg")}')
        return fails
    # a step covers the zero-length interval of its phase: it is handed timestep 0, whatever it is configured with
    for ev in log:
        if ev['e'] in ('stepCond', 'stepInvoke') and ev.get('ts') != 0:
            fails.append(f'timestep: step {tuple(ev["p"])} (poll {ev["k"]} at {ev["t"]}) was handed timestep {ev.get("ts")}; '
                         f'a step phase covers no time (timestep 0)')
            break
    applied = {}
    for ev in log:
        if ev['e'] == 'apply':
            applied.setdefault((tuple(ev['p']), ev['n']), ev['t'])
    per = {}
    quiet_between = {}
    for ev in log:
        if ev['e'] == 'askCond' and not ev['ans']:
            quiet_between[tuple(ev['p'])] = True
        if ev['e'] == 'invoke':
            p = tuple(ev['p'])
            t_apply = applied.get((p, ev['n']))
            if ev.get('start') is not None and t_apply is not None and ev['ts'] != t_apply - ev['start']:
                fails.append(f'timestep: {p} call {ev["n"]} got timestep {ev["ts"]} for the interval '
                             f'[{ev["start"]},{t_apply}]')
            if ev['ts'] <= 0:
                fails.append(f'timestep: {p} call {ev["n"]} got non-positive timestep {ev["ts"]}')
            prev = per.get(p)
            if prev is not None and ev.get('start') is not None:
                prev_end = prev['start'] + prev['ts']
                if ev['start'] < prev_end:
                    fails.append(f'overlap: {p} interval {ev["n"]} starts at {ev["start"]} before the previous '
                                 f'one ended at {prev_end}')
                elif ev['start'] > prev_end and not quiet_between.get(p):
                    fails.append(f'gap: {p} interval {ev["n"]} starts at {ev["start"]}, previous ended {prev_end}')
            elif prev is None and ev.get('start') is not None and ev['start'] != case['t0'] \
                    and not quiet_between.get(p):
                fails.append(f'entry: first interval of {p} starts at {ev["start"]}, entered at {case["t0"]}')
            per[p] = ev
            quiet_between[p] = False
    # after a final forced call: the timesteps of a never-quiet process sum to the elapsed time
    if case['calls'] and case['calls'][-1][1] and not impl.get('raised'):
        elapsed = impl['gt'] - case['t0']
        for pr in case['procs']:
            p = tuple(pr['pid'])
            was_quiet = any(ev['e'] == 'askCond' and tuple(ev['p']) == p and not ev['ans'] for ev in log)
            if was_quiet:
                continue
            total = sum(ev['ts'] for ev in log if ev['e'] == 'invoke' and tuple(ev['p']) == p)
            if total != elapsed:
                fails.append(f'sum: timesteps handed to {p} sum to {total}, elapsed {elapsed}')
        for path, t, pending in impl.get('fronts', []):
            if t != impl['gt'] or pending:
                fails.append(f'drained: after update() process {path} is at {t} (clock {impl["gt"]}), '
                             f'pending={pending}')
    return fails


install(globals(), 'C02', view, oracle,
        gen_opts=dict(max_steps=2, emit_variants=False, p_quiet=0.2, ts_terms=True, zero_calls=True),
        extra_corpus=zero_length_corpus(),
        budget={'quick': 250, 'thorough': 6000},
        rule='scheduler scenarios as for C01, weighted to timesteps that do not divide the run length and to '
             'chunked run_for sequences ending with forced completion. The probe records, at every next_update, '
             'the timestep argument and how far the process had been simulated (Engine.front). Non-trivial: ≥ 2 '
             'processes and ≥ 12 trace events.',
        level_text='Lean 4 theorems over the scheduler model: the timestep argument of every invocation equals the '
                   'length of the interval whose end is when the update is applied (requested timestep, or the '
                   'remainder to the end time under forced completion); the intervals of a process (invoked or '
                   'skipped while quiet) tile its time line; after update() every process is at the global time '
                   'with nothing pending. For all timestep assignments, all run lengths (zero included: update(0) hands out no '
                   'empty interval and drains the engine) and all call sequences, forced or not.',
        level_note='Trusted: Lean kernel + standard axioms; scheduler model ~ Engine.run_for via trace '
                   'correspondence; float interval lengths are compared up to 1e-9 of a tick.',
        technique='Lean 4 invariant proof over the scheduler loop + event-trace correspondence',
        required=['update_zero_is_noop', 'drained_after_zero_update', 'zero_update_timesteps_positive', 'timestep_is_interval', 'timestep_requested_or_remainder', 'drained_after_update', 'noPending_after_runFor',
                  'intervals_contiguous', 'timesteps_sum_to_elapsed', 'timesteps_sum_after_update'])


# processes that enter (and leave) at run time
from harness import dynfamily as _dyn             # noqa: E402
from harness.mixins import add_family as _add_family   # noqa: E402
_add_family(globals(), _dyn, 'dyn', _dyn.oracle_intervals, share=0.1)

# an adaptive timestep inside a parallel worker: the timesteps handed are the ones requested
from harness import adaptpar as _ap                # noqa: E402
_add_family(globals(), _ap, 'adaptpar', _ap.oracle, share=0.02)
# compartments created at run time (also several by one update): their processes are simulated from then on
from harness import dynflow as _df                 # noqa: E402
_add_family(globals(), _df, 'dynflow', lambda case, impl: _df.oracle(case, impl, who=('alive',)), share=0.06)


# a process put in the place of another one (deleted and re-created, replaced in place, also while the old one
# lags behind with a deferred timestep) is simulated from the moment it entered, with the timesteps it asks for
from harness import deadwriter as _dw                   # noqa: E402
_add_family(globals(), _dw, 'deadwriter', _dw.oracle, share=0.04)
