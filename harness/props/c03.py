"""C03 — the clock is monotone and lands exactly on the requested end; run_for terminates."""
from harness import sched_common as sc
from harness import sched_prop
from harness.sched_prop import install, zero_length_corpus


def _times(events):
    out = []
    for ev in events:
        t = ev.get('gt', ev.get('t'))
        if t is not None and ev['e'] in ('askTs', 'askCond', 'invoke', 'apply', 'emit', 'stepCond',
                                         'stepInvoke', 'stepApply'):
            out.append(t)
    return out


def view(case, events, info):
    ts = _times(events)
    distinct = []
    for t in ts:
        if not distinct or distinct[-1] != t:
            distinct.append(t)
    return {'clock_instants': distinct, 'gt': info.get('gt'),
            # the instants at which a row is emitted (the emit schedule lives on the same grid as the events)
            'emit_instants': [ev.get('gt', ev.get('t')) for ev in events if ev['e'] == 'emit'],
            'abnormal': info.get('raised') or ('timeout' if info.get('timeout') else None)}


def oracle(case, impl):
    fails = []
    if impl.get('timeout'):
        return ['hang: a run_for/update call did not return (watchdog)']
    if impl.get('raised'):
        fails.append(f'engine-raised: {impl["raised"]}: {impl.get("msg")}')
    ts = _times(impl['log'])
    for a, b in zip(ts, ts[1:]):
        if b < a:
            fails.append(f'monotone: global time went from {a} back to {b}')
            break
    # landing and bound, call by call
    clock = impl.get('clock_after_calls')
    if clock:
        expect = clock[0]
        for (iv, _), got in zip(case['calls'], clock[1:]):
            expect += iv
            if got != expect:
                fails.append(f'lands: after the call the clock is {got}, requested end {expect}')
                break
    if ts and clock and max(ts) > clock[-1]:
        fails.append(f'bound: an event happened at {max(ts)} beyond the clock {clock[-1]}')
    if impl.get('bad_times'):
        fails.append(f'grid: times off the 10^-p grid: {impl["bad_times"]}')
    return fails


install(globals(), 'C03', view, oracle,
        gen_opts=dict(p_quiet=0.45, allow_empty=True, zero_calls=True),
        extra_corpus=zero_length_corpus(),
        budget={'quick': 250, 'thorough': 6000},
        rule='scheduler scenarios with 0–4 processes (empty process sets — steps only —, all-quiet sets, '
             'conditions that flip, adaptive state-dependent timesteps, timesteps shrinking after a deferral), 0–3 '
             'steps, intervals shorter than every timestep, forced and unforced calls, all tick units/precisions; a '
             '10 s watchdog turns a hang into the "timeout" observation. Non-trivial: ≥ 2 processes/steps and ≥ 12 '
             'trace events.',
        level_text='Lean 4 theorems over the scheduler model, for every process set (incl. empty and all-quiet) and '
                   'every oracle with positive timesteps: each loop pass strictly advances the clock and never '
                   'passes the end time; run_for returns after at most interval+1 passes with the clock exactly on '
                   'start+interval; any sequence of calls ends at start + the sum of intervals; the all-quiet pass '
                   'jumps to the end. Times are integer ticks; the float side (grid exactness under '
                   'global_time_precision) is checked by the correspondence on every observed time.',
        level_note='Trusted: Lean kernel + standard axioms; scheduler model ~ Engine.run_for via trace '
                   'correspondence; IEEE float addition and round() are modelled, not verified (tick units with '
                   'exact arithmetic, or decimal units with global_time_precision).',
        technique='Lean 4 termination + invariant proof over the scheduler loop; trace correspondence',
        required=['runFor_lands', 'runCalls_lands', 'iteration_progress', 'init_inv',
                  'quiet_jumps_to_end', 'engine_always_returns'])


# ------------------------------------------------------------------------------------------------
# float-grid family: with global_time_precision p the clock moves between grid points a·10^-p and
# b·10^-p; for some pairs the float sum x + (y - x) is one ulp off y.  Every place where the engine
# copies or compares times must use the rounded value.  The family drives the clock exactly through
# such pairs, with an active process, a quiet process and a deferred one looking on.
def _dangerous_pairs(unit, prec, limit=60):
    out = []
    for a in range(0, limit):
        for b in range(a + 1, limit):
            x, y = round(a * unit, prec), round(b * unit, prec)
            if x + (y - x) != y:
                out.append((a, b))
    return out


_PAIRS = {(0.1, 1): _dangerous_pairs(0.1, 1), (0.01, 2): _dangerous_pairs(0.01, 2)}


def _grid_case(rng):
    unit, prec = rng.choice([(0.1, 1), (0.1, 1), (0.01, 2)])
    a, b = rng.choice(_PAIRS[(unit, prec)])
    script = ([a] if a > 0 else []) + [b - a, rng.choice([1, 2, 3])]
    procs = [sched_prop.P('p0', script),
             sched_prop.P('p1', [1], cond={'script': [False]}),           # always quiet
             sched_prop.P('p2', [rng.choice([1, 2, 5])], cond={'script': [rng.random() < 0.5, True]})]
    if rng.random() < 0.5:
        procs = procs[:2]
    total = b + rng.choice([0, 1, 2, 3])
    calls = [[total, True]] if rng.random() < 0.6 else [[max(1, a), False], [total - max(1, a) if total > max(1, a) else 1, True]]
    return sched_prop.S(procs, calls, unit=unit, prec=prec)


_generate0 = generate


def generate(rng, n, tier):
    return list(_generate0(rng, n, tier)) + [_grid_case(rng) for _ in range(max(6, n // 8))]


# decimal timesteps without global_time_precision: every call still lands exactly on the float it computed for
# its end, the clock never passes it, row times increase
from harness import noprec as _np_fam                   # noqa: E402
from harness.mixins import add_family as _add_family    # noqa: E402
_add_family(globals(), _np_fam, 'noprec', _np_fam.oracle, share=0.1)


# the correspondence of event times with the requests a polled process produces, when the process that is
# polled lives in a worker (the scheduler asks the worker, not the wrapper's static parameter)
from harness import adaptpar as _ap                     # noqa: E402
_add_family(globals(), _ap, 'adaptpar', _ap.oracle, share=0.01)


# a process replaced in place while its update is in flight: the newcomer's events are its own (fix F51)
from harness import deadwriter as _dw                   # noqa: E402
_add_family(globals(), _dw, 'deadwriter', _dw.oracle, share=0.02)
