"""C06 — a port reads and writes the same store node, for every topology.

Correspondence: the REAL Engine (generate_state, topology views, inverse_topology, Store.apply_update)
vs `VivModel/Topology.lean` (`processStates`, `invertTopology`, `applyUpdate`) on the same hierarchy.
Oracle (independent of the model): write a unique delta through each port variable, diff the full
`get_value()` before/after; exactly one node may change, by that delta, and it must be the node whose
value the process read for that variable — before and after.  Then all variables at once: every node
changes by the sum of the deltas of the variables wired to it."""
import copy

from harness.val import enc, dec, exc_name, sort_enc
from harness import topo_common as T
from harness.topo_common import (leaf_schema, dict_schema, dict_topo, nest, rel_path, World,
                                 STORES, VARS, KIDS)

PROP = 'C06'
LEAN_TARGETS = ['VivProps.C06']
DRIVER = 'Topo'
REQUIRED_THEOREMS = ['read_write_same_node', 'inverse_single', 'apply_single', 'apply_single_frame',
                     'multi_two_applied_partial', 'multi_direct_and_glob_applied_partial', 'multi_n_applied']
ANCHORS = [
    ('vivarium/core/store.py', ['Store._topology_ports', 'Store.outer_path', 'Store._establish_path',
                                'Store._apply_config', 'Store.schema_topology', 'Store.get_path',
                                'Store.get_value', 'Store.apply_update', 'Store.build_topology_views',
                                'Store._apply_subschema', 'Store._apply_subschemas', 'Store.set_value',
                                'view_values', 'generate_state', 'Store.generate',
                                'Store._generate_paths']),
    ('vivarium/library/topology.py', ['inverse_topology', 'normalize_path', 'update_in', 'assoc_path']),
    ('vivarium/library/dict_utils.py', ['deep_merge', 'deep_merge_multi_update']),
    ('vivarium/core/engine.py', ['invert_topology', 'Engine._process_state', 'Engine.apply_update',
                                 'Engine._send_updates', '_process_update']),
]
BUDGET = {'quick': 600, 'thorough': 12000}
RULE = ('cases: a probe process at depth 0-3 with 1-4 ports over a designed hierarchy (stores A/B/C at '
        'any ancestor level, variables x/y/z/w); port forms: tuple path, `_path` dictionary with '
        'splits/renames, dictionary without `_path`, leaf port, nested ports, glob ports (tuple, '
        '`{"*": path}`, under `_path`, dict sub-topology with renames, top-level "*"), "**", _output; '
        'paths use ".." (sometimes climbing higher than needed); a second process declares extra '
        'variables / glob children; ~12% malformed (omitted port, ".." above the root, variable/store '
        'clash, undeclared port); direct ports on glob children, listed before or after the glob port. Every port variable is written once with '
        'a unique delta, then all together. Non-trivial: ≥ 2 variables written and the topology uses '
        '".." or a dictionary. Distinct by canonical JSON of the case.')
TRUSTED = ['CPython dict ordering (modelled)',
           'the hierarchy handed to the model is a snapshot of the real Store tree '
           '(leaf flag, value, has-subschema, inner) taken before each step']
ASSUMPTIONS = [
    'variables hold ints and use the default `accumulate` updater; updates carry no `_updater`/`_reduce`',
    'no process nodes on the routes of topology paths; no `_divider` ports; `_output` only ever True',
    'WellFormed (VivProps/C06.lean): every port of a dictionary level without `_path` appears in the '
    'topology; a glob "*" is the only port of its level; port names are not "..", "_path", '
    '"_multi_update" (CF-B in notes/C06.md: ports omitted from a level without `_path` are outside)',
]
CASE_TIMEOUT = 20.0


# ------------------------------------------------------------------ generator

def gen_case(rng, tier, force_malformed=None):
    w = World(rng)
    loc = w.loc
    n_ports = rng.choice([1, 2, 2, 3, 3, 4])
    ports, variables, outputs = [], [], []
    init = {}
    other_ports = []          # (schema, topo) of the second process (lives at the root)
    globs = 0

    def leaf(node):
        extra = {'_emit': True} if rng.random() < 0.1 else None
        return leaf_schema(w.default(node), extra)

    def set_init(node, value):
        d = init
        for k in node[:-1]:
            d = d.setdefault(k, {})
        d[node[-1]] = value

    for i in range(n_ports):
        name = f'p{i}'
        form = rng.choices(['tuple', 'pathdict', 'dict', 'leaf', 'glob', 'all', 'output'],
                           [26, 22, 16, 12, 16, 4, 4])[0]
        if form == 'glob' and globs >= 2:
            form = 'tuple'
        S = rng.choice(w.stores)
        vs = rng.sample(VARS, rng.choice([1, 1, 2, 2, 3]))
        if form in ('tuple', 'output'):
            entries = [[v, leaf(S + [v])] for v in vs]
            pv = [[name, v] for v in vs]
            if rng.random() < 0.3:
                nv = rng.choice(VARS)
                entries.append(['n1', dict_schema([[nv, leaf(S + ['n1', nv])]])])
                pv.append([name, 'n1', nv])
            rng.shuffle(entries)
            ports.append((name, dict_schema(entries, out=(form == 'output')), rel_path(rng, loc, S)))
            variables += pv
            if form == 'output':
                outputs.append(name)
        elif form == 'pathdict':
            entries, tes = [], [['_path', rel_path(rng, loc, S)]]
            for v in vs:
                r = rng.random()
                if r < 0.45:          # split / rename: the variable lives elsewhere
                    Tt = rng.choice(w.stores)
                    v2 = rng.choice(VARS)
                    entries.append([v, leaf(Tt + [v2])])
                    tes.append([v, rel_path(rng, S, Tt + [v2])])
                elif r < 0.65:        # explicit default
                    entries.append([v, leaf(S + [v])])
                    tes.append([v, [v]])
                else:                 # left to the default `(v,)`
                    entries.append([v, leaf(S + [v])])
                variables.append([name, v])
            if rng.random() < 0.3:    # a nested port with its own `_path`
                Tt = rng.choice(w.stores)
                nv = rng.choice(VARS)
                entries.append(['n2', dict_schema([[nv, leaf(Tt + [nv])]])])
                tes.append(['n2', dict_topo([['_path', rel_path(rng, S, Tt)]])])
                variables.append([name, 'n2', nv])
            if rng.random() < 0.5:
                head, tail = tes[0], tes[1:]
                rng.shuffle(tail)
                tes = tail + [head] if rng.random() < 0.3 else [head] + tail
            ports.append((name, dict_schema(entries), dict_topo(tes)))
        elif form == 'dict':
            entries, tes = [], []
            for v in vs:
                Tt = rng.choice(w.stores)
                v2 = rng.choice(VARS)
                entries.append([v, leaf(Tt + [v2])])
                tes.append([v, rel_path(rng, loc, Tt + [v2])])
                variables.append([name, v])
            if rng.random() < 0.35:
                Tt = rng.choice(w.stores)
                nv = rng.choice(VARS)
                entries.append(['n1', dict_schema([[nv, leaf(Tt + [nv])]])])
                tes.append(['n1', rel_path(rng, loc, Tt)])
                variables.append([name, 'n1', nv])
            ports.append((name, dict_schema(entries), dict_topo(tes)))
        elif form == 'leaf':
            v = vs[0]
            ports.append((name, leaf(S + [v]), rel_path(rng, loc, S + [v])))
            variables.append([name])
        elif form == 'all':
            ports.append((name, '**', rel_path(rng, loc, S)))
            # make sure the store exists and holds something
            other_ports.append((dict_schema([['u1', leaf_schema(w.default(S + ['u1']))]]), list(S)))
        else:  # glob
            globs += 1
            G = loc[:rng.randrange(0, len(loc) + 1)] + [['G', 'H'][globs - 1]]
            kids = rng.sample(KIDS, rng.choice([0, 1, 2, 2, 3]))
            sub_entries = [[v, leaf_schema(7)] for v in vs]
            sub = dict_schema(sub_entries)
            gform = rng.choice(['below', 'star', 'underpath', 'subtopo', 'subtopo'])
            if n_ports == 1 and rng.random() < 0.3:
                gform = 'top'
            rename = {}
            if gform == 'below':
                ports.append((name, dict_schema([['*', sub]]), rel_path(rng, loc, G)))
            elif gform == 'star':
                ports.append((name, dict_schema([['*', sub]]), dict_topo([['*', rel_path(rng, loc, G)]])))
            elif gform == 'underpath':
                X = rng.choice(w.stores)
                ports.append((name, dict_schema([['*', sub]]),
                              dict_topo([['_path', rel_path(rng, loc, X)], ['*', rel_path(rng, X, G)]])))
            elif gform == 'top':
                name = '*'
                ports.append(('*', sub, rel_path(rng, loc, G)))
            else:  # dictionary sub-topology, children renamed variables
                stes = [['_path', rel_path(rng, loc, G)]]
                for v in vs:
                    # every sub-port is listed: keys missing from a glob's dictionary
                    # sub-topology are read by default but their updates are dropped (CF-B)
                    if rng.random() < 0.6:
                        rename[v] = v + v
                    stes.append([v, [rename.get(v, v)]])
                ports.append((name, dict_schema([['*', sub]]), dict_topo([['*', dict_topo(stes)]])))
                # children must be declared by someone: the second process
                for k in kids:
                    other_ports.append((dict_schema([[rename.get(v, v), leaf_schema(7)] for v in vs]),
                                        G + [k]))
            for k in kids:
                for v in vs:
                    set_init(G + [k, rename.get(v, v)], w.default(G + [k, rename.get(v, v)]) + 5)
                    variables.append(([name, k, v] if gform != 'top' else [k, v]))
            if kids and gform != 'top' and rng.random() < 0.45:
                # a direct port on one of the glob's children (several variables → one node through
                # a glob; the former candidate finding CF-A, repaired by 9f366a6), listed before
                # or after the glob port
                k = rng.choice(kids)
                dname = f'd{i}'
                if rng.random() < 0.3:
                    v = rng.choice(vs)
                    dport = (dname, leaf_schema(7), rel_path(rng, loc, G + [k, rename.get(v, v)]))
                    dvars = [[dname]]
                else:
                    dvs = rng.sample(vs, rng.randrange(1, len(vs) + 1))
                    dport = (dname, dict_schema([[rename.get(v, v), leaf_schema(7)] for v in dvs]),
                             rel_path(rng, loc, G + [k]))
                    dvars = [[dname, rename.get(v, v)] for v in dvs]
                if rng.random() < 0.5:
                    ports.insert(len(ports) - 1, dport)
                else:
                    ports.append(dport)
                variables += dvars
    # unique initial values for most variable nodes (defaults for the rest)
    for node, m in list(w.marker.items()):
        if rng.random() < 0.7:
            set_init(list(node), m + rng.randrange(1, 9))
    # the second process: extra variables the probe did not declare
    for S in w.stores:
        if rng.random() < 0.5:
            other_ports.append((dict_schema([[u, leaf_schema(w.default(S + [u]))]
                                             for u in rng.sample(['u1', 'u2'], rng.choice([1, 2]))]),
                                list(S)))
    procs = [{'at': loc, 'name': 'probe',
              'schema': dict_schema([[n, s] for n, s, _ in ports]),
              'topo': dict_topo([[n, t] for n, _, t in ports])}]
    if other_ports:
        procs.append({'at': [], 'name': 'other',
                      'schema': dict_schema([[f'o{i}', s] for i, (s, _) in enumerate(other_ports)]),
                      'topo': dict_topo([[f'o{i}', t] for i, (_, t) in enumerate(other_ports)])})
    if len(variables) > 9:
        variables = rng.sample(variables, 9)
    case = {'kind': 'rw', 'procs': procs, 'probe': 0, 'init': enc(init), 'vars': variables,
            'outputs': outputs, 'malformed': None}
    m = force_malformed if force_malformed is not None else (
        rng.choice(['omit', 'above', 'clash', 'undeclared']) if rng.random() < 0.12 else None)
    if m:
        case = make_malformed(rng, case, m, w)
    return case


def make_malformed(rng, case, m, w):
    case = copy.deepcopy(case)
    probe = case['procs'][0]
    tes = probe['topo']['t']
    ses = probe['schema']['s']
    if m == 'omit' and tes:
        i = rng.randrange(len(tes))
        if tes[i][0] == '*':
            return case
        del tes[i]
    elif m == 'above':
        cands = [e for e in tes if isinstance(e[1], list)]
        if not cands:
            return case
        e = rng.choice(cands)
        e[1] = ['..'] * (len(probe['at']) + 1) + e[1]
    elif m == 'clash':
        S = rng.choice(w.stores)
        ses.append(['pc', leaf_schema(1)])
        tes.append(['pc', rel_path(rng, probe['at'], S)])
        ses.append(['pd', dict_schema([['x', leaf_schema(w.default(S + ['x']))]])])
        tes.append(['pd', rel_path(rng, probe['at'], S)])
    elif m == 'undeclared':
        tes.append(['nope', ['A']])
    else:
        return case
    case['malformed'] = m
    return case


def generate(rng, n, tier):
    return [gen_case(rng, tier) for _ in range(n)]


def _mk(ports, at=(), init=None, vars_=(), others=(), outputs=(), malformed=None):
    procs = [{'at': list(at), 'name': 'probe',
              'schema': dict_schema([[n, s] for n, s, _ in ports]),
              'topo': dict_topo([[n, t] for n, _, t in ports])}]
    if others:
        procs.append({'at': [], 'name': 'other',
                      'schema': dict_schema([[n, s] for n, s, _ in others]),
                      'topo': dict_topo([[n, t] for n, _, t in others])})
    return {'kind': 'rw', 'procs': procs, 'probe': 0, 'init': enc(init or {}),
            'vars': [list(v) for v in vars_], 'outputs': list(outputs), 'malformed': malformed}


def corpus():
    L = leaf_schema
    return [
        # F5 (pre-fix witness): two leaf ports on one variable, updates 1 and 2 → both applied
        _mk([('a', L(0), ['S', 'x']), ('b', L(0), ['S', 'x'])], vars_=[['a'], ['b']]),
        # F5 variant: leaf port + dictionary port on the same variable, process at depth 2
        _mk([('a', L(5), ['..', 'S', 'x']), ('b', dict_schema([['x', L(5)]]), ['..', 'S'])],
            at=['c1', 'c2'], vars_=[['a'], ['b', 'x']], init={'c1': {'S': {'x': 40}}}),
        # three ports, one node (dict port, renamed `_path` entry, leaf port)
        _mk([('a', dict_schema([['x', L(1)]]), ['S']),
             ('b', dict_schema([['q', L(1)]]), dict_topo([['_path', ['T']], ['q', ['..', 'S', 'x']]])),
             ('c', L(1), ['T', '..', 'S', 'x'])],
            vars_=[['a', 'x'], ['b', 'q'], ['c']]),
        # `..` through the parents and back down
        _mk([('a', dict_schema([['x', L(1)], ['y', L(2)]]), ['..', '..', 'c1', 'A'])],
            at=['c1', 'c2'], vars_=[['a', 'x'], ['a', 'y']], init={'c1': {'A': {'x': 10, 'y': 20}}}),
        # glob port, children from the initial state, written per child
        _mk([('g', dict_schema([['*', dict_schema([['x', L(7)]])]]), dict_topo([['*', ['G']]]))],
            vars_=[['g', 'k1', 'x'], ['g', 'k2', 'x']], init={'G': {'k1': {'x': 1}, 'k2': {'x': 2}}}),
        # glob with a dictionary sub-topology (rename inside every child), children declared elsewhere
        _mk([('g', dict_schema([['*', dict_schema([['x', L(7)]])]]),
              dict_topo([['*', dict_topo([['_path', ['..', 'G']], ['x', ['xx']]])]]))],
            at=['c1'], vars_=[['g', 'k1', 'x']],
            others=[('o0', dict_schema([['xx', L(7)]]), ['G', 'k1'])], init={'G': {'k1': {'xx': 3}}}),
        # CF-A (pre-fix witness of 9f366a6): direct port listed BEFORE a path-wired glob port on the same
        # child variable: updates 1 and 2 (then 4 and 8 together) must all arrive; and the other order
        _mk([('a', dict_schema([['x', L(0)]]), ['S', 'c1']),
             ('g', dict_schema([['*', dict_schema([['x', L(0)]])]]), dict_topo([['*', ['S']]]))],
            vars_=[['a', 'x'], ['g', 'c1', 'x']], init={'S': {'c1': {'x': 0}}}),
        _mk([('g', dict_schema([['*', dict_schema([['x', L(0)]])]]), dict_topo([['*', ['S']]])),
             ('a', dict_schema([['x', L(0)]]), ['S', 'c1'])],
            vars_=[['a', 'x'], ['g', 'c1', 'x']], init={'S': {'c1': {'x': 0}}}),
        # same through a leaf port and a glob wired below a tuple path, process at depth 1
        _mk([('a', L(0), ['..', 'S', 'c1', 'x']),
             ('g', dict_schema([['*', dict_schema([['x', L(0)]])]]), ['..', 'S'])],
            at=['c1'], vars_=[['a'], ['g', 'c1', 'x']], init={'S': {'c1': {'x': 5}}}),
        # CF-B (candidate finding, outside WellFormed): port omitted from the topology
        _mk([('a', dict_schema([['x', L(1)]]), ['A'])], vars_=[['a', 'x']], malformed='omit-demo'),
    ]


# ------------------------------------------------------------------ implementation side

def _is_output(case, v):
    return v[0] in case.get('outputs', [])


def _script(case):
    vs = case['vars']
    n = len(vs)
    singles = [nest(v, 2 ** i) for i, v in enumerate(vs)]
    combined = {}
    for i, v in enumerate(vs):
        T.deep_merge_plain(combined, nest(v, 2 ** (n + i)))
    return singles + ([combined] if n else []) + [{}]


def run_impl(case):
    if case.get('malformed') == 'omit-demo':
        case = copy.deepcopy(case)
        case['procs'][0]['topo'] = dict_topo([])
    script = _script(case)
    try:
        eng, objs = T.build_engine(case, {0: script})
    except Exception as e:  # noqa
        return {'init_err': exc_name(e), 'msg': str(e)[:200], 'fails': [] if case['malformed'] else
                [f'valid-case-rejected: {type(e).__name__}: {str(e)[:200]}']}
    probe = objs[0]
    steps = []
    for i, u in enumerate(script):
        tree = T.snapshot(eng.state)
        before = T.canon(eng.state.get_value())
        nseen = len(probe.seen)
        try:
            eng.update(1)
        except Exception as e:  # noqa
            steps.append({'tree': tree, 'update': enc(u), 'err': exc_name(e), 'msg': str(e)[:200]})
            break
        after = T.canon(eng.state.get_value())
        st = [r for r in probe.seen[nseen:] if r['kind'] == 'next_update']
        steps.append({'tree': tree, 'update': enc(u), 'states': st[0]['states'] if st else None,
                      'before': enc(before), 'after': enc(after)})
    obs = {'steps': steps}
    obs['fails'] = [] if case['malformed'] else _oracle(case, steps)
    return obs


def _oracle(case, steps):
    fails = []
    vs = case['vars']
    n = len(vs)
    if any('err' in s for s in steps):
        s = [s for s in steps if 'err' in s][0]
        return [f"engine-raised: {s['err']}: {s.get('msg')}"]
    node_of = {}
    for i, v in enumerate(vs):
        s = steps[i]
        b, a = T.flatten(dec(s['before'])), T.flatten(dec(s['after']))
        changed = sorted(p for p in set(b) | set(a) if b.get(p, T._MISSING) != a.get(p, T._MISSING))
        tag = '/'.join(v)
        if not changed:
            fails.append(f'update-lost: writing +{2 ** i} through {tag} changed nothing')
            continue
        if len(changed) > 1:
            fails.append(f'other-node-changed: writing through {tag} changed {changed}')
            continue
        p = changed[0]
        node_of[i] = p
        if not (isinstance(a.get(p), int) and isinstance(b.get(p), int) and a[p] - b[p] == 2 ** i):
            fails.append(f'wrong-amount: {tag} +{2 ** i} took {p} from {b.get(p)} to {a.get(p)}')
        if _is_output(case, v):
            continue
        read = T.get_in(dec(s['states']), v)
        if read is T._MISSING or read != b[p]:
            fails.append(f'read-write-differ: {tag} read {read!r} but its update changed {p} '
                         f'which held {b[p]!r}')
        nxt = T.get_in(dec(steps[i + 1]['states']), v)
        if nxt is T._MISSING or nxt != a[p]:
            fails.append(f'read-after-write: {tag} reads {nxt!r} after its update took {p} to {a[p]!r}')
    if n and not fails:
        s = steps[n]
        b, a = T.flatten(dec(s['before'])), T.flatten(dec(s['after']))
        want = {}
        for i in range(n):
            want[node_of[i]] = want.get(node_of[i], 0) + 2 ** (n + i)
        for p in sorted(set(b) | set(a)):
            bv, av = b.get(p, T._MISSING), a.get(p, T._MISSING)
            if p in want:
                if not (isinstance(av, int) and isinstance(bv, int) and av - bv == want[p]):
                    fails.append(f'multi: node {p} shared by {[vs[i] for i in range(n) if node_of[i] == p]} '
                                 f'went {bv!r} → {av!r}, expected +{want[p]}')
            elif bv != av:
                fails.append(f'multi-frame: node {p} changed {bv!r} → {av!r} though no variable is wired to it')
    return fails


# ------------------------------------------------------------------ model side

def model_requests(case):
    return []


def model_requests_impl(case, impl):
    if not isinstance(impl, dict) or 'steps' not in impl:
        return []
    p = case['procs'][case['probe']]
    topo = p['topo']
    if case.get('malformed') == 'omit-demo':
        topo = dict_topo([])
    reqs = []
    for s in impl['steps']:
        reqs.append({'op': 'states', 't': s['tree'], 'outer': p['at'], 'schema': p['schema'], 'topo': topo})
        reqs.append({'op': 'write', 't': s['tree'], 'outer': p['at'], 'topo': topo, 'update': s['update']})
    return reqs


def model_obs(case, ans):
    return {'steps': [{'states': ans[i], 'after': ans[i + 1]} for i in range(0, len(ans), 2)]}


def compare(case, impl, model):
    if not isinstance(impl, dict) or ('steps' not in impl and 'init_err' not in impl):
        return f'implementation probe failed: {_short(impl)}'
    if 'init_err' in impl:
        return None
    diffs = []
    for i, (si, sm) in enumerate(zip(impl['steps'], model['steps'])):
        if 'err' in si:
            if 'err' not in sm['after']:
                diffs.append(f'step {i}: impl raised {si["err"]} ({si.get("msg")}), model after={_short(sm["after"])}')
            continue
        want_states = {'ok': si['states']}
        if sort_enc(sm['states']) != sort_enc(want_states):
            diffs.append(f'step {i} states: impl={_short(si["states"])} model={_short(sm["states"])}')
        if sort_enc(sm['after']) != sort_enc({'ok': si['after']}):
            diffs.append(f'step {i} after-write: impl={_short(si["after"])} model={_short(sm["after"])}')
    return '; '.join(diffs[:3]) if diffs else None


def _short(x):
    import json
    s = json.dumps(x, default=str)
    return s if len(s) < 400 else s[:400] + '…'


def oracle(case, impl):
    if not isinstance(impl, dict) or 'fails' not in impl:
        return [f'probe-crashed: {_short(impl)}']
    return impl['fails']


def nontrivial(case, impl):
    if case['malformed'] or not isinstance(impl, dict) or 'steps' not in impl:
        return False
    txt = _short(case['procs'][0]['topo'])
    return len(case['vars']) >= 2 and ('..' in txt or '_path' in txt or '"*"' in txt)


def classify(case, failure):
    return None


def stats(results):
    from collections import Counter
    c = Counter()
    for r in results:
        case, impl = r['case'], r['impl']
        c['malformed:' + str(case['malformed'])] += 1
        c['depth:%d' % len(case['procs'][0]['at'])] += 1
        c['vars'] += len(case['vars'])
        txt = _short(case['procs'][0]['topo'])
        for tag, key in (('dotdot', '".."'), ('_path', '_path'), ('glob', '"*"')):
            if key in txt:
                c['uses:' + tag] += 1
        if isinstance(impl, dict) and 'init_err' in impl:
            c['init_err:' + impl['init_err']] += 1
        if isinstance(impl, dict) and 'steps' in impl and not case['malformed']:
            # several variables → one node
            n = len(case['vars'])
            nodes = []
            for i in range(min(n, len(impl['steps']))):
                s = impl['steps'][i]
                if 'before' in s:
                    b, a = T.flatten(dec(s['before'])), T.flatten(dec(s['after']))
                    nodes += [p for p in b if a.get(p) != b[p]][:1]
            if len(set(nodes)) < len(nodes):
                c['cases_with_shared_node'] += 1
    return dict(c)


def shrink(case):
    # drop a written variable; drop the second process's ports; drop a probe port
    for i in range(len(case['vars'])):
        c = copy.deepcopy(case)
        del c['vars'][i]
        yield c
    p = case['procs'][0]
    for i in range(len(p['schema']['s'])):
        c = copy.deepcopy(case)
        name = c['procs'][0]['schema']['s'][i][0]
        del c['procs'][0]['schema']['s'][i]
        c['procs'][0]['topo']['t'] = [e for e in c['procs'][0]['topo']['t'] if e[0] != name]
        c['vars'] = [v for v in c['vars'] if v[0] != name]
        yield c
    if len(case['procs']) > 1:
        c = copy.deepcopy(case)
        del c['procs'][1]
        yield c


LEVEL_TEXT = ('Lean 4 theorems over all trees, schemas, topologies, process positions and declared port variables '
              '(unbounded): if the view built by WALKING the tree shows node a for variable v, the update '
              'inverted LEXICALLY for v alone is exactly the single-path update to a; applying it leaves '
              'f(old, u) in a and every node at a diverging path untouched; the value read for v is the value '
              'of a. Any number n >= 2 of leaf ports wired by tuple paths to one variable: all n values are '
              'carried in `_multi_update`, in topology order, and applied as a fold (`multi_n_applied`, by '
              'induction over the ports). Tied to store.py/topology.py/engine.py by a differential check against the '
              'real Engine plus a model-independent read/write oracle.')
LEVEL_NOTE = ('Trusted: Lean kernel; axioms ⊆ {propext, Classical.choice, Quot.sound}; hand-written model '
              'validated differentially on snapshots of the real Store tree (the declaration of nodes by '
              '`_topology_ports` is exercised through the real engine, not modelled). `multi_two_applied_partial` '
              '(two leaf ports) and `multi_direct_and_glob_applied_partial` (direct port + path-wired glob port on '
              'one child variable, both listing orders — the shape repaired by 9f366a6) are proved, and '
              '`multi_n_applied` proves the n-variable statement for leaf ports with tuple paths; n variables '
              'meeting through the other port forms (dictionary / `_path` / glob ports) are checked by the oracle '
              '(up to 9 variables) and the correspondence, not proved. Outside WellFormed (noted edge CF-B, notes/C06.md): ports omitted '
              'from a topology level without `_path` (read by default, updates dropped).')
TECHNIQUE = 'Lean 4 proof (induction over declared variables; walking = lexical bridge from C17) + differential model/code check'


# reading and writing the same node while other processes / earlier step layers delete or re-create it
from harness import samenode as _sn                     # noqa: E402
from harness.mixins import add_family as _add_family    # noqa: E402
_add_family(globals(), _sn, 'samenode', _sn.oracle, share=0.06)

# several ports on one node, the update object reused by the process from call to call (F35)
from harness import reuseupd as _ru                     # noqa: E402
_add_family(globals(), _ru, 'reuseupd', _ru.oracle, share=0.05)

# glob children that come with Engine(store=, initial_state=), and glob children sharing their default object
from harness import storeinit as _si                    # noqa: E402
_add_family(globals(), _si, 'storeinit', _si.oracle, share=0.04)


# several ports on one node, falsy updates among them
from harness import falsymulti as _fm                   # noqa: E402
_add_family(globals(), _fm, 'falsymulti', _fm.oracle, share=0.04)


# an update that names its own updater, among the ordinary updates of another port on the same node
from harness import onceset as _os                      # noqa: E402
_add_family(globals(), _os, 'onceset', _os.oracle, share=0.03)


# updates through a glob port wired with a dictionary topology, tick after tick
from harness import globdict as _gd                     # noqa: E402
_add_family(globals(), _gd, 'globdict', _gd.oracle, share=0.02)
