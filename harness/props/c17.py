"""C17 — hierarchy paths obey a consistent path algebra.

Correspondence: dictionary-path helpers and real `Store` navigation vs `VivModel/Path.lean`.
Oracle: the property's laws evaluated directly on the implementation (node identity via `is`)."""
import copy
import itertools

from harness.val import enc, dec, exc_name

PROP = 'C17'
LEAN_TARGETS = ['VivProps.C17']
DRIVER = 'Path'
REQUIRED_THEOREMS = [
    'normalize_idempotent', 'walk_eq_lexical', 'path_to_reaches', 'path_for_reaches',
    'getIn_assocPath', 'updateIn_frame', 'assocPath_frame', 'getIn_deleteIn', 'deleteIn_frame',
    'assocIn_eq_assocPath', 'startsWith_iff', 'getIn_updateIn', 'walk_converse_fails',
    'pathsToDict_dictToPaths', 'hierarchyDepth_eq_dictToPaths', 'pathsToDict_hierarchyDepth',
    'getIn_of_mem_dictToPaths', 'normalize_append_normalize', 'normalize_append_clean',
    'normalize_right_leg_fails', 'dictToPaths_pathsToDict_single_partial',
    'dictToPaths_pathsToDict_dict_value_witness', 'dictToPaths_pathsToDict_distinct_heads_partial',
    'dictToPaths_pathsToDict_shared_head_regroups', 'dictToPaths_pathsToDict_perm',
    'dictToPaths_pathsToDict_prefix_witness', 'hierarchyDepth_pathsToDict_perm',
    'updateIn_applies_f_to_getIn',
]
ANCHORS = [
    ('vivarium/core/store.py', ['Store.add_node']),
    ('vivarium/library/topology.py', ['get_in', 'delete_in', 'assoc_path', 'update_in',
                                      'paths_to_dict', 'dict_to_paths', 'normalize_path']),
    ('vivarium/library/dict_utils.py', ['deep_merge']),
    ('vivarium/core/store.py', ['hierarchy_depth', 'key_for_value', 'Store.get_path',
                                'Store.path_for', 'Store.path_to', 'Store.top',
                                'Store._establish_path']),
    ('vivarium/core/process.py', ['assoc_in']),
    ('vivarium/core/engine.py', ['starts_with']),
]
BUDGET = {'quick': 1500, 'thorough': 60000}
RULE = ('cases: (tree, path, value) for the dictionary helpers and (store tree, start node, '
        'relative path with ".." anywhere, second node) for Store navigation; trees of depth '
        '≤ 4 over keys a,b,c; thorough adds every tree-shape/path pair of a small exhaustive '
        'family. Non-trivial: the path has ≥ 2 elements and the operation touched an existing '
        'node or used "..". Distinct by canonical JSON of the case.')
TRUSTED = ['CPython dict ordering and `copy.copy` (modelled, not verified)']
ASSUMPTIONS = [
    'leaf strings never contain a key as substring, lists hold no strings (so `k in leaf` is '
    'False or TypeError exactly as modelled)',
    'no Process nodes on the navigated route (topology redirection in get_path is out of scope)',
]
CASE_TIMEOUT = 5.0

KEYS = ['a', 'b', 'c']


# ------------------------------------------------------------------ generators

def gen_tree(rng, depth, store_like=False, p_empty=0.12):
    n = rng.choice([0, 1, 1, 2, 2, 3]) if depth > 0 else 0
    if n == 0 and not store_like and rng.random() > p_empty:
        n = 1
    d = {}
    for k in rng.sample(KEYS, n):
        if depth > 1 and rng.random() < 0.6:
            d[k] = gen_tree(rng, depth - 1, store_like, p_empty)
        elif store_like:
            d[k] = {}
        else:
            d[k] = gen_leaf(rng)
    return d


def gen_leaf(rng):
    r = rng.random()
    if r < 0.5:
        return rng.randrange(-5, 100)
    if r < 0.6:
        return None
    if r < 0.7:
        return rng.random() < 0.5
    if r < 0.8:
        return [rng.randrange(10) for _ in range(rng.randrange(3))]
    if r < 0.9:
        return rng.choice(['X', 'YY', 'Z'])
    return {}


def gen_path(rng, maxlen, dots=0.0, tree=None):
    n = rng.randrange(0, maxlen + 1)
    p = []
    node = tree
    for _ in range(n):
        if rng.random() < dots:
            p.append('..')
            node = None
            continue
        # mostly follow existing keys so that paths hit real nodes
        if isinstance(node, dict) and node and rng.random() < 0.75:
            k = rng.choice(list(node))
            node = node[k]
        else:
            k = rng.choice(KEYS + ['z'])
            node = node.get(k) if isinstance(node, dict) else None
        p.append(k)
    return p


def all_paths(tree, prefix=()):
    out = [list(prefix)]
    if isinstance(tree, dict):
        for k, v in tree.items():
            out.extend(all_paths(v, prefix + (k,)))
    return out


def generate(rng, n, tier):
    cases = []
    for i in range(n):
        r = rng.random()
        if r < 0.45:
            t = gen_tree(rng, rng.choice([1, 2, 3, 4]))
            p = gen_path(rng, 5, dots=0.05, tree=t)
            q = gen_path(rng, 4, dots=0.0, tree=t)
            v = gen_leaf(rng) if rng.random() < 0.7 else gen_tree(rng, 2)
            cases.append({'kind': 'dict', 'd': enc(t), 'p': p, 'q': q, 'v': enc(v)})
        elif r < 0.55:
            cases.append({'kind': 'norm', 'p': gen_path(rng, 8, dots=0.4),
                          'a': gen_path(rng, 4), 's': gen_path(rng, 3)})
        else:
            t = gen_tree(rng, rng.choice([2, 3, 4]), store_like=True)
            case = {'kind': 'store'}
            if rng.random() < 0.3:
                # graft a fresh node with Store.add_node at a relative path of 1–3 segments
                import copy
                t0 = copy.deepcopy(t)
                at = rng.choice(all_paths(t))
                g = [rng.choice(KEYS + ['w']) for _ in range(rng.randrange(0, 3))] + ['new']
                node = t
                for k in at:
                    node = node[k]
                for k in g:
                    node = node.setdefault(k, {})
                case.update({'t0': enc(t0), 'graft': {'at': at, 'path': g}})
            nodes = all_paths(t)
            a = rng.choice(nodes)
            b = rng.choice(nodes)
            if 'graft' in case and rng.random() < 0.6:
                b = case['graft']['at'] + case['graft']['path']
                if rng.random() < 0.5:
                    a, b = b, a
            rel = gen_rel(rng, t, a)
            case.update({'t': enc(t), 'a': a, 'b': b, 'rel': rel})
            cases.append(case)
    if tier == 'thorough':
        cases.extend(exhaustive_family())
    return cases


def gen_rel(rng, t, a):
    """relative path from node a, biased to stay valid: '..' while not at root, existing keys"""
    pos = list(a)
    rel = []
    for _ in range(rng.randrange(0, 7)):
        r = rng.random()
        if r < 0.35:
            rel.append('..')
            if pos:
                pos.pop()
        else:
            node = t
            ok = True
            for k in pos:
                if isinstance(node, dict) and k in node:
                    node = node[k]
                else:
                    ok = False
                    break
            if ok and isinstance(node, dict) and node and rng.random() < 0.85:
                k = rng.choice(list(node))
            else:
                k = rng.choice(KEYS + ['z'])
            rel.append(k)
            pos.append(k)
    return rel


def exhaustive_family():
    """all relative paths of length ≤ 4 over {a, b, ..} from every node of three fixed trees"""
    out = []
    trees = [
        {'a': {'b': {}, 'a': {'a': {}}}, 'b': {}},
        {'a': {}, 'b': {'a': {'b': {}}}},
        {},
    ]
    alpha = ['a', 'b', '..']
    for t in trees:
        nodes = all_paths(t)
        for a in nodes:
            for n in range(0, 5):
                for rel in itertools.product(alpha, repeat=n):
                    out.append({'kind': 'store', 't': enc(t), 'a': a, 'b': nodes[-1],
                                'rel': list(rel)})
    return out


def corpus():
    return [
        {'kind': 'dict', 'd': enc({'a': {'b': 1}}), 'p': ['a', 'c', 'd'], 'q': ['a', 'b'], 'v': enc(2)},
        {'kind': 'dict', 'd': enc({'a': 3}), 'p': ['a', 'b'], 'q': [], 'v': enc(2)},
        {'kind': 'dict', 'd': enc({'a': {'b': 1}}), 'p': [], 'q': ['a'], 'v': enc({'a': {'c': 2}})},
        {'kind': 'norm', 'p': ['..', '..', 'a', '..', '..'], 'a': ['a', 'b'], 's': ['a']},
        {'kind': 'store', 't': enc({'a': {'b': {}}, 'c': {}}), 'a': ['a', 'b'], 'b': ['c'],
         'rel': ['..', '..', 'c']},
        {'kind': 'store', 't': enc({'a': {}}), 'a': ['a'], 'b': [], 'rel': ['zz', '..']},
        {'kind': 'store', 't': enc({'a': {}}), 'a': [], 'b': ['a'], 'rel': ['..']},
        {'kind': 'store', 't0': enc({'a': {'b': {}}, 'c': {}}), 'graft': {'at': ['a'], 'path': ['b', 'w', 'new']},
         't': enc({'a': {'b': {'w': {'new': {}}}}, 'c': {}}), 'a': ['a', 'b', 'w', 'new'], 'b': ['c'],
         'rel': ['..', '..', '..', '..', 'c']},
    ]


# ------------------------------------------------------------------ implementation side

def _try(f):
    try:
        return {'ok': f()}
    except Exception as e:  # noqa
        return {'err': exc_name(e)}


def _opt(v_enc_or_missing):
    return v_enc_or_missing


class _Missing:
    pass


def run_impl(case):
    from vivarium.library import topology as T
    from vivarium.core import store as S
    from vivarium.core.process import assoc_in
    from vivarium.core.engine import starts_with
    kind = case['kind']
    fails = []
    if kind == 'norm':
        p = tuple(case['p'])
        n1 = T.normalize_path(p)
        obs = {'normalize': list(n1),
               'startsWith': starts_with(tuple(case['a']), tuple(case['s']))}
        if T.normalize_path(n1) != n1:
            fails.append(f'normalize-not-idempotent: {p}')
        for i in range(len(p) + 1):
            # C17.normalize_append_normalize on the implementation: two legs = the whole route
            if T.normalize_path(tuple(T.normalize_path(p[:i])) + p[i:]) != n1:
                fails.append(f'normalize-not-compositional: {p} split at {i}')
                break
        a, s = tuple(case['a']), tuple(case['s'])
        if starts_with(a, s) != (a[:len(s)] == s):
            fails.append(f'starts_with-not-prefix: {a} {s}')
        return {'obs': obs, 'fails': fails}
    if kind == 'dict':
        d0 = dec(case['d'])
        p = tuple(case['p'])
        q = tuple(case['q'])
        v = dec(case['v'])
        missing = _Missing()
        obs = {}

        def g():
            r = T.get_in(copy.deepcopy(d0), p, missing)
            return {'none': None} if r is missing else {'some': enc(r)}
        obs['getIn'] = _try(g)
        obs['deleteIn'] = _try(lambda: enc(_mut(T.delete_in, copy.deepcopy(d0), p)))
        obs['assocPath'] = _try(lambda: enc(T.assoc_path(copy.deepcopy(d0), p, copy.deepcopy(v))))
        obs['assocIn'] = _try(lambda: enc(assoc_in(copy.deepcopy(d0), p, copy.deepcopy(v))))
        obs['updateInConst'] = _try(lambda: enc(
            T.update_in(copy.deepcopy(d0), p, lambda cur: copy.deepcopy(v))))
        obs['dictToPaths'] = [[list(pp), enc(vv)] for pp, vv in T.dict_to_paths(tuple(q), copy.deepcopy(d0))]
        obs['hierarchyDepth'] = [[list(pp), enc(vv)] for pp, vv in
                                 S.hierarchy_depth(copy.deepcopy(d0), tuple(q)).items()]
        pl = T.dict_to_paths((), copy.deepcopy(d0))
        obs['pathsToDict'] = _try(lambda: enc(T.paths_to_dict(copy.deepcopy(pl))))

        # ---- oracle: the laws of the property, on the implementation alone
        if p:
            try:
                d1 = T.assoc_path(copy.deepcopy(d0), p, copy.deepcopy(v))
            except Exception:
                d1 = None
            if d1 is not None:
                if T.get_in(d1, p, missing) != v or T.get_in(d1, p, missing) is missing:
                    fails.append('get_in-after-assoc_path: reads something else')
                _frame(T, d0, d1, p, fails, 'assoc_path')
            try:
                d2 = _mut(T.delete_in, copy.deepcopy(d0), p)
            except Exception:
                d2 = None
            if d2 is not None:
                try:
                    if T.get_in(d2, p, missing) is not missing:
                        fails.append('delete_in: entry still readable')
                except Exception:
                    pass
                _frame(T, d0, d2, p, fails, 'delete_in')
            base = copy.deepcopy(d0)
            try:
                d3 = T.update_in(base, p, lambda cur: 'NEW')
            except Exception:
                d3 = None
            if d3 is not None:
                if T.get_in(d3, p, missing) != 'NEW':
                    fails.append('update_in: addressed entry not updated')
                _frame(T, d0, d3, p, fails, 'update_in')
                # … and `f` is applied to what `get_in` reads there (`{}` for an entry that does not exist yet):
                # C17.updateIn_applies_f_to_getIn on the implementation, with an `f` that looks at its argument
                seen = []
                try:
                    T.update_in(copy.deepcopy(d0), p, lambda cur: (seen.append(copy.deepcopy(cur)), 'NEW')[1])
                    cur0 = T.get_in(copy.deepcopy(d0), p, missing)
                except Exception:
                    seen = []
                if seen:
                    want = {} if cur0 is missing else cur0
                    if seen[0] != want or type(seen[0]) is not type(want):
                        fails.append(f'update_in: f was handed {seen[0]!r} where get_in reads {want!r}')
                # it *returns* the updated dictionary: the one handed in is as before, so that a second
                # alternative derived from the same base differs from it in its own subtree only
                if base != d0:
                    fails.append('update_in: the dictionary handed in was modified (the result is not a new '
                                 'dictionary differing in the addressed subtree only)')
        if _no_empty_dict(d0) and d0:
            pl = T.dict_to_paths((), copy.deepcopy(d0))
            back = T.paths_to_dict(pl)
            if back != d0:
                fails.append('paths_to_dict(dict_to_paths(d)) != d')
            hd = S.hierarchy_depth(copy.deepcopy(d0))
            if hd != dict(pl) or list(hd.keys()) != [pp for pp, _ in pl]:
                fails.append('hierarchy_depth disagrees with dict_to_paths')
            # the converse (C17.dictToPaths_pathsToDict_perm) on the implementation: the enumeration of a
            # dictionary without empty sub-dictionaries is a prefix-free list of non-dictionary leaves; given
            # in any other order it is still rebuilt into a dictionary with exactly those leaves
            for shuffled in (list(reversed(pl)), pl[1::2] + pl[0::2]):
                try:
                    pl2 = T.dict_to_paths((), T.paths_to_dict(copy.deepcopy(shuffled)))
                except Exception as e:
                    fails.append(f'paths_to_dict/dict_to_paths raised {exc_name(e)} on a reordered prefix-free list')
                    break
                if sorted(map(repr, pl2)) != sorted(map(repr, pl)):
                    fails.append('dict_to_paths(paths_to_dict(pl)) is not a permutation of the reordered '
                                 'prefix-free list pl')
                    break
            # the same tree built from another dictionary type has the same leaves (every helper descends into
            # anything that is a dict)
            import collections

            def od(x):
                return collections.OrderedDict((k, od(v)) for k, v in x.items()) if isinstance(x, dict) else x
            d_od = od(d0)
            try:
                hd2, pl2 = S.hierarchy_depth(d_od), T.dict_to_paths((), d_od)
                if list(hd2.keys()) != list(hd.keys()) or [pp for pp, _ in pl2] != [pp for pp, _ in pl] \
                        or any(isinstance(v, dict) for v in hd2.values()):
                    fails.append('dict-subclass: hierarchy_depth / dict_to_paths enumerate other leaves for the same '
                                 'tree built from OrderedDicts')
                for pp, vv in pl:
                    if T.get_in(d_od, pp, missing) != vv:
                        fails.append('dict-subclass: get_in reads something else in the OrderedDict tree')
                        break
            except Exception as e:
                fails.append(f'dict-subclass: raised {exc_name(e)} on the tree built from OrderedDicts')
        return {'obs': obs, 'fails': fails}
    if kind == 'store':
        t = dec(case['t'])
        if 'graft' in case:
            root = _build_store(S, dec(case['t0']))
            root.get_path(tuple(case['graft']['at'])).add_node(tuple(case['graft']['path']), S.Store({}))
        else:
            root = _build_store(S, t)
        a = tuple(case['a'])
        b = tuple(case['b'])
        rel = tuple(case['rel'])
        A = root.get_path(a)
        B = root.get_path(b)
        obs = {}
        try:
            R = A.get_path(rel)
            obs['walk'] = {'some': list(R.path_for())}
        except Exception as e:
            R = None
            obs['walk'] = {'none': None}
        obs['pathTo'] = list(A.path_to(B))
        obs['pathFor'] = list(A.path_for())

        def est():
            root2 = _build_store(S, t)     # (the shape after the graft; node links are rebuilt)
            node = root2.get_path(a)._establish_path(rel, {})
            return [enc(_shape(root2)), list(node.path_for())]
        obs['establish'] = _try(est)
        # ---- oracle
        if R is not None:
            lex = T.normalize_path(a + rel)
            try:
                L = root.get_path(lex)
            except Exception:
                L = None
            if L is not R:
                fails.append(f'walk-vs-lexical: walking {rel} from {a} reached '
                             f'{R.path_for()}, lexical normal form {lex} reaches '
                             f'{None if L is None else L.path_for()}')
        try:
            if A.get_path(A.path_to(B)) is not B:
                fails.append(f'path_to: following {A.path_to(B)} from {a} does not reach {b}')
        except Exception as e:
            fails.append(f'path_to: following {A.path_to(B)} from {a} raised {exc_name(e)}')
        try:
            if root.get_path(A.path_for()) is not A or A.path_for() != a:
                fails.append(f'path_for: {A.path_for()} does not lead back to node {a}')
        except Exception as e:
            fails.append(f'path_for: raised {exc_name(e)}')
        if 'ok' in obs['establish']:
            shape, reached = obs['establish']['ok']
            lex = list(T.normalize_path(a + rel))
            if reached != lex:
                fails.append(f'_establish_path: reached {reached}, lexical {lex}')
        return {'obs': obs, 'fails': fails}
    raise ValueError(kind)


def _mut(f, d, p):
    f(d, p)
    return d


def _no_empty_dict(d):
    if isinstance(d, dict):
        return bool(d) and all(_no_empty_dict(v) for v in d.values())
    return True


def _diverging_paths(d, p, prefix=()):
    """all paths of d (to any node) that diverge from p"""
    out = []
    if isinstance(d, dict):
        for k, v in d.items():
            path = prefix + (k,)
            i = len(path) - 1
            if i < len(p) and p[i] == k:
                out.extend(_diverging_paths(v, p, path))
            elif i < len(p):
                out.append(path)
    return out


def _frame(T, d0, d1, p, fails, name):
    for qq in _diverging_paths(d0, p):
        try:
            before = T.get_in(d0, qq)
            after = T.get_in(d1, qq)
        except Exception:
            continue
        if before != after:
            fails.append(f'{name}-frame: entry {qq} changed while writing {p}')
            return
    # nothing outside p may appear either
    for qq in _diverging_paths(d1, p):
        try:
            if T.get_in(d0, qq, _Missing) is _Missing:
                fails.append(f'{name}-frame: entry {qq} appeared while writing {p}')
                return
        except Exception:
            continue


def _build_store(S, t):
    root = S.Store({})

    def rec(node, sub):
        for k, v in sub.items():
            child = node._establish_path((k,), {})
            if isinstance(v, dict):
                rec(child, v)
    rec(root, t)
    return root


def _shape(store):
    return {k: _shape(v) for k, v in store.inner.items()}


# ------------------------------------------------------------------ model side

def model_requests(case):
    k = case['kind']
    if k == 'norm':
        return [{'op': 'normalize', 'p': case['p']},
                {'op': 'startsWith', 'a': case['a'], 's': case['s']}]
    if k == 'dict':
        d, p, q, v = case['d'], case['p'], case['q'], case['v']
        return [
            {'op': 'getIn', 'd': d, 'p': p},
            {'op': 'deleteIn', 'd': d, 'p': p},
            {'op': 'assocPath', 'd': d, 'p': p, 'v': v},
            {'op': 'assocIn', 'd': d, 'p': p, 'v': v},
            {'op': 'updateInConst', 'd': d, 'p': p, 'v': v},
            {'op': 'dictToPaths', 'root': q, 'd': d},
            {'op': 'hierarchyDepth', 'root': q, 'd': d},
            {'op': 'pathsRoundTrip', 'd': d},
        ]
    if k == 'store':
        return [
            {'op': 'walk', 't': case['t'], 'pos': case['a'], 'rel': case['rel']},
            {'op': 'pathTo', 'a': case['a'], 'b': case['b']},
            {'op': 'establish', 't': case['t'], 'pos': case['a'], 'rel': case['rel']},
        ]
    raise ValueError(k)


def model_obs(case, ans):
    k = case['kind']
    if k == 'norm':
        return {'normalize': ans[0], 'startsWith': ans[1]}
    if k == 'dict':
        return {'getIn': ans[0], 'deleteIn': ans[1], 'assocPath': ans[2], 'assocIn': ans[3],
                'updateInConst': ans[4], 'dictToPaths': ans[5], 'hierarchyDepth': ans[6],
                'pathsToDict': ans[7]}
    if k == 'store':
        return {'walk': ans[0], 'pathTo': ans[1], 'pathFor': case['a'], 'establish': ans[2]}


def compare(case, impl, model):
    io = impl.get('obs') if isinstance(impl, dict) else None
    if io is None:
        return f'implementation probe failed: {impl}'
    diffs = []
    for key, mv in model.items():
        if key.startswith('_'):
            continue
        iv = io.get(key)
        if key in ('assocPath',) and case['kind'] == 'dict' and not case['p']:
            pass
        if iv != mv:
            diffs.append(f'{key}: impl={_short(iv)} model={_short(mv)}')
    return '; '.join(diffs) if diffs else None


def _short(x):
    import json
    s = json.dumps(x, default=str)
    return s if len(s) < 300 else s[:300] + '…'


def oracle(case, impl):
    if not isinstance(impl, dict) or 'fails' not in impl:
        return [f'probe-crashed: {impl}']
    return impl['fails']


def nontrivial(case, impl):
    if case['kind'] == 'store':
        return len(case['rel']) >= 2
    if case['kind'] == 'dict':
        return len(case['p']) >= 2
    return len(case['p']) >= 2


def classify(case, failure):
    return None


def stats(results):
    from collections import Counter
    kinds = Counter(r['case']['kind'] for r in results)
    walk_ok = sum(1 for r in results if r['case']['kind'] == 'store'
                  and isinstance(r['impl'], dict) and 'some' in r['impl'].get('obs', {}).get('walk', {}))
    dots = sum(1 for r in results if r['case']['kind'] == 'store' and '..' in r['case']['rel'])
    errs = Counter()
    for r in results:
        if r['case']['kind'] == 'dict' and isinstance(r['impl'], dict):
            for k, v in r['impl'].get('obs', {}).items():
                if isinstance(v, dict) and 'err' in v:
                    errs[f"{k}:{v['err']}"] += 1
    return {'kinds': dict(kinds), 'store_walks_succeeding': walk_ok,
            'store_walks_with_dotdot': dots, 'error_branches': dict(errs)}


def shrink(case):
    k = case['kind']
    for key in ('p', 'q', 'rel', 'a', 'b', 's'):
        if key in case and case[key]:
            for i in range(len(case[key])):
                c = dict(case)
                c[key] = case[key][:i] + case[key][i + 1:]
                if k == 'store' and key in ('a', 'b'):
                    continue
                yield c


LEVEL_TEXT = ('Lean 4 theorems, for all trees and all paths (unbounded): walking a relative path with ".." '
              'anywhere reaches the node of its lexical normal form; path_to/path_for lead to the node; '
              'get_in reads what assoc_path/update_in wrote; delete_in removes exactly the entry; frame '
              'lemmas for every diverging path; normalize idempotent and compositional (two legs resolve as the whole route); paths_to_dict rebuilds any nested dictionary '
              '(unique keys, no empty sub-dictionary) from its dict_to_paths / hierarchy_depth enumeration, and get_in '
              'reads every enumerated leaf. The model is tied to the code by a '
              'correspondence check of every helper and of real Store navigation (node identity).')
LEVEL_NOTE = ('Trusted: Lean kernel; axioms ⊆ {propext, Classical.choice, Quot.sound}; the hand-written model '
              'of topology.py/store.py navigation, validated by differential runs (exhaustive over a small '
              'family in the thorough tier). The inverse law is proved in both directions: dictionary -> paths -> dictionary '
              '(pathsToDict_dictToPaths) and, for every prefix-free list of paths, paths -> dictionary -> paths up to '
              'the grouping of common prefixes (dictToPaths_pathsToDict_perm; with the order kept for distinct first keys). Process '
              'nodes on the route are out of scope.')
TECHNIQUE = 'Lean 4 proof by induction over paths + model/code correspondence (differential)'


# trees whose nodes were created from a state (glob members named by set_value / `_add`)
from harness import globtree as _gt                     # noqa: E402
from harness.mixins import add_family as _add_family    # noqa: E402
_add_family(globals(), _gt, 'globtree', _gt.oracle, share=0.01)


# Store.connect on one variable of a port: the recorded relative path leads from the port's store to the target
from harness import connectpath as _cp                  # noqa: E402
from harness.mixins import add_family as _add_family    # noqa: E402,F811
_add_family(globals(), _cp, 'connectpath', _cp.oracle, share=0.02)
