"""Generators and corpus of C09 (imported by harness/props/c09.py).

All randomness comes from the `rng` handed in by the runner.  The current shape of the hierarchy
(which keys exist where) is tracked by a *shadow* `Store` that the generator updates itself, so that
most operations address existing nodes; if the shadow raises, the history simply ends there."""
import copy
import warnings


class PD:
    """descriptor of a probe process"""
    def __init__(self, name, is_step, schema, timestep=1):
        self.name, self.is_step, self.schema, self.timestep = name, is_step, schema, timestep


def E(v):
    """plain Python (+ PD) -> case JSON: dict {'d'}, tuple {'l'}, list {'L'}"""
    if isinstance(v, PD):
        return {'d': [['__proc__', v.name], ['is_step', v.is_step], ['schema', E(v.schema)],
                      ['timestep', v.timestep]]}
    if v is None or isinstance(v, (bool, int, str)):
        return v
    if isinstance(v, tuple):
        return {'l': [E(x) for x in v]}
    if isinstance(v, list):
        return {'L': [E(x) for x in v]}
    if isinstance(v, dict):
        return {'d': [[k, E(x)] for k, x in v.items()]}
    raise ValueError(v)


class Ctx:
    def __init__(self, rng):
        self.rng = rng
        self.n = 0

    def fresh(self, prefix):
        self.n += 1
        return f'{prefix}{self.n}'


def gen_vars(rng, names=('x', 'y', 'z')):
    out = {}
    for v in rng.sample(list(names), rng.choice([1, 1, 2, 3][:len(names) + 1])):
        sch = {'_default': rng.randrange(0, 20)}
        r = rng.random()
        if r < 0.25:
            sch['_updater'] = 'set'
        elif r < 0.35:
            sch['_updater'] = 'accumulate'
        elif r < 0.38:
            sch['_updater'] = 'null'
        r = rng.random()
        if r < 0.2:
            sch['_divider'] = 'zero'
        elif r < 0.3:
            sch['_divider'] = 'set'
        elif r < 0.36:
            sch['_divider'] = 'null'
        elif r < 0.44:
            # a divider whose two shares differ (deterministically): the daughters must not get the same share.  The
            # variable has a name of its own: a dictionary default declared by two processes for one variable is
            # merged in place by the store (defaults are not copied), which the model has no sharing for
            out['sd%06d' % rng.randrange(10 ** 6)] = {
                '_default': {k: i + 1 for i, k in enumerate(rng.sample(['a', 'b', 'c', 'd'], rng.choice([1, 2, 3])))},
                '_updater': 'set', '_divider': 'split_dict'}
        out[v] = sch
    return out


def gen_port(rng):
    """(kind, schema, store-name prefix)"""
    r = rng.random()
    if r < 0.36:
        return gen_vars(rng), 's'
    if r < 0.62:
        return {'*': gen_vars(rng)}, 'g'
    if r < 0.72:
        leaf = {'_default': rng.randrange(0, 9)}
        if rng.random() < 0.3:
            leaf['_updater'] = 'set'
        return {'*': leaf}, 'h'
    if r < 0.84:
        return {'m': gen_vars(rng, ('u', 'v')), 'w': {'_default': rng.randrange(5)}}, 'n'
    if r < 0.92:
        return {'*': {'in': gen_vars(rng, ('u', 'v'))}}, 'gg'
    return {}, rng.choice(['s', 'g', 'q'])


def gen_proc(ctx, depth, step=False):
    """(PD, topology) for a process living `depth` levels below the root"""
    rng = ctx.rng
    name = ctx.fresh('S' if step else 'P')
    schema, topo = {}, {}
    for i in range(rng.choice([1, 1, 2, 2, 3])):
        port = f'p{i}'
        sch, prefix = gen_port(rng)
        ups = rng.choice([0, 0, 0, 1, 1, 2])
        ups = min(ups, depth) if rng.random() < 0.97 else ups
        path = ('..',) * ups
        if rng.random() < 0.12:
            path += (rng.choice(['b0', 'b1']),)
        path += (prefix + str(rng.randrange(2)),)
        schema[port] = sch
        if rng.random() < 0.9 or i == 0:
            topo[port] = path
        else:
            schema[prefix + '9'] = schema.pop(port)     # port without topology entry: (port,)
    return PD(name, step, schema, rng.choice([1, 1, 2])), topo


def gen_layout(ctx, depth, maxdepth, small=False):
    """nested (processes, steps, flow, topology) dicts"""
    rng = ctx.rng
    procs, steps, flow, topo = {}, {}, {}, {}
    for _ in range(rng.choice([0, 1, 1, 2] if not small else [1, 1, 2])):
        pd, tp = gen_proc(ctx, depth)
        procs[pd.name] = pd
        topo[pd.name] = tp
    prev = []
    for _ in range(rng.choice([0, 0, 0, 1, 2] if not small else [0, 0, 1])):
        pd, tp = gen_proc(ctx, depth, step=True)
        steps[pd.name] = pd
        topo[pd.name] = tp
        r = rng.random()
        if r < 0.35:
            flow[pd.name] = []
            prev.append(pd.name)
        elif r < 0.6 and prev:
            flow[pd.name] = [(rng.choice(prev),)]     # only steps that have a flow entry themselves
            prev.append(pd.name)
    if depth < maxdepth:
        for _ in range(rng.choice([0, 1, 1, 2] if not small else [0, 0, 1])):
            sp, ss, sf, st = gen_layout(ctx, depth + 1, maxdepth, small)
            if not sp and not ss:
                continue
            key = ctx.fresh('c')
            if rng.random() < 0.45 and depth + 2 <= maxdepth + 1:
                cont = rng.choice(['g0', 'g1'])      # compartments inside a glob store ("agents")
                sp2, ss2, sf2, st2 = gen_layout(ctx, depth + 2, maxdepth, small) if False else (sp, ss, sf, st)
                for d, sub in ((procs, sp2), (steps, ss2), (flow, sf2), (topo, st2)):
                    if sub:
                        d.setdefault(cont, {})[key] = sub
            else:
                for d, sub in ((procs, sp), (steps, ss), (flow, sf), (topo, st)):
                    if sub:
                        d[key] = sub
    return procs, steps, flow, topo


def gen_state(rng, shadow):
    """initial values for some declared variables and a few children of glob stores"""
    state = {}

    def rec(node, out, depth):
        for k, c in node.inner.items():
            if _is_proc(c):
                continue
            if c.subschema:
                kids = {}
                for _ in range(rng.choice([0, 1, 2, 2, 3])):
                    kids[f'k{rng.randrange(5)}'] = _state_for_sub(rng, c.subschema)
                sub = {}
                rec(c, sub, depth + 1)
                kids.update(sub)
                if kids or rng.random() < 0.3:
                    out[k] = kids
            elif c.inner:
                sub = {}
                rec(c, sub, depth + 1)
                if sub:
                    out[k] = sub
            elif rng.random() < 0.5:
                out[k] = rng.randrange(0, 50)
    rec(shadow, state, 0)
    return state


def _state_for_sub(rng, subschema):
    if any(k.startswith('_') for k in subschema):
        return rng.randrange(0, 30)
    out = {}
    for k, v in subschema.items():
        if isinstance(v, dict) and not any(kk.startswith('_') for kk in v):
            if rng.random() < 0.5:
                out[k] = {kk: rng.randrange(30) for kk in v if rng.random() < 0.6}
        elif rng.random() < 0.6:
            out[k] = rng.randrange(0, 30)
    return out


def _is_proc(node):
    from vivarium.core.process import Process
    return isinstance(node.value, Process)


def _branches(root):
    """[(path, node)] of non-process nodes that take branch updates"""
    out = []

    def rec(n, p):
        if _is_proc(n):
            return
        if n.inner or n.subschema:
            out.append((p, n))
        for k, c in n.inner.items():
            rec(c, p + (k,))
    rec(root, ())
    return out


def _shares(a, b):
    """the two divided states hold one and the same dict object somewhere"""
    if isinstance(a, dict) and a is b:
        return True
    if isinstance(a, dict) and isinstance(b, dict):
        return any(_shares(a[k], b[k]) for k in a if k in b)
    return False


def _all_nodes(root):
    out = [root]
    for c in root.inner.values():
        out.extend(_all_nodes(c))
    return out


def _procs(root):
    out = []

    def rec(n, p):
        if _is_proc(n):
            out.append((p, n))
        for k, c in n.inner.items():
            rec(c, p + (k,))
    rec(root, ())
    return out


def _leaves(root):
    out = []

    def rec(n, p):
        if _is_proc(n):
            return
        if not n.inner and not n.subschema and isinstance(n.value, int) and not isinstance(n.value, bool):
            out.append((p, n))
        for k, c in n.inner.items():
            rec(c, p + (k,))
    rec(root, ())
    return out


def _norm(path):
    out = []
    for s in path:
        if s == '..':
            if not out:
                return None
            out.pop()
        else:
            out.append(s)
    return tuple(out)


def _merge(a, b):
    for k, v in b.items():
        if k in a and isinstance(a[k], dict) and isinstance(v, dict):
            _merge(a[k], v)
        elif k in a and isinstance(a[k], list) and isinstance(v, list):
            a[k] = a[k] + v
        else:
            a[k] = v
    return a


def _nest(path, upd):
    for k in reversed(path):
        upd = {k: upd}
    return upd


def gen_op(ctx, shadow, at=None, ps_choices=None, engine_ports=None):
    """one operation: (branch path, branch-level update dict, op name, ps path or None)"""
    rng = ctx.rng
    br = _branches(shadow)
    if at is not None:
        br = [(p, n) for p, n in br if p[:len(at)] == at]
    if not br:
        return None
    weights = [3 if n.subschema else (2 if len(p) > 0 else 1) for p, n in br]
    b, node = rng.choices(br, weights)[0]
    kids = list(node.inner.keys())
    r = rng.random()
    if r < 0.27:                                   # ---- _add
        key = ctx.fresh('k')
        if kids and rng.random() < 0.08:
            key = rng.choice(kids)
        if node.subschema:
            state = _state_for_sub(rng, node.subschema)
        else:
            state = rng.choice([rng.randrange(40), {'x': rng.randrange(9)}, {}, rng.randrange(40)])
        entries = [{'key': key, 'state': state}]
        if rng.random() < 0.12:
            # a second entry in the same list: a fresh key, the key of the first entry, or a present one
            k2 = rng.choice([ctx.fresh('k'), key] + (kids[:1] if kids else [key]))
            entries.append({'key': k2, 'state': state if not isinstance(state, dict) else dict(state)})
        return b, {'_add': entries}, 'add', None
    if r < 0.50:                                   # ---- _delete
        if not kids:
            return None
        key = rng.choice(kids)
        q = rng.random()
        if q < 0.05:
            return b, {'_delete': [(key,)]}, 'delete-tuple', None
        if q < 0.10:
            key = 'nokey'
        if q > 0.9 and len(kids) > 1:
            return b, {'_delete': rng.sample(kids, 2)}, 'delete', None
        return b, {'_delete': [key]}, 'delete', None
    if r < 0.66:                                   # ---- _move
        cands = [k for k in kids if not _is_proc(node.inner[k])] or kids
        if not cands:
            return None
        key = rng.choice(cands)
        if engine_ports is not None:
            ports = list(engine_ports.items())
            port, tpath = rng.choice(ports)
            ps = None
        else:
            pl = _procs(shadow)
            pl = [(p, n) for p, n in pl if isinstance(n.topology, dict) and n.topology]
            if not pl:
                return None
            ps, pn = rng.choice(pl)
            port = rng.choice(list(pn.topology.keys()))
            if not isinstance(pn.topology[port], tuple):
                return None
        tbase = engine_ports[port] if engine_ports is not None else _norm(ps[:-1] + pn.topology[port])
        target = port
        if rng.random() < 0.15:
            target = (port, rng.choice(['sub', 'k1', 'x']))
            tbase = None if tbase is None else tuple(tbase) + target[1:]
        if tbase is None or tuple(tbase[:len(b) + 1]) == b + (key,):
            return None          # moving a node into its own subtree makes the hierarchy cyclic
        try:
            tnode = shadow.get_path(tuple(tbase))
            if key in tnode.inner and _procs(node.inner[key]):
                return None      # collision at the target with a process inside the moved subtree
        except Exception:
            pass
        mv = {'source': key if rng.random() < 0.8 else (key,), 'target': target}
        subs = [k2 for k2, n2 in node.inner[key].inner.items() if not _is_proc(n2)]
        if subs and rng.random() < 0.2 and engine_ports is None:
            # a source path of two segments: the node goes to <target>/<key>/<sub> (F56: and is reported there)
            mv = {'source': (key, rng.choice(subs)), 'target': target}
            return b, {'_move': [mv]}, 'move', ps
        if rng.random() < 0.2:
            src = node.inner[key]
            lv = [(p, n) for p, n in _leaves(src)]
            if lv:
                p, n = rng.choice(lv)
                mv['update'] = _nest(p, rng.randrange(1, 9)) if p else rng.randrange(1, 9)
        return b, {'_move': [mv]}, 'move', ps
    if r < 0.80:                                   # ---- _generate
        procs, steps, flow, topo = gen_layout(ctx, len(b) + 1, len(b) + 2, small=True)
        g = {'key': ctx.fresh('c'), 'processes': procs, 'topology': topo,
             'initial_state': rng.choice([{}, {}, {'s0': {'x': rng.randrange(9)}}])}
        if steps or rng.random() < 0.3:
            g['steps'] = steps
        if flow or rng.random() < 0.2:
            g['flow'] = flow
        if rng.random() < 0.04:
            del g['key']
        return b, {'_generate': [g]}, 'generate', None
    if r < 0.92:                                   # ---- _divide
        cands = [k for k in kids if node.inner[k].inner and not _is_proc(node.inner[k])]
        if not cands:
            return None
        mother = rng.choice(cands)
        # F12 (recorded for C11): the default `set` divider hands the SAME object to both daughters;
        # if a variable below the mother holds a dict, `deep_merge` of one daughter's initial_state
        # mutates it and the state leaks into the other daughter.  The model has no sharing, so
        # no initial_state is given in that situation (see notes/C09.md).
        try:
            halves = node.inner[mother].divide_value()
            shared = bool(halves) and _shares(halves[0], halves[1])
        except Exception:
            shared = True
        ds = []
        for i in range(2):
            d = {'key': ctx.fresh('d')}
            q = rng.random()
            if q < 0.25:
                procs, steps, flow, topo = gen_layout(ctx, len(b) + 1, len(b) + 1, small=True)
                d['processes'] = procs
                d['topology'] = topo
                if steps:
                    d['steps'] = steps
                if flow:
                    d['flow'] = flow
            elif q < 0.37:
                # a data-only daughter: she lists her processes, and the list is empty (nothing is inherited)
                d[rng.choice(['processes', 'processes', 'steps'])] = {}
                if 'steps' in d and rng.random() < 0.5:
                    d['processes'] = {}
                if rng.random() < 0.4:
                    d['topology'] = {}
            if rng.random() < 0.3 and not shared:
                d['initial_state'] = rng.choice([{}, {'s0': {'x': rng.randrange(9)}}, {'extra': {}}])
            ds.append(d)
        if rng.random() < 0.05:
            ds = ds[:1]
        return b, {'_divide': {'mother': mother, 'daughters': ds}}, 'divide', None
    lv = [(p, n) for p, n in _leaves(shadow) if at is None or p[:len(at)] == at]  # ---- value update
    if not lv:
        return None
    p, n = rng.choice(lv)
    return p[:-1], {p[-1]: rng.randrange(1, 9)}, 'value', None


def gen_update(ctx, shadow, at=None, engine_ports=None):
    """≤ 3 operations merged into one update rooted at `at` (absolute path of a branch) or ()"""
    rng = ctx.rng
    ops = []
    ps = None
    upd = {}
    root_at = at if at is not None else ()
    for _ in range(rng.choice([1, 1, 1, 2, 2, 3])):
        o = gen_op(ctx, shadow, at=at, engine_ports=engine_ports)
        if o is None:
            continue
        b, u, name, p = o
        # the model identifies the process store (`state`) of a `_move` by its path: an update
        # that moves and also removes nodes could remove that store (or an ancestor) first
        if name == 'move' and any(x in ('move', 'delete', 'delete-tuple', 'divide') for x in ops):
            continue
        if 'move' in ops and name in ('move', 'delete', 'delete-tuple', 'divide'):
            continue
        if p is not None:
            if ps is not None and ps != p:
                continue
            ps = p
        _merge(upd, _nest(b[len(root_at):], u))
        ops.append(name)
    return upd, ops, ps


def apply_shadow(shadow, here, upd, ps):
    node = shadow.get_path(tuple(here))
    st = shadow.get_path(tuple(ps)) if ps is not None else None
    node.apply_update(upd, st)


def build_shadow(init_json):
    from vivarium.core.store import Store
    from harness.props import c09
    procs = {}
    root = Store({})
    root.generate((), c09.dec_x(init_json['processes'], procs), c09.dec_x(init_json['steps'], procs),
                  c09.dec_x(init_json['flow'], procs) if init_json.get('flow') is not None else None,
                  c09.dec_x(init_json['topology'], procs), c09.dec_x(init_json['state'], procs))
    return root, procs


def gen_case(ctx, kind):
    from harness.props import c09
    rng = ctx.rng
    procs, steps, flow, topo = gen_layout(ctx, 0, rng.choice([1, 2, 2, 3]))
    if not procs and not steps:
        pd, tp = gen_proc(ctx, 0)
        procs[pd.name] = pd
        topo[pd.name] = tp
    init = {'processes': E(procs), 'steps': E(steps), 'flow': E(flow) if (flow or rng.random() < 0.5) else None,
            'topology': E(topo), 'state': E({})}
    case = {'kind': kind, 'init': init, 'updates': []}
    try:
        shadow, _ = build_shadow(init)
        init['state'] = E(gen_state(rng, shadow))
        shadow, sprocs = build_shadow(init)
    except Exception:
        case['kind'] = 'direct'
        return case              # the initial composite is rejected: compared as such
    driver = None
    engine_ports = None
    if kind == 'engine':
        br = [p for p, n in _branches(shadow) if p]
        if not br:
            case['kind'] = kind = 'direct'
        else:
            is_step = rng.random() < 0.4
            name = ctx.fresh('DRV')
            nports = min(len(br), rng.choice([1, 2, 3]))
            targets = rng.sample(br, nports)
            engine_ports = {f't{i}': t for i, t in enumerate(targets)}
            pd = PD(name, is_step, {p: {} for p in engine_ports}, rng.choice([1, 1, 2, 3]))
            (steps if is_step else procs)[name] = pd
            topo[name] = dict(engine_ports)
            if is_step and not any(isinstance(v, PD) and not v.is_step for v in procs.values()):
                tick, tp = PD(ctx.fresh('TICK'), False, {}, pd.timestep), {}
                procs[tick.name] = tick
                topo[tick.name] = tp
            init['processes'], init['steps'], init['topology'] = E(procs), E(steps), E(topo)
            case['driver'] = driver = {'name': name, 'path': [name], 'is_step': is_step,
                                       'timestep': pd.timestep, 'port_of': []}
            try:
                shadow, sprocs = build_shadow(init)
            except Exception:
                case['kind'] = 'direct'
                case.pop('driver', None)
                return case
    for _ in range(rng.choice([1, 2, 3, 4, 5, 6, 8, 10, 12])):
        try:
            if kind == 'engine':
                if rng.random() < 0.12:
                    case['updates'].append({'upd_rel': None, 'ops': []})
                    driver['port_of'].append(None)
                    continue
                port = rng.choice(list(engine_ports))
                at = tuple(engine_ports[port])
                upd, ops, _ = gen_update(ctx, shadow, at=at, engine_ports=engine_ports)
                if not upd:
                    continue
                ups = {'upd_rel': E(upd), 'upd_abs': E(_nest(at, upd)), 'ops': ops}
                case['updates'].append(ups)
                driver['port_of'].append(port)
                apply_shadow(shadow, (), c09.dec_x(ups['upd_abs'], sprocs), driver['path'])
            else:
                at = None
                here = ()
                if rng.random() < 0.25:
                    br = _branches(shadow)
                    if br:
                        here = rng.choice(br)[0]
                        at = here
                upd, ops, ps = gen_update(ctx, shadow, at=at)
                if not upd:
                    continue
                if rng.random() < 0.03:
                    upd = {'_multi_update': [upd, {}]}
                u = {'here': list(here), 'upd': E(upd), 'ps': list(ps) if ps is not None else None,
                     'ops': ops}
                case['updates'].append(u)
                apply_shadow(shadow, here, c09.dec_x(u['upd'], sprocs), ps)
        except Exception:
            break                # the update raises: the history ends here (on both sides)
    return case


MALFORMED = [
    {'_add': [{'state': 1}]}, {'_add': [{'key': 'zz'}]}, {'_add': 5}, {'_add': [3]},
    {'_delete': 7}, {'_delete': [None]}, {'_delete': [5, 'nokey']},
    {'_divide': {'daughters': []}}, {'_divide': {'mother': 'nokey', 'daughters': []}},
    {'_divide': {'mother': 'nokey'}}, {'_divide': 4},
    {'_move': [{'source': 'nokey', 'target': 'p0'}]}, {'_move': [{'target': 'p0'}]},
    {'_move': [{'source': 'k0'}]}, {'_move': 1},
    {'_generate': [{'key': 'gg', 'processes': {}}]}, {'_generate': [{'processes': {}, 'topology': {}}]},
    {'_generate': [{'key': 'g1', 'processes': {}, 'topology': {}, 'initial_state': 3}]},
    {'_generate': 2}, {'_generate': [7]},
    {'_multi_update': 3}, 5, None, 'zz',
]


def gen_malformed(ctx):
    from harness.props import c09
    rng = ctx.rng
    case = gen_case(ctx, 'direct')
    case['kind'] = 'malformed'
    try:
        shadow, sprocs = build_shadow(case['init'])
        for u in case['updates']:
            apply_shadow(shadow, u['here'], c09.dec_x(u['upd'], sprocs), u['ps'])
        br = _branches(shadow)
    except Exception:
        return case
    if not br:
        return case
    b, node = rng.choice(br)
    bad = copy.deepcopy(rng.choice(MALFORMED))
    pl = _procs(shadow)
    ps = list(rng.choice(pl)[0]) if pl and rng.random() < 0.7 else None
    case['updates'].append({'here': list(b), 'upd': E(bad), 'ps': ps, 'ops': ['malformed']})
    return case


def generate(rng, n, tier):
    warnings.simplefilter('ignore')
    ctx = Ctx(rng)
    cases = []
    for i in range(n):
        r = rng.random()
        if r < 0.58:
            cases.append(gen_case(ctx, 'direct'))
        elif r < 0.88:
            cases.append(gen_case(ctx, 'engine'))
        else:
            cases.append(gen_malformed(ctx))
    return cases


# ------------------------------------------------------------------ corpus

def _case(procs, topo, state, updates, steps=None, flow=None, kind='direct', driver=None):
    c = {'kind': kind,
         'init': {'processes': E(procs), 'steps': E(steps or {}), 'flow': E(flow) if flow is not None else None,
                  'topology': E(topo), 'state': E(state)},
         'updates': updates}
    if driver:
        c['driver'] = driver
    return c


def _u(upd, here=(), ps=None, ops=()):
    return {'here': list(here), 'upd': E(upd), 'ps': list(ps) if ps is not None else None, 'ops': list(ops)}


def corpus():
    glob = PD('P1', False, {'sub': {'*': {'m': {'_default': 5}}}, 'a': {'x': {'_default': 1}}})
    gt = {'sub': ('G',), 'a': ('A',)}
    agent = lambda n: PD(n, False, {'port1': {'var_a': {'_default': 0}}, 'port2': {'var_b': {'_default': 1}}})
    out = []
    # test_add_delete pattern: delete the current children and add new ones in one update
    out.append(_case({'P1': glob}, {'P1': gt}, {'G': {'k1': {'m': 7}, 'k2': {}}}, [
        _u({'G': {'_delete': ['k1', 'k2'], '_add': [{'key': 'k3', 'state': {'m': 9}},
                                                   {'key': 'k4', 'state': {}}]}}, ops=['add', 'delete']),
        _u({'G': {'_add': [{'key': 'k9', 'state': {'m': 1}}], '_delete': ['k9']}}, ops=['add', 'delete']),
    ]))
    # F7: the documented tuple-path form of _delete deletes nothing (known finding)
    out.append(_case({'P1': glob}, {'P1': gt}, {'G': {'k1': {'m': 7}}}, [
        _u({'G': {'_delete': [('k1',)]}}, ops=['delete-tuple'])]))
    # adding an existing key is rejected
    out.append(_case({'P1': glob}, {'P1': gt}, {'G': {'k1': {'m': 7}}}, [
        _u({'G': {'_add': [{'key': 'k1', 'state': {'m': 1}}]}}, ops=['add'])]))
    # ... also when an earlier entry of the same list created the key, or a later entry names a present key
    out.append(_case({'P1': glob}, {'P1': gt}, {'G': {'k1': {'m': 7}}}, [
        _u({'G': {'_add': [{'key': 'n', 'state': {'m': 5}}, {'key': 'n', 'state': {'m': 6}}]}}, ops=['add'])]))
    out.append(_case({'P1': glob}, {'P1': gt}, {'G': {'k1': {'m': 7}}}, [
        _u({'G': {'_add': [{'key': 'n', 'state': {'m': 5}}, {'key': 'k1', 'state': {'m': 6}}]}}, ops=['add'])]))
    # deleting a key that is re-added in the same update: additions first -> rejected
    out.append(_case({'P1': glob}, {'P1': gt}, {'G': {'k1': {'m': 7}}}, [
        _u({'G': {'_delete': ['k1'], '_add': [{'key': 'k1', 'state': {'m': 1}}]}}, ops=['add', 'delete'])]))
    # test_move_update pattern; moved compartment holds a process, a deriver-like step and a flow step
    # (pre-fix F9: the moved step was reported twice / as a process)
    mover = PD('MV', False, {'1': {}, '2': {}, '3': {}})
    st1 = PD('S1', True, {'port1': {'var_a': {'_default': 0}}})
    st2 = PD('S2', True, {'port1': {'var_a': {'_default': 0}}})
    procs = {'MV': mover, 'store1': {'a1': {'toy': agent('T1')}, 'a2': {'toy': agent('T2')}}}
    steps = {'store1': {'a1': {'S1': st1, 'S2': st2}}}
    flow = {'store1': {'a1': {'S2': [('S1',)]}}}
    topo = {'MV': {'1': ('store1',), '2': ('store2',), '3': ('store3',)},
            'store1': {'a1': {'toy': {'port1': ('store_A',), 'port2': ('store_B',)},
                              'S1': {'port1': ('store_A',)}, 'S2': {'port1': ('store_A',)}},
                       'a2': {'toy': {'port1': ('store_A',), 'port2': ('store_B',)}}}}
    state = {'store1': {'a1': {'store_A': {'var_a': 3}}}, 'store2': {'a3': {}}, 'store3': {}}
    out.append(_case(procs, topo, state, [
        _u({'store1': {'_move': [{'source': 'a1', 'target': '3'}]}}, ps=('MV',), ops=['move']),
        _u({'store1': {'_move': [{'source': ('a2',), 'target': '2',
                                  'update': {'store_A': {'var_a': 4}}}]}}, ps=('MV',), ops=['move']),
        _u({'store3': {'_move': [{'source': 'a1', 'target': ('2', 'a3')}]}}, ps=('MV',), ops=['move']),
    ], steps=steps, flow=flow))
    # F58: a two-segment source arriving where a node of that name exists: its value is applied to that node (the
    # collision branch), as for a one-segment source
    nest2 = PD('MV2', False, {'here': {'*': {'*': {'mass': {'_default': 0}}}}, 'there': {'*': {'*': {'mass': {'_default': 0}}}}})
    out.append(_case({'MV2': nest2}, {'MV2': {'here': ('here',), 'there': ('there',)}},
                     {'here': {'a': {'x': {'mass': 3}, 'y': {'mass': 4}}}, 'there': {'a': {'x': {'mass': 10}}}}, [
        _u({'here': {'_move': [{'source': ('a', 'x'), 'target': 'there'}]}}, ps=('MV2',), ops=['move'])]))
    out.append(_case({'MV2': nest2}, {'MV2': {'here': ('here',), 'there': ('there',)}},
                     {'here': {'a': {'x': {'mass': 3}}}, 'there': {'a': {'x': {'mass': 10}}}}, [
        _u({'here': {'_move': [{'source': 'a', 'target': 'there'}]}}, ps=('MV2',), ops=['move'])]))
    # division: daughters copy the mother's processes and topology; then divide a daughter again
    cellp = PD('CP', False, {'g': {'v': {'_default': 4, '_divider': 'zero'}, 'w': {'_default': 2}},
                             'out': {'*': {}}})
    procs = {'agents': {'m': {'CP': cellp}}}
    topo = {'agents': {'m': {'CP': {'g': ('inner',), 'out': ('..',)}}}}
    out.append(_case(procs, topo, {'agents': {'m': {'inner': {'v': 9, 'w': 8}}}}, [
        _u({'agents': {'_divide': {'mother': 'm', 'daughters': [{'key': 'm0'}, {'key': 'm1', 'initial_state': {'inner': {'w': 1}}}]}}}, ops=['divide']),
        _u({'agents': {'_divide': {'mother': 'm0', 'daughters': [
            {'key': 'm00', 'processes': {'Q': PD('Q', False, {'g': {'v': {'_default': 1}}})},
             'topology': {'Q': {'g': ('inner',)}}}, {'key': 'm01'}]}}}, ops=['divide']),
    ]))
    # division into data-only daughters: an empty `processes` list is a list (nothing is inherited)
    out.append(_case(procs, topo, {'agents': {'m': {'inner': {'v': 9, 'w': 8}}}}, [
        _u({'agents': {'_divide': {'mother': 'm', 'daughters': [{'key': 'm0', 'processes': {}},
                                                                 {'key': 'm1'}]}}}, ops=['divide']),
        _u({'agents': {'_divide': {'mother': 'm1', 'daughters': [{'key': 'm10', 'processes': {}, 'topology': {}},
                                                                  {'key': 'm11', 'processes': {}}]}}},
           ops=['divide']),
    ]))
    # F57: the mother's steps have a flow; a daughter that brings her own processes (or steps) and no flow does not
    # get the mother's flow reported for her, the daughter that names nothing inherits it
    fsteps = {'agents': {'m': {'S1': PD('S1', True, {'g': {'v': {'_default': 4}}}),
                               'S2': PD('S2', True, {'g': {'v': {'_default': 4}}})}}}
    fflow = {'agents': {'m': {'S1': [], 'S2': [('S1',)]}}}
    ftopo = {'agents': {'m': {'CP': {'g': ('inner',), 'out': ('..',)}, 'S1': {'g': ('inner',)},
                              'S2': {'g': ('inner',)}}}}
    out.append(_case(procs, ftopo, {'agents': {'m': {'inner': {'v': 9, 'w': 8}}}}, [
        _u({'agents': {'_divide': {'mother': 'm', 'daughters': [
            {'key': 'm0', 'processes': {'Q': PD('Q', False, {'g': {'v': {'_default': 1}}})},
             'steps': {'D': PD('D', True, {'g': {'v': {'_default': 1}}})},
             'topology': {'Q': {'g': ('inner',)}, 'D': {'g': ('inner',)}}},
            {'key': 'm1'}]}}}, ops=['divide']),
    ], steps=fsteps, flow=fflow))
    # _generate of a nested compartment with a step and flow, ports reaching up
    gen = {'key': 'new', 'processes': {'in': {'GP': PD('GP', False, {'a': {'x': {'_default': 2}},
                                                                      'up': {'*': {'m': {'_default': 1}}}})}},
           'steps': {'GS': PD('GS', True, {'a': {'x': {'_default': 2}}})},
           'flow': {'GS': []},
           'topology': {'in': {'GP': {'a': ('A2',), 'up': ('..', '..', 'G')}}, 'GS': {'a': ('in', 'A2')}},
           'initial_state': {'in': {'A2': {'x': 11}}}}
    out.append(_case({'P1': glob}, {'P1': gt}, {'G': {'k1': {}}}, [
        _u({'G': {'_generate': [gen]}}, ops=['generate']),
        _u({'G': {'_delete': ['new', 'k1']}}, ops=['delete'])]))
    # F52: the initial state of a generated child names a variable that only the collection's sub-schema declares
    out.append(_case({'P1': glob}, {'P1': gt}, {'G': {'k1': {'m': 7}}}, [
        _u({'G': {'_generate': [{'key': 'n', 'processes': {}, 'topology': {}, 'initial_state': {'m': 9}}]}},
           ops=['generate'])]))
    # engine: a scripted process adds and deletes through a port (test_add_delete inside an Engine)
    drv = PD('DRV0', False, {'t0': {}, 't1': {}}, 1)
    out.append(_case({'P1': glob, 'DRV0': drv}, {'P1': gt, 'DRV0': {'t0': ('G',), 't1': ('A',)}},
                     {'G': {'k1': {'m': 7}}},
                     [{'upd_rel': E({'_add': [{'key': 'k2', 'state': {'m': 3}}], '_delete': ['k1']}),
                       'upd_abs': E({'G': {'_add': [{'key': 'k2', 'state': {'m': 3}}], '_delete': ['k1']}}),
                       'ops': ['add', 'delete']},
                      {'upd_rel': None, 'ops': []},
                      {'upd_rel': E({'_move': [{'source': 'k2', 'target': 't1'}]}),
                       'upd_abs': E({'G': {'_move': [{'source': 'k2', 'target': 't1'}]}}), 'ops': ['move']}],
                     kind='engine',
                     driver={'name': 'DRV0', 'path': ['DRV0'], 'is_step': False, 'timestep': 1,
                             'port_of': ['t0', None, 't0']}))
    # engine: a scripted step divides a compartment (pre-fix F8 witness: the flow report of a _divide)
    drs = PD('DRV1', True, {'t0': {}}, 1)
    tick = PD('TICK0', False, {}, 1)
    procs = {'agents': {'m': {'CP': cellp}}, 'TICK0': tick}
    steps = {'agents': {'m': {'CS': PD('CS', True, {'g': {'v': {'_default': 4}}})}}, 'DRV1': drs}
    topo = {'agents': {'m': {'CP': {'g': ('inner',), 'out': ('..',)}, 'CS': {'g': ('inner',)}}},
            'TICK0': {}, 'DRV1': {'t0': ('agents',)}}
    dv = {'_divide': {'mother': 'm', 'daughters': [{'key': 'm0'}, {'key': 'm1'}]}}
    out.append(_case(procs, topo, {}, [{'upd_rel': E(dv), 'upd_abs': E({'agents': dv}), 'ops': ['divide']}],
                     steps=steps, flow={'agents': {'m': {'CS': []}}}, kind='engine',
                     driver={'name': 'DRV1', 'path': ['DRV1'], 'is_step': True, 'timestep': 1,
                             'port_of': ['t0']}))
    return out
